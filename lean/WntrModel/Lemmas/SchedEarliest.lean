/- The exact landing statement of the pre-solve loop of M5 `Sched` (used by Props/C04): the groups of equal backtrack
   are served in the order of the due list and the loop stops at the first group after which a tracked value differs
   from the reference. -/
import WntrModel.Lemmas.Sched
import WntrModel.Lemmas.SchedSplit

namespace Wntr.Sched

/-- executable specification of where `presolve` lands when no rule changes anything: serve the groups of equal
backtrack in list order; after the first group whose accumulated actions make a tracked value differ from `ref` land on
that group's instant `cur − backtrack`; if no group does, stay on `cur` -/
def landSpec (ref : Vals) (cur : Int) : List Due → Vals → Int × Vals
  | [], v => (cur, v)
  | d :: ds, v =>
    let g := (d :: ds).takeWhile (fun x => x.back == d.back)
    let v' := g.foldl (fun v x => x.run v) v
    if changed ref v' then (cur - d.back, v') else landSpec ref cur ((d :: ds).dropWhile (fun x => x.back == d.back)) v'
termination_by l => l.length
decreasing_by
  simp only [List.dropWhile_cons, beq_self_eq_true, if_true, List.length_cons]
  exact Nat.lt_succ_of_le (List.dropWhile_sublist _).length_le

theorem landSpec_nil (ref : Vals) (cur : Int) (v : Vals) : landSpec ref cur [] v = (cur, v) := by
  rw [landSpec]

theorem landSpec_cons (ref : Vals) (cur : Int) (d : Due) (ds : List Due) (v : Vals) :
    landSpec ref cur (d :: ds) v =
      if changed ref (((d :: ds).takeWhile (fun x => x.back == d.back)).foldl (fun v x => x.run v) v) then
        (cur - d.back, ((d :: ds).takeWhile (fun x => x.back == d.back)).foldl (fun v x => x.run v) v)
      else landSpec ref cur ((d :: ds).dropWhile (fun x => x.back == d.back))
        (((d :: ds).takeWhile (fun x => x.back == d.back)).foldl (fun v x => x.run v) v) := by
  rw [landSpec]

/-! ### `runGroup` is `takeWhile` on the rest of the due list -/

theorem runGroup_eq (due : List Due) (b : Int) :
    ∀ (fuel cnt : Nat) (v : Vals), due.length - cnt < fuel →
      runGroup due cnt b v fuel =
        (((due.drop cnt).takeWhile (fun x => x.back == b)).foldl (fun v x => x.run v) v,
          cnt + ((due.drop cnt).takeWhile (fun x => x.back == b)).length) := by
  intro fuel
  induction fuel with
  | zero => intro cnt v h; omega
  | succ n ih =>
    intro cnt v h
    unfold runGroup
    cases hd : due[cnt]? with
    | none =>
      have : due.length ≤ cnt := List.getElem?_eq_none_iff.1 hd
      simp [List.drop_eq_nil_of_le this]
    | some d =>
      have hlt : cnt < due.length := (List.getElem?_eq_some_iff.1 hd).1
      rw [drop_of_getElem? hd]
      by_cases hb : (d.back == b) = true
      · simp only [hb, if_true]
        rw [ih (cnt + 1) (d.run v) (by omega), List.takeWhile_cons_of_pos (by simpa using hb)]
        simp only [List.foldl_cons, List.length_cons]
        congr 1; omega
      · simp only [hb, Bool.false_eq_true, if_false]
        rw [List.takeWhile_cons_of_neg (by simpa using hb)]
        simp

theorem drop_length_takeWhile {α : Type} (p : α → Bool) (l : List α) :
    l.drop (l.takeWhile p).length = l.dropWhile p := by
  induction l with
  | nil => rfl
  | cons x xs ih =>
    by_cases h : p x = true
    · rw [List.takeWhile_cons_of_pos h, List.dropWhile_cons_of_pos h]; simpa using ih
    · rw [List.takeWhile_cons_of_neg h, List.dropWhile_cons_of_neg h]; rfl

theorem drop_group (due : List Due) (cnt : Nat) (b : Int) :
    due.drop (cnt + ((due.drop cnt).takeWhile (fun x => x.back == b)).length) =
      (due.drop cnt).dropWhile (fun x => x.back == b) := by
  rw [← drop_length_takeWhile, List.drop_drop]

/-! ### the loop when the rules cannot change anything -/

/-- the rules are inert in this pass: there are none, or no rule timestep is pending up to the tentative time -/
def RulesInert (cfg : Cfg) (s : St) : Prop := cfg.rules = [] ∨ s.simTime < s.ruleIter * cfg.rule

theorem evalRulesAt_vals_of_no_rules {cfg : Cfg} (h : cfg.rules = []) (r : Int) (s : St) :
    (evalRulesAt cfg r s).vals = s.vals := by
  unfold evalRulesAt runRules
  simp [h, check, sortBy]

/-- loop head: clock on the tentative time, nothing changed so far, and the rules stay inert -/
structure QuietInv (cfg : Cfg) (ref : Vals) (cur : Int) (s : St) : Prop where
  sim_eq : s.simTime = cur
  unchanged : changed ref s.vals = false
  inert : cfg.rules = [] ∨ cur < s.ruleIter * cfg.rule

theorem presolveLoop_landSpec {cfg : Cfg} (hR : 0 < cfg.rule) {ref : Vals} {due : List Due} {cur : Int}
    (hb0 : ∀ d ∈ due, 0 ≤ d.back) :
    ∀ (fuel cnt : Nat) (s : St), QuietInv cfg ref cur s →
      due.length - cnt + (cur / cfg.rule - s.ruleIter + 1).toNat < fuel →
      ((presolveLoop cfg ref due fuel cnt s).simTime, (presolveLoop cfg ref due fuel cnt s).vals) =
        landSpec ref cur (due.drop cnt) s.vals := by
  intro fuel
  induction fuel with
  | zero => intro cnt s _ h; omega
  | succ n ih =>
    intro cnt s inv hf
    have hsim := inv.sim_eq
    rw [presolveLoop_succ]
    unfold loopStep
    by_cases hc : cnt < due.length ∨ s.ruleIter * cfg.rule ≤ s.simTime
    · rw [if_pos hc]
      cases hd : due[cnt]? with
      | none =>
        have hlen : due.length ≤ cnt := List.getElem?_eq_none_iff.1 hd
        have hle : s.ruleIter * cfg.rule ≤ cur := by rcases hc with h | h <;> omega
        have hnr : cfg.rules = [] := by rcases inv.inert with h | h; exact h; omega
        have hv := evalRulesAt_vals_of_no_rules hnr (s.ruleIter * cfg.rule) s
        have hK : s.ruleIter ≤ cur / cfg.rule := Int.le_ediv_of_mul_le hR hle
        simp only
        rw [hv, inv.unchanged]
        simp only [Bool.false_eq_true, if_false]
        refine ih cnt _ ⟨hsim, inv.unchanged, Or.inl hnr⟩ ?_
        simp only [evalRulesAt_ruleIter]; omega
      | some d =>
        have hmem : d ∈ due := List.mem_of_getElem? hd
        have hlt : cnt < due.length := (List.getElem?_eq_some_iff.1 hd).1
        have hd0 := hb0 d hmem
        have hgrp := runGroup_eq due d.back (due.length + 1) cnt
        have hcntlt := runGroup_cnt_lt due cnt d
        simp only
        rw [drop_of_getElem? hd, landSpec_cons, ← drop_of_getElem? hd, ← drop_group]
        by_cases h1 : s.simTime - d.back < s.ruleIter * cfg.rule
        · rw [if_pos h1, hgrp s.vals (by omega)]
          simp only
          by_cases hch : changed ref (((due.drop cnt).takeWhile (fun x => x.back == d.back)).foldl (fun v x => x.run v) s.vals) = true
          · rw [if_pos hch, if_pos hch]; simp only; rw [hsim]
          · rw [if_neg hch, if_neg hch]
            refine ih _ _ ⟨hsim, by simpa using hch, inv.inert⟩ ?_
            have h2 := hcntlt s.vals due.length hd
            rw [hgrp s.vals (by omega)] at h2
            simp only at h2 ⊢
            omega
        · -- a rule timestep at or before this instant: only possible without rules
          have hnr : cfg.rules = [] := by rcases inv.inert with h | h; exact h; omega
          rw [if_neg h1]
          by_cases h2 : s.simTime - d.back = s.ruleIter * cfg.rule
          · rw [if_pos h2]
            have hv := evalRulesAt_vals_of_no_rules hnr (s.simTime - d.back) s
            have hK : s.ruleIter ≤ cur / cfg.rule := Int.le_ediv_of_mul_le hR (by omega)
            rw [hv, hgrp s.vals (by omega)]
            simp only
            by_cases hch : changed ref (((due.drop cnt).takeWhile (fun x => x.back == d.back)).foldl (fun v x => x.run v) s.vals) = true
            · rw [if_pos hch, if_pos hch]; simp only [evalRulesAt_simTime]; rw [hsim]
            · rw [if_neg hch, if_neg hch]
              refine ih _ _ ⟨by simp only [evalRulesAt_simTime]; omega, by simpa using hch, Or.inl hnr⟩ ?_
              have h3 := hcntlt s.vals due.length hd
              rw [hgrp s.vals (by omega)] at h3
              simp only [evalRulesAt_ruleIter] at h3 ⊢
              omega
          · rw [if_neg h2]
            have hle : s.ruleIter * cfg.rule ≤ cur := by omega
            have hv := evalRulesAt_vals_of_no_rules hnr (s.ruleIter * cfg.rule) s
            have hK : s.ruleIter ≤ cur / cfg.rule := Int.le_ediv_of_mul_le hR hle
            rw [hv, inv.unchanged]
            simp only [Bool.false_eq_true, if_false]
            rw [drop_group, drop_of_getElem? hd, ← landSpec_cons, ← drop_of_getElem? hd]
            refine ih cnt _ ⟨hsim, inv.unchanged, Or.inl hnr⟩ ?_
            simp only [evalRulesAt_ruleIter]; omega
    · rw [if_neg hc]
      have hlen : due.length ≤ cnt := by omega
      rw [List.drop_eq_nil_of_le hlen, landSpec_nil, hsim]

/-- **exact landing of `presolve`** when the rules are inert (no rules, or no rule timestep pending) and the tracked
values are well formed (`changed v v = false`, see `changed_self`): new time and values are those of `landSpec` -/
theorem presolve_earliest {cfg : Cfg} (hR : 0 < cfg.rule) (first : Bool) {s : St} (inv : Inv cfg s)
    (hinert : RulesInert cfg s) (hwf : changed s.vals s.vals = false) :
    ((presolve cfg first s).simTime, (presolve cfg first s).vals) =
      landSpec s.vals s.simTime (presolveDue cfg first s) s.vals := by
  rw [presolve_eq]
  have := presolveLoop_landSpec (cfg := cfg) hR (ref := s.vals) (due := presolveDue cfg first s) (cur := s.simTime)
    (fun d hd => (presolveDue_mem inv.lt hd).2.1) (presolveFuel cfg (presolveDue cfg first s) s) 0 s
    ⟨rfl, hwf, hinert⟩ (by have := presolve_measure cfg first s; simp only [loopMeasure] at this; omega)
  simpa using this

/-! ### what `landSpec` says: the earliest effective instant -/

theorem foldl_run_append (a b : List Due) (v : Vals) :
    (a ++ b).foldl (fun v x => x.run v) v = b.foldl (fun v x => x.run v) (a.foldl (fun v x => x.run v) v) :=
  List.foldl_append

theorem takeWhile_congr_mem {α : Type} {p q : α → Bool} {l : List α} (h : ∀ x ∈ l, p x = q x) :
    l.takeWhile p = l.takeWhile q := by
  induction l with
  | nil => rfl
  | cons x xs ih =>
    have hx := h x List.mem_cons_self
    have ih := ih (fun y hy => h y (List.mem_cons_of_mem _ hy))
    simp only [List.takeWhile_cons, hx, ih]

/-- in a list sorted by descending backtrack the controls with backtrack `≥ b` form the prefix `takeWhile` -/
theorem takeWhile_ge_split (l : List Due) (d0 : Due) (ds : List Due) (hl : l = d0 :: ds)
    (hs : l.Pairwise (fun a b => b.back ≤ a.back)) (b : Int) (hb : b < d0.back) :
    l.takeWhile (fun x => decide (b ≤ x.back)) =
      l.takeWhile (fun x => x.back == d0.back) ++ (l.dropWhile (fun x => x.back == d0.back)).takeWhile (fun x => decide (b ≤ x.back)) := by
  have hall : ∀ x ∈ l.takeWhile (fun x => x.back == d0.back), (fun x => decide (b ≤ x.back)) x = true := by
    intro x hx
    have := List.mem_takeWhile_imp (p := fun x : Due => x.back == d0.back) hx
    simp only [beq_iff_eq] at this
    simp only [decide_eq_true_eq]; omega
  conv_lhs => rw [← List.takeWhile_append_dropWhile (p := fun x : Due => x.back == d0.back) (l := l)]
  rw [List.takeWhile_append_of_pos hall]

/-- **earliest**: if `landSpec` lands after the instant of a due control `d`, then serving, in order, every control due
at an instant up to and including `d`'s leaves no tracked value different from the reference — the landing instant is
the first one at which the accumulated actions change something -/
theorem landSpec_earliest (ref : Vals) (cur : Int) :
    ∀ (n : Nat) (l : List Due) (v : Vals), l.length ≤ n → l.Pairwise (fun a b => b.back ≤ a.back) →
      ∀ d ∈ l, cur - d.back < (landSpec ref cur l v).1 →
        changed ref ((l.takeWhile (fun x => decide (d.back ≤ x.back))).foldl (fun v x => x.run v) v) = false := by
  intro n
  induction n with
  | zero =>
    intro l v hn _ d hd
    have : l = [] := List.length_eq_zero_iff.1 (by omega)
    subst this; simp at hd
  | succ n ih =>
    intro l v hn hs d hd hlt
    cases l with
    | nil => simp at hd
    | cons d0 ds =>
      have hmax : ∀ x ∈ d0 :: ds, x.back ≤ d0.back := by
        intro x hx
        rcases List.mem_cons.1 hx with rfl | hx
        · exact le_refl _
        · exact (List.pairwise_cons.1 hs).1 x hx
      rw [landSpec_cons] at hlt
      by_cases hch : changed ref (((d0 :: ds).takeWhile (fun x => x.back == d0.back)).foldl (fun v x => x.run v) v) = true
      · rw [if_pos hch] at hlt
        have := hmax d hd
        simp only at hlt; omega
      · rw [if_neg hch] at hlt
        have hch' : changed ref (((d0 :: ds).takeWhile (fun x => x.back == d0.back)).foldl (fun v x => x.run v) v) = false := by
          simpa using hch
        by_cases hdb : d.back = d0.back
        · -- d is in the first group: the prefix with backtrack ≥ d.back is that group
          have hEq : (d0 :: ds).takeWhile (fun x => decide (d.back ≤ x.back)) = (d0 :: ds).takeWhile (fun x => x.back == d0.back) := by
            apply takeWhile_congr_mem
            intro x hx
            have := hmax x hx
            simp only [beq_iff_eq, hdb]
            by_cases hx' : x.back = d0.back
            · simp [hx']
            · have : ¬ d0.back ≤ x.back := by omega
              simp [hx', this]
          rw [hEq]; exact hch'
        · have hdlt : d.back < d0.back := by have := hmax d hd; omega
          have hrest : d ∈ (d0 :: ds).dropWhile (fun x => x.back == d0.back) := by
            have hsplit := List.takeWhile_append_dropWhile (p := fun x : Due => x.back == d0.back) (l := d0 :: ds)
            rw [← hsplit] at hd
            rcases List.mem_append.1 hd with h | h
            · have := List.mem_takeWhile_imp (p := fun x : Due => x.back == d0.back) h
              simp only [beq_iff_eq] at this; omega
            · exact h
          have hlen : ((d0 :: ds).dropWhile (fun x => x.back == d0.back)).length ≤ n := by
            have : ((d0 :: ds).dropWhile (fun x => x.back == d0.back)) = ds.dropWhile (fun x => x.back == d0.back) := by
              rw [List.dropWhile_cons_of_pos (by simp)]
            rw [this]
            have := (List.dropWhile_sublist (fun x : Due => x.back == d0.back) (l := ds)).length_le
            simp only [List.length_cons] at hn; omega
          have hs' := hs.sublist (List.dropWhile_sublist (fun x : Due => x.back == d0.back))
          have := ih _ _ hlen hs' d hrest hlt
          rw [takeWhile_ge_split (d0 :: ds) d0 ds rfl hs d.back hdlt, foldl_run_append]
          exact this

/-- `changed v v = false` for values with pairwise distinct keys (what `Vals.set` maintains) -/
theorem changed_self (v : Vals) (h : (v.map (·.1)).Nodup) : changed v v = false := by
  have key : ∀ p ∈ v, Vals.get v p.1 = p.2 := by
    intro p hp
    induction v with
    | nil => simp at hp
    | cons q qs ih =>
      simp only [List.map_cons, List.nodup_cons] at h
      rcases List.mem_cons.1 hp with rfl | hp
      · simp [Vals.get, List.find?]
      · have hne : ¬ (q.1 == p.1) = true := by
          intro he
          have : q.1 = p.1 := by simpa using he
          exact h.1 (this ▸ List.mem_map.2 ⟨p, hp, rfl⟩)
        have := ih h.2 hp
        simp only [Vals.get, List.find?, hne] at this ⊢
        exact this
  unfold changed
  simp only [Bool.or_eq_false_iff, List.any_eq_false, bne_iff_ne, ne_eq, not_not]
  exact ⟨fun p hp => key p hp, fun p hp => key p hp⟩

/-! ### the passes of a run tile the time axis -/

/-- the states at the entry of every pass of the `while True` loop (ghost trace of `runLoop`) -/
def runTrace (cfg : Cfg) : Nat → Bool → St → List (Bool × St)
  | 0, _, _ => []
  | fuel + 1, first, s =>
    let s' := (stepOnce cfg first s).1
    (first, s) :: (if s'.simTime > cfg.duration then [] else runTrace cfg fuel false s')

/-- **every time up to the last accepted time lies in exactly the window `(prev, accepted]` of one pass**: for a run from
`s` (any fuel) and any `τ` with `s.prevTime < τ ≤` final `prevTime` there is a pass entered in state `e` with
`e.prevTime < τ ≤ (presolve e).simTime` -/
theorem runTrace_cover {cfg : Cfg} (hR : 0 < cfg.rule) (hH : 0 < cfg.hyd) (J : St → Prop) (F0 : St → Prop)
    (hJ : ∀ first s, Inv cfg s → J s → (first = true → F0 s) → J (stepOnce cfg first s).1) (τ : Int) :
    ∀ (n : Nat) (first : Bool) (s : St) (log : List Row), Inv cfg s → J s → (first = true → F0 s) → s.prevTime < τ →
      τ ≤ (runLoop cfg n first s log).1.prevTime →
      ∃ e ∈ runTrace cfg n first s, Inv cfg e.2 ∧ J e.2 ∧ e.2.prevTime < τ ∧ τ ≤ (presolve cfg e.1 e.2).simTime ∧
        (e.1 = true → e = (first, s)) := by
  intro n
  induction n with
  | zero => intro first s log _ _ _ h1 h2; simp only [runLoop_zero] at h2; omega
  | succ n ih =>
    intro first s log hi hj hf h1 h2
    rw [runLoop_succ] at h2
    have hs := stepOnce_stepped hR hH first hi
    have hprev : (stepOnce cfg first s).1.prevTime = (presolve cfg first s).simTime := by rw [stepOnce_fst]
    unfold runTrace
    by_cases hle : τ ≤ (presolve cfg first s).simTime
    · exact ⟨(first, s), List.mem_cons_self, hi, hj, h1, hle, fun _ => rfl⟩
    · by_cases hstop : (stepOnce cfg first s).1.simTime > cfg.duration
      · rw [if_pos hstop] at h2; simp only at h2; omega
      · rw [if_neg hstop] at h2
        obtain ⟨e, he, h3, h4, h5, h6, h7⟩ := ih false _ _ hs.inv (hJ first s hi hj hf) (fun h => by simp at h) (by omega) h2
        refine ⟨e, ?_, h3, h4, h5, h6, ?_⟩
        · simp only [hstop, if_false]
          exact List.mem_cons_of_mem _ he
        · intro ht
          have := h7 ht
          rw [this] at ht
          simp at ht

/-- with `report_timestep = 'ALL'` every pass of the trace contributes a row carrying its accepted time -/
theorem runTrace_rows {cfg : Cfg} (hrep : cfg.report = 0) :
    ∀ (n : Nat) (first : Bool) (s : St) (log : List Row), ∀ e ∈ runTrace cfg n first s,
      ∃ r ∈ (runLoop cfg n first s log).2, r.time = (presolve cfg e.1 e.2).simTime ∧ r.vals = (presolve cfg e.1 e.2).vals := by
  intro n
  induction n with
  | zero => intro first s log e he; simp [runTrace] at he
  | succ n ih =>
    intro first s log e he
    have hrow : (stepOnce cfg first s).2 = some ⟨(presolve cfg first s).simTime, (presolve cfg first s).vals⟩ := by
      rw [stepOnce_snd]; simp [reportNow, hrep]
    rw [runLoop_succ, hrow]
    unfold runTrace at he
    rcases List.mem_cons.1 he with rfl | he
    · refine ⟨⟨(presolve cfg first s).simTime, (presolve cfg first s).vals⟩, ?_, rfl, rfl⟩
      split
      · simp
      · have hl : log ++ (some (⟨(presolve cfg first s).simTime, (presolve cfg first s).vals⟩ : Row)).toList =
            (log ++ (some (⟨(presolve cfg first s).simTime, (presolve cfg first s).vals⟩ : Row)).toList) ++ [] := by simp
        rw [hl, runLoop_log]
        simp
    · by_cases hstop : (stepOnce cfg first s).1.simTime > cfg.duration
      · simp [hstop] at he
      · simp only [hstop, if_false] at he ⊢
        exact ih false _ _ e he

/-! ### tracked values keep pairwise distinct keys -/

def NodupKeys (v : Vals) : Prop := (v.map (·.1)).Nodup

theorem Vals.set_keys (v : Vals) (k : Nat) (x : Int) :
    (Vals.set v k x).map (·.1) = if k ∈ v.map (·.1) then v.map (·.1) else v.map (·.1) ++ [k] := by
  induction v with
  | nil => simp [Vals.set]
  | cons p rest ih =>
    obtain ⟨k', y⟩ := p
    unfold Vals.set
    by_cases h : (k' == k) = true
    · have hk : k' = k := by simpa using h
      subst hk; simp
    · have hne : k' ≠ k := by simpa using h
      simp only [h, Bool.false_eq_true, if_false, List.map_cons, ih, List.mem_cons]
      have : ¬ k = k' := fun e => hne e.symm
      by_cases hm : k ∈ rest.map (·.1)
      · simp [hm]
      · simp [hm, this]

theorem NodupKeys.set {v : Vals} (h : NodupKeys v) (k : Nat) (x : Int) : NodupKeys (Vals.set v k x) := by
  unfold NodupKeys at *
  rw [Vals.set_keys]
  by_cases hm : k ∈ v.map (·.1)
  · rw [if_pos hm]; exact h
  · rw [if_neg hm]
    rw [List.nodup_append]
    exact ⟨h, by simp, by intro a ha b hb; simp only [List.mem_singleton] at hb; subst hb; exact fun e => hm (e ▸ ha)⟩

theorem NodupKeys.runActions {v : Vals} (h : NodupKeys v) (as : List Action) : NodupKeys (runActions v as) := by
  induction as generalizing v with
  | nil => exact h
  | cons a as ih => exact ih (h.set a.key a.value)

theorem NodupKeys.run {v : Vals} (h : NodupKeys v) (d : Due) : NodupKeys (d.run v) := by
  rw [Due.run_eq]; exact h.runActions _

theorem NodupKeys.foldl_run {v : Vals} (h : NodupKeys v) (l : List Due) : NodupKeys (l.foldl (fun v d => d.run v) v) := by
  induction l generalizing v with
  | nil => exact h
  | cons d ds ih => exact ih (h.run d)

theorem NodupKeys.evalRulesAt {cfg : Cfg} {s : St} (h : NodupKeys s.vals) (r : Int) : NodupKeys (evalRulesAt cfg r s).vals := by
  unfold Sched.evalRulesAt runRules; exact h.foldl_run _

theorem NodupKeys.runGroup {v : Vals} (h : NodupKeys v) (due : List Due) (cnt : Nat) (b : Int) (fuel : Nat) :
    NodupKeys (Sched.runGroup due cnt b v fuel).1 := by
  fun_induction Sched.runGroup due cnt b v fuel with
  | case1 => exact h
  | case2 cnt v fuel d hd hb ih => exact ih (h.run d)
  | case3 => exact h
  | case4 => exact h

theorem NodupKeys.loopStep (cfg : Cfg) (ref : Vals) (due : List Due) (cnt : Nat) (s : St) (h : NodupKeys s.vals) :
    NodupKeys (loopStep cfg ref due cnt s).state.vals := by
  unfold Sched.loopStep
  split
  · split
    · simp only; split <;> exact h.evalRulesAt _
    · simp only
      split
      · split <;> exact h.runGroup _ _ _ _
      · split
        · split <;> exact (h.evalRulesAt _).runGroup _ _ _ _
        · split <;> exact h.evalRulesAt _
  · exact h

theorem NodupKeys.presolve {cfg : Cfg} (first : Bool) {s : St} (h : NodupKeys s.vals) : NodupKeys (presolve cfg first s).vals := by
  rw [presolve_eq]
  exact presolveLoop_keeps cfg s.vals _ (fun s' => NodupKeys s'.vals)
    (fun cnt s' h' => by
      have := NodupKeys.loopStep cfg s.vals (presolveDue cfg first s) cnt s' h'
      cases hl : Sched.loopStep cfg s.vals (presolveDue cfg first s) cnt s' <;> (rw [hl] at this; exact this)) _ 0 s h

theorem NodupKeys.stepOnce {cfg : Cfg} (first : Bool) {s : St} (h : NodupKeys s.vals) : NodupKeys (stepOnce cfg first s).1.vals := by
  rw [stepOnce_fst]; exact h.presolve first

end Wntr.Sched
