/-
A concrete lawful instance of the value operations: exact rationals (used for the non-vacuity examples of C15 and for
evaluating counterexamples inside the kernel). `pow` is the monomial for natural exponents; the transcendental
functions are irrelevant for `LawfulOps` and are the constant 0.
-/
import WntrModel.Model.Rpn
import WntrModel.Lemmas.AmlFold
import Mathlib.Algebra.Order.Field.Rat
import Mathlib.Tactic.Ring

namespace Wntr.Aml

def ratPow (x y : Rat) : Rat :=
  if y.den = 1 ∧ 0 ≤ y.num then ratNatPow x y.num.toNat else if x = 1 then 1 else 0

def ratOps : Ops Rat where
  ofRat := id
  add := (· + ·)
  sub := (· - ·)
  mul := (· * ·)
  div := (· / ·)
  pow := ratPow
  neg := fun x => -x
  abs := fun x => if 0 ≤ x then x else -x
  sign := fun x => if 0 ≤ x then 1 else -1
  exp := fun _ => 0
  log := fun _ => 0
  sin := fun _ => 0
  cos := fun _ => 0
  tan := fun _ => 0
  asin := fun _ => 0
  acos := fun _ => 0
  atan := fun _ => 0
  le := fun a b => decide (a ≤ b)
  isOne := fun x => decide (x = 1)

theorem ratNatPow_one (n : Nat) : ratNatPow 1 n = 1 := by
  induction n with
  | zero => rfl
  | succ k ih => simp [ratNatPow, ih]

theorem natCast_den_num (n : Nat) : ((n : Rat).den = 1 ∧ 0 ≤ (n : Rat).num) ∧ (n : Rat).num.toNat = n := by
  simp

theorem ratOps_lawful : LawfulOps ratOps where
  add_eq := fun _ _ => rfl
  sub_eq := fun _ _ => rfl
  mul_eq := fun _ _ => rfl
  div_eq := fun _ _ => rfl
  neg_eq := fun _ => rfl
  ofRat_zero := rfl
  ofRat_one := rfl
  ofRat_add := fun _ _ => rfl
  ofRat_sub := fun _ _ => rfl
  ofRat_mul := fun _ _ => rfl
  ofRat_neg := fun _ => rfl
  ofRat_div := fun _ _ _ => rfl
  pow_zero := by intro x; simp [ratOps, ratPow, ratNatPow]
  pow_one := by intro x; simp [ratOps, ratPow, ratNatPow]
  one_pow := by
    intro y
    simp only [ratOps, ratPow]
    split
    · exact ratNatPow_one _
    · simp
  pow_nat := by
    intro x n
    have h := natCast_den_num n
    simp only [ratOps, ratPow, id, h.1, and_self, if_true, h.2]
  abs_ofRat := fun _ => rfl
  sign_ofRat := fun _ => rfl
  le_ofRat := fun _ _ => rfl
  isOne_ofRat := fun _ => rfl


theorem ratNatPow_eq_pow (x : Rat) (n : Nat) : ratNatPow x n = x ^ n := by
  induction n with
  | zero => simp [ratNatPow]
  | succ k ih => simp [ratNatPow, ih, pow_succ]

/-- `pow` of `ratOps` at a natural constant is the monomial -/
theorem ratOps_pow (x : Rat) (n : Nat) : ratOps.pow x (ratOps.ofRat n) = x ^ n := by
  have h := natCast_den_num n
  simp only [ratOps, ratPow, id, h.1, and_self, if_true, h.2, ratNatPow_eq_pow]

end Wntr.Aml
