/- Finite sums `sumTo`/`lsum` of Model/Metrics.lean: linearity, re-indexing, sums of periodic sequences. -/
import WntrModel.Model.Metrics
import Mathlib.Tactic.Ring
import Mathlib.Tactic.Linarith
import Mathlib.Algebra.Order.Field.Rat

namespace Wntr.Metrics

theorem sumTo_congr {N : Nat} {f g : Nat → Rat} (h : ∀ k, k < N → f k = g k) : sumTo N f = sumTo N g := by
  induction N with
  | zero => rfl
  | succ n ih =>
    simp only [sumTo]
    rw [ih (fun k hk => h k (Nat.lt_succ_of_lt hk)), h n (Nat.lt_succ_self n)]

theorem sumTo_add (N : Nat) (f g : Nat → Rat) : sumTo N (fun k => f k + g k) = sumTo N f + sumTo N g := by
  induction N with
  | zero => simp [sumTo]
  | succ n ih => simp only [sumTo, ih]; ring

theorem sumTo_mul_const (N : Nat) (f : Nat → Rat) (c : Rat) : sumTo N (fun k => f k * c) = sumTo N f * c := by
  induction N with
  | zero => simp [sumTo]
  | succ n ih => simp only [sumTo, ih]; ring

theorem sumTo_const (N : Nat) (c : Rat) : sumTo N (fun _ => c) = (N : Rat) * c := by
  induction N with
  | zero => simp [sumTo]
  | succ n ih => simp only [sumTo, ih]; push_cast; ring

theorem sumTo_zero_fun (N : Nat) : sumTo N (fun _ => 0) = 0 := by
  rw [sumTo_const]; ring

theorem sumTo_succ_front (N : Nat) (f : Nat → Rat) : sumTo (N + 1) f = f 0 + sumTo N (fun k => f (k + 1)) := by
  induction N with
  | zero => simp [sumTo]
  | succ n ih =>
    rw [sumTo, ih]; simp only [sumTo]; ring

/-- shifting the window of a sum by one position does not change it when the sequence wraps around -/
theorem sumTo_shift_of_wrap (N : Nat) (f : Nat → Rat) (h : f N = f 0) :
    sumTo N (fun k => f (k + 1)) = sumTo N f := by
  have h1 := sumTo_succ_front N f
  have h2 : sumTo (N + 1) f = sumTo N f + f N := rfl
  rw [h2, h] at h1
  linarith

theorem sumTo_append (M N : Nat) (f : Nat → Rat) : sumTo (M + N) f = sumTo M f + sumTo N (fun k => f (M + k)) := by
  induction N with
  | zero => simp [sumTo]
  | succ n ih =>
    rw [← Nat.add_assoc, sumTo, ih]; simp only [sumTo]; ring

/-- a whole number `m` of periods of an `n`-periodic sequence sums to `m` times one period -/
theorem sumTo_mod (m n : Nat) (g : Nat → Rat) : sumTo (m * n) (fun k => g (k % n)) = (m : Rat) * sumTo n g := by
  induction m with
  | zero => simp [sumTo]
  | succ m ih =>
    rw [Nat.succ_mul, sumTo_append, ih]
    have : sumTo n (fun k => g ((m * n + k) % n)) = sumTo n g := by
      apply sumTo_congr
      intro k hk
      rw [Nat.mul_add_mod_self_right, Nat.mod_eq_of_lt hk]
    rw [this]; push_cast; ring

/-- … wherever the window starts -/
theorem sumTo_mod_shift (m n c : Nat) (g : Nat → Rat) :
    sumTo (m * n) (fun k => g ((c + k) % n)) = (m : Rat) * sumTo n g := by
  induction c with
  | zero => simpa using sumTo_mod m n g
  | succ c ih =>
    have hw : (fun k => g ((c + 1 + k) % n)) = (fun k => (fun j => g ((c + j) % n)) (k + 1)) := by
      funext k; congr 2; omega
    rw [hw, sumTo_shift_of_wrap (m * n) (fun j => g ((c + j) % n))]
    · exact ih
    · show g ((c + m * n) % n) = g ((c + 0) % n)
      rw [Nat.add_mul_mod_self_right]; simp

theorem foldl_add_acc (l : List Rat) (a : Rat) : l.foldl (· + ·) a = a + l.foldl (· + ·) 0 := by
  induction l generalizing a with
  | nil => simp
  | cons x t ih => rw [List.foldl_cons, List.foldl_cons, ih (a + x), ih (0 + x)]; ring

theorem lsum_cons (x : Rat) (t : List Rat) : lsum (x :: t) = x + lsum t := by
  unfold lsum; rw [List.foldl_cons, foldl_add_acc]; ring

theorem lsum_nil : lsum [] = 0 := rfl

/-- summing the entries of a list by index is its `lsum` -/
theorem sumTo_getD (l : List Rat) : sumTo l.length (fun i => l.getD i 0) = lsum l := by
  induction l with
  | nil => rfl
  | cons a t ih =>
    rw [List.length_cons, sumTo_succ_front, lsum_cons]
    simp only [List.getD_cons_zero, List.getD_cons_succ]
    rw [ih]

end Wntr.Metrics
