/- Specification lemmas for M4 `Time` (used by Props/C04, C08, C10, C16). -/
import WntrModel.Model.Time
import Mathlib.Tactic.Ring
import Mathlib.Tactic.Linarith

namespace Wntr.Time

/-! ### SimTimeCondition -/

/-- the instants at which a sim-time condition with threshold `thr` and period `rep` is "due" -/
def SimInstant (thr rep t : Int) : Prop :=
  if rep > 0 then ∃ k : Int, 0 ≤ k ∧ t = thr + k * rep else t = thr

theorem effThr_norep (thr rep cur : Int) (h : rep ≤ 0) : effThr thr rep cur = thr := by
  unfold effThr
  rw [if_neg]; omega

theorem effThr_le_thr (thr rep cur : Int) (hc : cur ≤ thr) : effThr thr rep cur = thr := by
  unfold effThr
  rw [if_neg]; omega

/-- with a period, the effective threshold is the latest occurrence at or before `cur` -/
theorem effThr_repeat (thr rep cur : Int) (h : rep > 0) (hc : cur > thr) :
    ∃ k : Int, 0 ≤ k ∧ effThr thr rep cur = thr + k * rep ∧ effThr thr rep cur ≤ cur ∧
      cur < effThr thr rep cur + rep := by
  unfold effThr
  rw [if_pos ⟨h, hc⟩]
  have h1 := Int.mul_ediv_add_emod (cur - thr) rep
  have h2 := Int.emod_nonneg (cur - thr) (by omega : rep ≠ 0)
  have h3 := Int.emod_lt_of_pos (cur - thr) h
  refine ⟨(cur - thr) / rep, ?_, by ring, by omega, by omega⟩
  exact Int.ediv_nonneg (by omega) (by omega)

/-- the effective threshold is always an occurrence -/
theorem effThr_instant (thr rep cur : Int) : SimInstant thr rep (effThr thr rep cur) := by
  unfold SimInstant
  by_cases hrep : rep > 0
  · rw [if_pos hrep]
    by_cases hc : cur > thr
    · obtain ⟨k, hk0, hk, _, _⟩ := effThr_repeat thr rep cur hrep hc
      exact ⟨k, hk0, hk⟩
    · exact ⟨0, le_refl _, by simp [effThr_le_thr thr rep cur (by omega)]⟩
  · rw [if_neg hrep]
    exact effThr_norep thr rep cur (by omega)

/-- no occurrence lies strictly between the effective threshold and `cur` (it is the latest one) -/
theorem effThr_latest (thr rep cur : Int) (hrep : rep > 0) (j : Int) (hj0 : 0 ≤ j)
    (hj : thr + j * rep ≤ cur) : thr + j * rep ≤ effThr thr rep cur := by
  by_cases hc : cur > thr
  · obtain ⟨k, hk0, hk, hle, hlt⟩ := effThr_repeat thr rep cur hrep hc
    rw [hk] at hlt ⊢
    have h2 : j < k + 1 := by
      by_contra hh
      have : k + 1 ≤ j := by omega
      nlinarith
    have : j ≤ k := by omega
    nlinarith
  · rw [effThr_le_thr thr rep cur (by omega)]
    have hj' : j = 0 := by
      by_contra hne
      have : 1 ≤ j := by omega
      nlinarith
    subst hj'; simp

/-- **`=` (one-shot) fires exactly when the instant lies in `(prev, cur]`, and backtracks onto it** -/
theorem simTime_eq_spec (thr prev cur : Int) :
    evalSimTime ⟨.eq, thr, 0⟩ prev cur =
      if prev < thr ∧ thr ≤ cur then (true, some (cur - thr)) else (false, some 0) := by
  simp [evalSimTime, simTimeCmp, effThr]

/-- **repeating `=`**: fires iff some occurrence `thr + k·rep` lies in `(prev, cur]` -/
theorem simTime_eq_repeat_fires (thr rep prev cur : Int) (hrep : rep > 0) :
    (evalSimTime ⟨.eq, thr, rep⟩ prev cur).1 = true ↔
      ∃ k : Int, 0 ≤ k ∧ prev < thr + k * rep ∧ thr + k * rep ≤ cur := by
  have hI := effThr_instant thr rep cur
  have hL := effThr_latest thr rep cur hrep
  have hle : effThr thr rep cur ≤ cur ∨ cur ≤ thr := by
    by_cases hc : cur > thr
    · obtain ⟨k, _, _, hle, _⟩ := effThr_repeat thr rep cur hrep hc
      exact Or.inl hle
    · exact Or.inr (by omega)
  have hthr : cur ≤ thr → effThr thr rep cur = thr := effThr_le_thr thr rep cur
  simp only [evalSimTime, simTimeCmp]
  generalize effThr thr rep cur = T at *
  unfold SimInstant at hI
  rw [if_pos hrep] at hI
  obtain ⟨k, hk0, hk⟩ := hI
  constructor
  · intro h
    by_cases hh : prev < T ∧ T ≤ cur
    · exact ⟨k, hk0, by omega, by omega⟩
    · rw [if_neg hh] at h; simp at h
  · rintro ⟨j, hj0, hj1, hj2⟩
    have h1 := hL j hj0 hj2
    have h2 : T ≤ cur := by
      rcases hle with h | h
      · exact h
      · have := hthr h
        have hj' : j = 0 := by
          by_contra hne
          have : 1 ≤ j := by omega
          nlinarith
        subst hj'; omega
    rw [if_pos ⟨by omega, h2⟩]

/-- the backtrack of a firing `=` condition is in `[0, cur − prev)` and lands on an occurrence -/
theorem simTime_eq_backtrack (thr rep prev cur b : Int)
    (h : evalSimTime ⟨.eq, thr, rep⟩ prev cur = (true, some b)) :
    0 ≤ b ∧ b < cur - prev ∧ SimInstant thr rep (cur - b) := by
  have hI := effThr_instant thr rep cur
  simp only [evalSimTime, simTimeCmp] at h
  generalize effThr thr rep cur = T at *
  by_cases hh : prev < T ∧ T ≤ cur
  · rw [if_pos hh] at h
    simp only [Prod.mk.injEq, Option.some.injEq, true_and] at h
    have hb : cur - b = T := by omega
    rw [hb]
    exact ⟨by omega, by omega, hI⟩
  · rw [if_neg hh] at h; simp at h

/-- range relations of a one-shot sim-time condition are true exactly on the stated interval -/
theorem simTime_range_spec (thr prev cur : Int) :
    (evalSimTime ⟨.gt, thr, 0⟩ prev cur).1 = decide (cur > thr) ∧
    (evalSimTime ⟨.ge, thr, 0⟩ prev cur).1 = decide (cur ≥ thr) ∧
    (evalSimTime ⟨.lt, thr, 0⟩ prev cur).1 = decide (cur < thr) ∧
    ((evalSimTime ⟨.le, thr, 0⟩ prev cur).1 = true ↔ (cur ≤ thr ∨ prev < thr)) := by
  simp only [evalSimTime, simTimeCmp, effThr_norep thr 0 cur (le_refl _)]
  refine ⟨?_, ?_, ?_, ?_⟩ <;> grind

/-- every backtrack a sim-time condition reports is within the step -/
theorem simTime_backtrack_bounds (c : SimTimeCond) (prev cur : Int) (hpc : prev < cur) :
    ∃ b : Int, (evalSimTime c prev cur).2 = some b ∧ 0 ≤ b ∧ b < cur - prev := by
  obtain ⟨rel, thr, rep⟩ := c
  simp only [evalSimTime]
  generalize effThr thr rep cur = T
  cases rel <;> simp only [simTimeCmp] <;> grind

/-! ### TimeOfDayCondition (shifted times; `0 ≤ thr < 86400`) -/

/-- the shifted-time instants at which a clock-time condition is due -/
def TodInstant (c : TodCond) (t : Int) : Prop :=
  if c.rep then ∃ d : Int, c.firstDay ≤ d ∧ t = c.thr + 86400 * d else t = c.thr + c.firstDay * 86400

/-- **clock `=` (daily)**: fires iff an occurrence on a day `≥ first_day` lies in `(prev, cur]` -/
theorem tod_eq_fires (thr firstDay prev cur : Int) (h0 : 0 ≤ thr) (h1 : thr < 86400) :
    (evalTod ⟨.eq, thr, true, firstDay⟩ prev cur).1 = true ↔
      ∃ d : Int, firstDay ≤ d ∧ prev < thr + 86400 * d ∧ thr + 86400 * d ≤ cur := by
  simp only [evalTod, TodCond.last]
  constructor
  · intro h
    refine ⟨(cur - thr) / 86400, ?_, ?_, ?_⟩ <;> grind
  · rintro ⟨d, hd, hp, hc⟩
    have hd' : d ≤ (cur - thr) / 86400 := by omega
    grind

/-- one-shot clock `=`: fires iff the single instant `thr + first_day·86400` lies in `(prev, cur]` -/
theorem tod_eq_once_fires (thr firstDay prev cur : Int) (h0 : 0 ≤ thr) (h1 : thr < 86400) :
    (evalTod ⟨.eq, thr, false, firstDay⟩ prev cur).1 = true ↔
      (prev < thr + firstDay * 86400 ∧ thr + firstDay * 86400 ≤ cur) := by
  simp only [evalTod, TodCond.last]
  constructor
  · intro h; grind
  · rintro ⟨hp, hc⟩
    have : ¬ (cur / 86400 < firstDay) := by omega
    grind

/-- a firing clock `=` backtracks onto the occurrence: `0 ≤ b < cur − prev`, `cur − b` is an instant -/
theorem tod_eq_backtrack (c : TodCond) (hrel : c.rel = .eq) (h0 : 0 ≤ c.thr) (h1 : c.thr < 86400)
    (prev cur b : Int) (h : evalTod c prev cur = (true, some b)) :
    0 ≤ b ∧ b < cur - prev ∧ TodInstant c (cur - b) := by
  obtain ⟨rel, thr, rep, firstDay⟩ := c
  simp only at hrel h0 h1; subst hrel
  cases rep
  · simp only [evalTod, TodCond.last, TodInstant] at *
    grind
  · simp only [evalTod, TodCond.last, TodInstant] at *
    have key : (b = cur - (thr + 86400 * ((cur - thr) / 86400)) ∧ firstDay * 86400 ≤ thr + 86400 * ((cur - thr) / 86400)
        ∧ prev < thr + 86400 * ((cur - thr) / 86400)) := by grind
    refine ⟨by omega, by omega, ?_⟩
    simp only [if_true]
    exact ⟨(cur - thr) / 86400, by omega, by omega⟩

/-- **`after` is true exactly from the time of day until midnight**, on days `≥ first_day` -/
theorem tod_after_spec (thr firstDay prev cur : Int) (h0 : 0 ≤ thr) (h1 : thr < 86400) :
    (evalTod ⟨.gt, thr, true, firstDay⟩ prev cur).1 = decide (firstDay ≤ cur / 86400 ∧ thr ≤ cur % 86400) := by
  simp only [evalTod, TodCond.last, if_true]
  by_cases hd : cur / 86400 < firstDay
  · rw [if_pos hd]
    simp only [Bool.false_eq, decide_eq_false_iff_not]
    omega
  · rw [if_neg hd]
    rw [Bool.eq_iff_iff]
    simp only [Bool.and_eq_true, decide_eq_true_eq]
    omega

/-- **`before`**: the reported value is the truth of "time of day < thr" at the time the step is cut to -/
theorem tod_before_spec (thr firstDay prev cur : Int) (h0 : 0 ≤ thr) (h1 : thr < 86400) (hpc : prev < cur)
    (hday : firstDay ≤ cur / 86400) :
    ∃ b : Int, (evalTod ⟨.lt, thr, true, firstDay⟩ prev cur).2 = some b ∧ 0 ≤ b ∧ b < cur - prev ∧
      (evalTod ⟨.lt, thr, true, firstDay⟩ prev cur).1 = decide ((cur - b) % 86400 < thr) := by
  simp only [evalTod, TodCond.last]
  grind

/-- every backtrack a clock-time condition reports is within the step (never `None`) -/
theorem tod_backtrack_bounds (c : TodCond) (prev cur : Int) (hpc : prev < cur) :
    ∃ b : Int, (evalTod c prev cur).2 = some b ∧ 0 ≤ b ∧ b < cur - prev := by
  obtain ⟨rel, thr, rep, firstDay⟩ := c
  cases rel <;> cases rep <;> simp only [evalTod, TodCond.last] <;> grind

/-! ### clock strings -/

/-- `_parse_value (_sec_to_clock s) = s` for every second of the day (12 AM / 12 PM hours included) -/
theorem clockParse_roundtrip (s : Int) (h0 : 0 ≤ s) (h1 : s < 86400) :
    (let (h, m, sec, pm) := secToClock s; parseClock h m sec (if pm then 2 else 1)) = s := by
  simp only [secToClock, parseClock]
  grind

/-- 24-hour strings without AM/PM parse to h·3600 + m·60 + s -/
theorem parseClock_24h (h m s : Int) : parseClock h m s 0 = s + m * 60 + h * 3600 := by
  simp [parseClock]

theorem secToHms_roundtrip (s : Int) (h0 : 0 ≤ s) :
    (let (h, m, sec) := secToHms s; h * 3600 + m * 60 + sec) = s ∧
    (let (_, m, sec) := secToHms s; 0 ≤ m ∧ m < 60 ∧ 0 ≤ sec ∧ sec < 60) := by
  simp only [secToHms]
  omega

end Wntr.Time
