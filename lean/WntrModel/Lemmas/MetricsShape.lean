/- Helper lemmas for the control-flow tie of C20 (Gen/PatternFormulas.lean vs the hand models). -/
import WntrModel.Model.Metrics
import Mathlib.Tactic.Linarith
import Mathlib.Algebra.Order.Field.Rat

namespace Wntr.Metrics

theorem lastTwo_spec : ∀ (pts : List (Rat × Rat)), 2 ≤ pts.length →
    lastTwo pts = some (pts.getD (pts.length - 2) (0, 0), pts.getD (pts.length - 1) (0, 0))
  | [], h => by simp at h
  | [_], h => by simp at h
  | [a, b], _ => by simp [lastTwo]
  | a :: b :: c :: t, _ => by
    have ih := lastTwo_spec (b :: c :: t) (by simp)
    simp only [lastTwo, ih, List.length_cons]
    have e1 : t.length + 1 + 1 + 1 - 2 = (t.length + 1 + 1 - 2) + 1 := by omega
    have e2 : t.length + 1 + 1 + 1 - 1 = (t.length + 1 + 1 - 1) + 1 := by omega
    rw [e1, e2, List.getD_cons_succ, List.getD_cons_succ]

theorem getD_map_fst (pts : List (Rat × Rat)) (i : Nat) (h : i < pts.length) :
    (pts.map Prod.fst).getD i 0 = (pts.getD i (0, 0)).1 := by
  simp [List.getD_eq_getElem?_getD, List.getElem?_map, List.getElem?_eq_getElem h]
theorem getD_map_snd (pts : List (Rat × Rat)) (i : Nat) (h : i < pts.length) :
    (pts.map Prod.snd).getD i 0 = (pts.getD i (0, 0)).2 := by
  simp [List.getD_eq_getElem?_getD, List.getElem?_map, List.getElem?_eq_getElem h]

theorem min_form (a : Rat) : (if a ≤ 0 then a else 0) = (if a < 0 then a else 0) := by
  split_ifs <;> linarith
theorem max_form (a : Rat) : (if a ≥ 0 then a else 0) = (if a > 0 then a else 0) := by
  split_ifs <;> linarith

end Wntr.Metrics
