/-
Observation lemmas for the primitives of the registry model M3: what every field / lookup of the state is after
`addUsage`, `removeUsageT`, `popUsageKey`, `typedAdd(All)`, `typedDiscard(All)`, `setNode`, `setLink`, `setCurveType` ...
(frame lemmas are `rfl`), the clauses of `Inv` in lookup form, and preservation of `Clause.nodup` by the primitives.
-/
import WntrModel.Lemmas.RegistryList

namespace Wntr.Registry

set_option linter.unusedSimpArgs false

/-- `remove_usage` with a possibly falsy key, as a total function -/
def removeUsageO (s : Reg) (r : RegId) (k : Option Name) (u : User) : Reg :=
  match k with
  | none => s
  | some k => removeUsageT s r k u

/-! ### frame lemmas (generated: the fields a primitive does not touch) -/
@[simp] theorem setUsage_nodes (s : Reg) (r : RegId) (m : List (Name × List User)) : (setUsage s r m).nodes = s.nodes := rfl
@[simp] theorem setUsage_links (s : Reg) (r : RegId) (m : List (Name × List User)) : (setUsage s r m).links = s.links := rfl
@[simp] theorem setUsage_patterns (s : Reg) (r : RegId) (m : List (Name × List User)) : (setUsage s r m).patterns = s.patterns := rfl
@[simp] theorem setUsage_curves (s : Reg) (r : RegId) (m : List (Name × List User)) : (setUsage s r m).curves = s.curves := rfl
@[simp] theorem setUsage_sources (s : Reg) (r : RegId) (m : List (Name × List User)) : (setUsage s r m).sources = s.sources := rfl
@[simp] theorem setUsage_controls (s : Reg) (r : RegId) (m : List (Name × List User)) : (setUsage s r m).controls = s.controls := rfl
@[simp] theorem setUsage_typed (s : Reg) (r : RegId) (m : List (Name × List User)) : (setUsage s r m).typed = s.typed := rfl
@[simp] theorem setUsage_nextUid (s : Reg) (r : RegId) (m : List (Name × List User)) : (setUsage s r m).nextUid = s.nextUid := rfl
@[simp] theorem setTyped_nodes (s : Reg) (t : TSet) (l : List Name) : (setTyped s t l).nodes = s.nodes := rfl
@[simp] theorem setTyped_links (s : Reg) (t : TSet) (l : List Name) : (setTyped s t l).links = s.links := rfl
@[simp] theorem setTyped_patterns (s : Reg) (t : TSet) (l : List Name) : (setTyped s t l).patterns = s.patterns := rfl
@[simp] theorem setTyped_curves (s : Reg) (t : TSet) (l : List Name) : (setTyped s t l).curves = s.curves := rfl
@[simp] theorem setTyped_sources (s : Reg) (t : TSet) (l : List Name) : (setTyped s t l).sources = s.sources := rfl
@[simp] theorem setTyped_controls (s : Reg) (t : TSet) (l : List Name) : (setTyped s t l).controls = s.controls := rfl
@[simp] theorem setTyped_usage (s : Reg) (t : TSet) (l : List Name) : (setTyped s t l).usage = s.usage := rfl
@[simp] theorem setTyped_nextUid (s : Reg) (t : TSet) (l : List Name) : (setTyped s t l).nextUid = s.nextUid := rfl
@[simp] theorem addUsage_nodes (s : Reg) (r : RegId) (k : Name) (u : User) : (addUsage s r k u).nodes = s.nodes := rfl
@[simp] theorem addUsage_links (s : Reg) (r : RegId) (k : Name) (u : User) : (addUsage s r k u).links = s.links := rfl
@[simp] theorem addUsage_patterns (s : Reg) (r : RegId) (k : Name) (u : User) : (addUsage s r k u).patterns = s.patterns := rfl
@[simp] theorem addUsage_curves (s : Reg) (r : RegId) (k : Name) (u : User) : (addUsage s r k u).curves = s.curves := rfl
@[simp] theorem addUsage_sources (s : Reg) (r : RegId) (k : Name) (u : User) : (addUsage s r k u).sources = s.sources := rfl
@[simp] theorem addUsage_controls (s : Reg) (r : RegId) (k : Name) (u : User) : (addUsage s r k u).controls = s.controls := rfl
@[simp] theorem addUsage_typed (s : Reg) (r : RegId) (k : Name) (u : User) : (addUsage s r k u).typed = s.typed := rfl
@[simp] theorem addUsage_nextUid (s : Reg) (r : RegId) (k : Name) (u : User) : (addUsage s r k u).nextUid = s.nextUid := rfl
@[simp] theorem addUsageO_nodes (s : Reg) (r : RegId) (k : Option Name) (u : User) : (addUsage? s r k u).nodes = s.nodes := by cases k <;> rfl
@[simp] theorem addUsageO_links (s : Reg) (r : RegId) (k : Option Name) (u : User) : (addUsage? s r k u).links = s.links := by cases k <;> rfl
@[simp] theorem addUsageO_patterns (s : Reg) (r : RegId) (k : Option Name) (u : User) : (addUsage? s r k u).patterns = s.patterns := by cases k <;> rfl
@[simp] theorem addUsageO_curves (s : Reg) (r : RegId) (k : Option Name) (u : User) : (addUsage? s r k u).curves = s.curves := by cases k <;> rfl
@[simp] theorem addUsageO_sources (s : Reg) (r : RegId) (k : Option Name) (u : User) : (addUsage? s r k u).sources = s.sources := by cases k <;> rfl
@[simp] theorem addUsageO_controls (s : Reg) (r : RegId) (k : Option Name) (u : User) : (addUsage? s r k u).controls = s.controls := by cases k <;> rfl
@[simp] theorem addUsageO_typed (s : Reg) (r : RegId) (k : Option Name) (u : User) : (addUsage? s r k u).typed = s.typed := by cases k <;> rfl
@[simp] theorem addUsageO_nextUid (s : Reg) (r : RegId) (k : Option Name) (u : User) : (addUsage? s r k u).nextUid = s.nextUid := by cases k <;> rfl
@[simp] theorem removeUsageT_nodes (s : Reg) (r : RegId) (k : Name) (u : User) : (removeUsageT s r k u).nodes = s.nodes := by unfold removeUsageT; split <;> rfl
@[simp] theorem removeUsageT_links (s : Reg) (r : RegId) (k : Name) (u : User) : (removeUsageT s r k u).links = s.links := by unfold removeUsageT; split <;> rfl
@[simp] theorem removeUsageT_patterns (s : Reg) (r : RegId) (k : Name) (u : User) : (removeUsageT s r k u).patterns = s.patterns := by unfold removeUsageT; split <;> rfl
@[simp] theorem removeUsageT_curves (s : Reg) (r : RegId) (k : Name) (u : User) : (removeUsageT s r k u).curves = s.curves := by unfold removeUsageT; split <;> rfl
@[simp] theorem removeUsageT_sources (s : Reg) (r : RegId) (k : Name) (u : User) : (removeUsageT s r k u).sources = s.sources := by unfold removeUsageT; split <;> rfl
@[simp] theorem removeUsageT_controls (s : Reg) (r : RegId) (k : Name) (u : User) : (removeUsageT s r k u).controls = s.controls := by unfold removeUsageT; split <;> rfl
@[simp] theorem removeUsageT_typed (s : Reg) (r : RegId) (k : Name) (u : User) : (removeUsageT s r k u).typed = s.typed := by unfold removeUsageT; split <;> rfl
@[simp] theorem removeUsageT_nextUid (s : Reg) (r : RegId) (k : Name) (u : User) : (removeUsageT s r k u).nextUid = s.nextUid := by unfold removeUsageT; split <;> rfl
@[simp] theorem popUsageKey_nodes (s : Reg) (r : RegId) (k : Name) : (popUsageKey s r k).nodes = s.nodes := rfl
@[simp] theorem popUsageKey_links (s : Reg) (r : RegId) (k : Name) : (popUsageKey s r k).links = s.links := rfl
@[simp] theorem popUsageKey_patterns (s : Reg) (r : RegId) (k : Name) : (popUsageKey s r k).patterns = s.patterns := rfl
@[simp] theorem popUsageKey_curves (s : Reg) (r : RegId) (k : Name) : (popUsageKey s r k).curves = s.curves := rfl
@[simp] theorem popUsageKey_sources (s : Reg) (r : RegId) (k : Name) : (popUsageKey s r k).sources = s.sources := rfl
@[simp] theorem popUsageKey_controls (s : Reg) (r : RegId) (k : Name) : (popUsageKey s r k).controls = s.controls := rfl
@[simp] theorem popUsageKey_typed (s : Reg) (r : RegId) (k : Name) : (popUsageKey s r k).typed = s.typed := rfl
@[simp] theorem popUsageKey_nextUid (s : Reg) (r : RegId) (k : Name) : (popUsageKey s r k).nextUid = s.nextUid := rfl
@[simp] theorem typedAdd_nodes (s : Reg) (t : TSet) (k : Name) : (typedAdd s t k).nodes = s.nodes := rfl
@[simp] theorem typedAdd_links (s : Reg) (t : TSet) (k : Name) : (typedAdd s t k).links = s.links := rfl
@[simp] theorem typedAdd_patterns (s : Reg) (t : TSet) (k : Name) : (typedAdd s t k).patterns = s.patterns := rfl
@[simp] theorem typedAdd_curves (s : Reg) (t : TSet) (k : Name) : (typedAdd s t k).curves = s.curves := rfl
@[simp] theorem typedAdd_sources (s : Reg) (t : TSet) (k : Name) : (typedAdd s t k).sources = s.sources := rfl
@[simp] theorem typedAdd_controls (s : Reg) (t : TSet) (k : Name) : (typedAdd s t k).controls = s.controls := rfl
@[simp] theorem typedAdd_usage (s : Reg) (t : TSet) (k : Name) : (typedAdd s t k).usage = s.usage := rfl
@[simp] theorem typedAdd_nextUid (s : Reg) (t : TSet) (k : Name) : (typedAdd s t k).nextUid = s.nextUid := rfl
@[simp] theorem typedDiscard_nodes (s : Reg) (t : TSet) (k : Name) : (typedDiscard s t k).nodes = s.nodes := rfl
@[simp] theorem typedDiscard_links (s : Reg) (t : TSet) (k : Name) : (typedDiscard s t k).links = s.links := rfl
@[simp] theorem typedDiscard_patterns (s : Reg) (t : TSet) (k : Name) : (typedDiscard s t k).patterns = s.patterns := rfl
@[simp] theorem typedDiscard_curves (s : Reg) (t : TSet) (k : Name) : (typedDiscard s t k).curves = s.curves := rfl
@[simp] theorem typedDiscard_sources (s : Reg) (t : TSet) (k : Name) : (typedDiscard s t k).sources = s.sources := rfl
@[simp] theorem typedDiscard_controls (s : Reg) (t : TSet) (k : Name) : (typedDiscard s t k).controls = s.controls := rfl
@[simp] theorem typedDiscard_usage (s : Reg) (t : TSet) (k : Name) : (typedDiscard s t k).usage = s.usage := rfl
@[simp] theorem typedDiscard_nextUid (s : Reg) (t : TSet) (k : Name) : (typedDiscard s t k).nextUid = s.nextUid := rfl
@[simp] theorem typedAddAll_nodes (s : Reg) (ts : List TSet) (k : Name) : (typedAddAll s ts k).nodes = s.nodes := by induction ts generalizing s with | nil => rfl | cons t ts ih => simp only [typedAddAll, ih]; rfl
@[simp] theorem typedAddAll_links (s : Reg) (ts : List TSet) (k : Name) : (typedAddAll s ts k).links = s.links := by induction ts generalizing s with | nil => rfl | cons t ts ih => simp only [typedAddAll, ih]; rfl
@[simp] theorem typedAddAll_patterns (s : Reg) (ts : List TSet) (k : Name) : (typedAddAll s ts k).patterns = s.patterns := by induction ts generalizing s with | nil => rfl | cons t ts ih => simp only [typedAddAll, ih]; rfl
@[simp] theorem typedAddAll_curves (s : Reg) (ts : List TSet) (k : Name) : (typedAddAll s ts k).curves = s.curves := by induction ts generalizing s with | nil => rfl | cons t ts ih => simp only [typedAddAll, ih]; rfl
@[simp] theorem typedAddAll_sources (s : Reg) (ts : List TSet) (k : Name) : (typedAddAll s ts k).sources = s.sources := by induction ts generalizing s with | nil => rfl | cons t ts ih => simp only [typedAddAll, ih]; rfl
@[simp] theorem typedAddAll_controls (s : Reg) (ts : List TSet) (k : Name) : (typedAddAll s ts k).controls = s.controls := by induction ts generalizing s with | nil => rfl | cons t ts ih => simp only [typedAddAll, ih]; rfl
@[simp] theorem typedAddAll_usage (s : Reg) (ts : List TSet) (k : Name) : (typedAddAll s ts k).usage = s.usage := by induction ts generalizing s with | nil => rfl | cons t ts ih => simp only [typedAddAll, ih]; rfl
@[simp] theorem typedAddAll_nextUid (s : Reg) (ts : List TSet) (k : Name) : (typedAddAll s ts k).nextUid = s.nextUid := by induction ts generalizing s with | nil => rfl | cons t ts ih => simp only [typedAddAll, ih]; rfl
@[simp] theorem typedDiscardAll_nodes (s : Reg) (ts : List TSet) (k : Name) : (typedDiscardAll s ts k).nodes = s.nodes := by induction ts generalizing s with | nil => rfl | cons t ts ih => simp only [typedDiscardAll, ih]; rfl
@[simp] theorem typedDiscardAll_links (s : Reg) (ts : List TSet) (k : Name) : (typedDiscardAll s ts k).links = s.links := by induction ts generalizing s with | nil => rfl | cons t ts ih => simp only [typedDiscardAll, ih]; rfl
@[simp] theorem typedDiscardAll_patterns (s : Reg) (ts : List TSet) (k : Name) : (typedDiscardAll s ts k).patterns = s.patterns := by induction ts generalizing s with | nil => rfl | cons t ts ih => simp only [typedDiscardAll, ih]; rfl
@[simp] theorem typedDiscardAll_curves (s : Reg) (ts : List TSet) (k : Name) : (typedDiscardAll s ts k).curves = s.curves := by induction ts generalizing s with | nil => rfl | cons t ts ih => simp only [typedDiscardAll, ih]; rfl
@[simp] theorem typedDiscardAll_sources (s : Reg) (ts : List TSet) (k : Name) : (typedDiscardAll s ts k).sources = s.sources := by induction ts generalizing s with | nil => rfl | cons t ts ih => simp only [typedDiscardAll, ih]; rfl
@[simp] theorem typedDiscardAll_controls (s : Reg) (ts : List TSet) (k : Name) : (typedDiscardAll s ts k).controls = s.controls := by induction ts generalizing s with | nil => rfl | cons t ts ih => simp only [typedDiscardAll, ih]; rfl
@[simp] theorem typedDiscardAll_usage (s : Reg) (ts : List TSet) (k : Name) : (typedDiscardAll s ts k).usage = s.usage := by induction ts generalizing s with | nil => rfl | cons t ts ih => simp only [typedDiscardAll, ih]; rfl
@[simp] theorem typedDiscardAll_nextUid (s : Reg) (ts : List TSet) (k : Name) : (typedDiscardAll s ts k).nextUid = s.nextUid := by induction ts generalizing s with | nil => rfl | cons t ts ih => simp only [typedDiscardAll, ih]; rfl
@[simp] theorem setNode_links (s : Reg) (k : Name) (i : NodeInfo) : (setNode s k i).links = s.links := rfl
@[simp] theorem setNode_patterns (s : Reg) (k : Name) (i : NodeInfo) : (setNode s k i).patterns = s.patterns := rfl
@[simp] theorem setNode_curves (s : Reg) (k : Name) (i : NodeInfo) : (setNode s k i).curves = s.curves := rfl
@[simp] theorem setNode_sources (s : Reg) (k : Name) (i : NodeInfo) : (setNode s k i).sources = s.sources := rfl
@[simp] theorem setNode_controls (s : Reg) (k : Name) (i : NodeInfo) : (setNode s k i).controls = s.controls := rfl
@[simp] theorem setNode_usage (s : Reg) (k : Name) (i : NodeInfo) : (setNode s k i).usage = s.usage := rfl
@[simp] theorem setNode_nextUid (s : Reg) (k : Name) (i : NodeInfo) : (setNode s k i).nextUid = s.nextUid := rfl
@[simp] theorem setLink_nodes (s : Reg) (k : Name) (i : LinkInfo) : (setLink s k i).nodes = s.nodes := by unfold setLink; rw [typedAddAll_nodes]
@[simp] theorem setLink_patterns (s : Reg) (k : Name) (i : LinkInfo) : (setLink s k i).patterns = s.patterns := by unfold setLink; rw [typedAddAll_patterns]
@[simp] theorem setLink_curves (s : Reg) (k : Name) (i : LinkInfo) : (setLink s k i).curves = s.curves := by unfold setLink; rw [typedAddAll_curves]
@[simp] theorem setLink_sources (s : Reg) (k : Name) (i : LinkInfo) : (setLink s k i).sources = s.sources := by unfold setLink; rw [typedAddAll_sources]
@[simp] theorem setLink_controls (s : Reg) (k : Name) (i : LinkInfo) : (setLink s k i).controls = s.controls := by unfold setLink; rw [typedAddAll_controls]
@[simp] theorem setLink_usage (s : Reg) (k : Name) (i : LinkInfo) : (setLink s k i).usage = s.usage := by unfold setLink; rw [typedAddAll_usage]
@[simp] theorem setLink_nextUid (s : Reg) (k : Name) (i : LinkInfo) : (setLink s k i).nextUid = s.nextUid := by unfold setLink; rw [typedAddAll_nextUid]
@[simp] theorem bumpUid_nodes (s : Reg) : (bumpUid s).nodes = s.nodes := rfl
@[simp] theorem bumpUid_links (s : Reg) : (bumpUid s).links = s.links := rfl
@[simp] theorem bumpUid_patterns (s : Reg) : (bumpUid s).patterns = s.patterns := rfl
@[simp] theorem bumpUid_curves (s : Reg) : (bumpUid s).curves = s.curves := rfl
@[simp] theorem bumpUid_sources (s : Reg) : (bumpUid s).sources = s.sources := rfl
@[simp] theorem bumpUid_controls (s : Reg) : (bumpUid s).controls = s.controls := rfl
@[simp] theorem bumpUid_usage (s : Reg) : (bumpUid s).usage = s.usage := rfl
@[simp] theorem bumpUid_typed (s : Reg) : (bumpUid s).typed = s.typed := rfl
@[simp] theorem dropControls_nodes (s : Reg) (uid : Nat) : (dropControls s uid).nodes = s.nodes := rfl
@[simp] theorem dropControls_links (s : Reg) (uid : Nat) : (dropControls s uid).links = s.links := rfl
@[simp] theorem dropControls_patterns (s : Reg) (uid : Nat) : (dropControls s uid).patterns = s.patterns := rfl
@[simp] theorem dropControls_curves (s : Reg) (uid : Nat) : (dropControls s uid).curves = s.curves := rfl
@[simp] theorem dropControls_sources (s : Reg) (uid : Nat) : (dropControls s uid).sources = s.sources := rfl
@[simp] theorem dropControls_usage (s : Reg) (uid : Nat) : (dropControls s uid).usage = s.usage := rfl
@[simp] theorem dropControls_typed (s : Reg) (uid : Nat) : (dropControls s uid).typed = s.typed := rfl
@[simp] theorem dropControls_nextUid (s : Reg) (uid : Nat) : (dropControls s uid).nextUid = s.nextUid := rfl
@[simp] theorem removeUsageO_nodes (s : Reg) (r : RegId) (k : Option Name) (u : User) : (removeUsageO s r k u).nodes = s.nodes := by cases k <;> simp [removeUsageO]
@[simp] theorem removeUsageO_links (s : Reg) (r : RegId) (k : Option Name) (u : User) : (removeUsageO s r k u).links = s.links := by cases k <;> simp [removeUsageO]
@[simp] theorem removeUsageO_patterns (s : Reg) (r : RegId) (k : Option Name) (u : User) : (removeUsageO s r k u).patterns = s.patterns := by cases k <;> simp [removeUsageO]
@[simp] theorem removeUsageO_curves (s : Reg) (r : RegId) (k : Option Name) (u : User) : (removeUsageO s r k u).curves = s.curves := by cases k <;> simp [removeUsageO]
@[simp] theorem removeUsageO_sources (s : Reg) (r : RegId) (k : Option Name) (u : User) : (removeUsageO s r k u).sources = s.sources := by cases k <;> simp [removeUsageO]
@[simp] theorem removeUsageO_controls (s : Reg) (r : RegId) (k : Option Name) (u : User) : (removeUsageO s r k u).controls = s.controls := by cases k <;> simp [removeUsageO]
@[simp] theorem removeUsageO_typed (s : Reg) (r : RegId) (k : Option Name) (u : User) : (removeUsageO s r k u).typed = s.typed := by cases k <;> simp [removeUsageO]
@[simp] theorem removeUsageO_nextUid (s : Reg) (r : RegId) (k : Option Name) (u : User) : (removeUsageO s r k u).nextUid = s.nextUid := by cases k <;> simp [removeUsageO]

/-! ### the flags of the repaired variant -/
@[simp] theorem repaired_delPatternReg : repaired.delPatternReg = true := rfl
@[simp] theorem repaired_linkInitResolveFirst : repaired.linkInitResolveFirst = true := rfl
@[simp] theorem repaired_curveDelTyped : repaired.curveDelTyped = true := rfl
@[simp] theorem repaired_sourceUsageByName : repaired.sourceUsageByName = true := rfl
@[simp] theorem repaired_tolerantRemove : repaired.tolerantRemove = true := rfl
@[simp] theorem repaired_setterKeepsSharedEnd : repaired.setterKeepsSharedEnd = true := rfl
@[simp] theorem repaired_rejectDuplicates : repaired.rejectDuplicates = true := rfl
@[simp] theorem repaired_curveTypeNeedsKey : repaired.curveTypeNeedsKey = true := rfl
@[simp] theorem repaired_controlsAfter : repaired.controlsAfter = true := rfl

/-! ### the fields a primitive does change -/

@[simp] theorem setUsage_usage (s : Reg) (r r' : RegId) (m : List (Name × List User)) :
    (setUsage s r m).usage r' = if r' = r then m else s.usage r' := rfl

@[simp] theorem setTyped_typed (s : Reg) (t t' : TSet) (l : List Name) :
    (setTyped s t l).typed t' = if t' = t then l else s.typed t' := rfl

theorem mem_addUsage (s : Reg) (r r' : RegId) (k k' : Name) (u x : User) :
    x ∈ ulook ((addUsage s r k u).usage r') k' ↔ x ∈ ulook (s.usage r') k' ∨ (r' = r ∧ k' = k ∧ x = u) := by
  unfold addUsage
  rw [setUsage_usage]
  by_cases hr : r' = r
  · subst hr
    simp only [if_true, ulook_set, users_eq]
    by_cases hk : k = k'
    · subst hk; simp
    · simp [hk, Ne.symm hk]
  · simp [hr]

theorem mem_addUsageO (s : Reg) (r r' : RegId) (k : Option Name) (k' : Name) (u x : User) :
    x ∈ ulook ((addUsage? s r k u).usage r') k' ↔ x ∈ ulook (s.usage r') k' ∨ (r' = r ∧ k = some k' ∧ x = u) := by
  cases k with
  | none => simp [addUsage?]
  | some k => simp only [addUsage?, mem_addUsage, Option.some.injEq]; constructor <;> rintro (h | ⟨a, b, c⟩) <;> simp_all

theorem ulook_removeUsageT (s : Reg) (r r' : RegId) (k k' : Name) (u : User) :
    ulook ((removeUsageT s r k u).usage r') k' =
      if r' = r ∧ k = k' then OSet.discard (ulook (s.usage r) k) u else ulook (s.usage r') k' := by
  unfold removeUsageT
  by_cases he : (OSet.discard (users s r k) u).isEmpty = true
  · rw [if_pos he, setUsage_usage]
    rw [OSet.discard_isEmpty, users_eq] at he
    by_cases hr : r' = r
    · subst hr
      by_cases hk : k = k'
      · subst hk; simp [he]
      · simp [hk]
    · simp [hr]
  · rw [if_neg he, setUsage_usage]
    by_cases hr : r' = r
    · subst hr
      by_cases hk : k = k' <;> simp [hk, users_eq]
    · simp [hr]

theorem mem_removeUsageT (s : Reg) (r r' : RegId) (k k' : Name) (u x : User) :
    x ∈ ulook ((removeUsageT s r k u).usage r') k' ↔ x ∈ ulook (s.usage r') k' ∧ ¬(r' = r ∧ k' = k ∧ x = u) := by
  rw [ulook_removeUsageT]
  by_cases hr : r' = r
  · subst hr
    by_cases hk : k = k'
    · subst hk; simp
    · simp [hk, Ne.symm hk]
  · simp [hr]

theorem mem_popUsageKey (s : Reg) (r r' : RegId) (k k' : Name) (x : User) :
    x ∈ ulook ((popUsageKey s r k).usage r') k' ↔ x ∈ ulook (s.usage r') k' ∧ ¬(r' = r ∧ k' = k) := by
  unfold popUsageKey
  rw [setUsage_usage]
  by_cases hr : r' = r
  · subst hr
    by_cases hk : k = k'
    · subst hk; simp
    · simp [hk, Ne.symm hk]
  · simp [hr]

theorem mem_typedAdd (s : Reg) (t t' : TSet) (k x : Name) :
    x ∈ (typedAdd s t k).typed t' ↔ x ∈ s.typed t' ∨ (t' = t ∧ x = k) := by
  unfold typedAdd
  rw [setTyped_typed]
  by_cases ht : t' = t
  · subst ht; simp
  · simp [ht]

theorem mem_typedDiscard (s : Reg) (t t' : TSet) (k x : Name) :
    x ∈ (typedDiscard s t k).typed t' ↔ x ∈ s.typed t' ∧ ¬(t' = t ∧ x = k) := by
  unfold typedDiscard
  rw [setTyped_typed]
  by_cases ht : t' = t
  · subst ht; simp
  · simp [ht]

theorem mem_typedAddAll (s : Reg) (ts : List TSet) (t' : TSet) (k x : Name) :
    x ∈ (typedAddAll s ts k).typed t' ↔ x ∈ s.typed t' ∨ (t' ∈ ts ∧ x = k) := by
  induction ts generalizing s with
  | nil => simp [typedAddAll]
  | cons t ts ih =>
    simp only [typedAddAll, ih, mem_typedAdd, List.mem_cons]
    constructor
    · rintro ((h | ⟨a, b⟩) | ⟨a, b⟩) <;> simp_all
    · rintro (h | ⟨a | a, b⟩) <;> simp_all

theorem mem_typedDiscardAll (s : Reg) (ts : List TSet) (t' : TSet) (k x : Name) :
    x ∈ (typedDiscardAll s ts k).typed t' ↔ x ∈ s.typed t' ∧ ¬(t' ∈ ts ∧ x = k) := by
  induction ts generalizing s with
  | nil => simp [typedDiscardAll]
  | cons t ts ih =>
    simp only [typedDiscardAll, ih, mem_typedDiscard, List.mem_cons]
    constructor
    · rintro ⟨⟨h, a⟩, b⟩; refine ⟨h, ?_⟩; rintro ⟨c | c, d⟩ <;> simp_all
    · rintro ⟨h, a⟩; refine ⟨⟨h, ?_⟩, ?_⟩ <;> simp_all

@[simp] theorem setNode_nodes' (s : Reg) (k : Name) (i : NodeInfo) : (setNode s k i).nodes = AL.set s.nodes k i := rfl

theorem mem_setNode_typed (s : Reg) (k x : Name) (i : NodeInfo) (t' : TSet) :
    x ∈ (setNode s k i).typed t' ↔ x ∈ s.typed t' ∨ (t' = nodeSet i.kind ∧ x = k) := by
  unfold setNode; rw [mem_typedAdd]

@[simp] theorem setLink_links' (s : Reg) (k : Name) (i : LinkInfo) : (setLink s k i).links = AL.set s.links k i := by
  unfold setLink; rw [typedAddAll_links]

theorem mem_setLink_typed (s : Reg) (k x : Name) (i : LinkInfo) (t' : TSet) :
    x ∈ (setLink s k i).typed t' ↔ x ∈ s.typed t' ∨ (t' ∈ linkSets i.kind ∧ x = k) := by
  unfold setLink; rw [mem_typedAddAll]

@[simp] theorem bumpUid_nextUid (s : Reg) : (bumpUid s).nextUid = s.nextUid + 1 := rfl

/-! ### the repaired variant: `remove_usage` never raises, the `tryStep` chains are straight-line code -/

theorem setUsage_self (s : Reg) (r : RegId) : setUsage s r (s.usage r) = s := by
  unfold setUsage
  have : (fun r' => if r' = r then s.usage r else s.usage r') = s.usage := by
    funext r'; split <;> simp_all
  rw [this]

@[simp] theorem removeUsage_repaired (s : Reg) (r : RegId) (k : Name) (u : User) :
    removeUsage repaired s r k u = some (removeUsageT s r k u) := by
  unfold removeUsage
  split
  · rename_i h
    have hu : users s r k = [] := by simp [users, h]
    simp only [repaired, if_true, Option.some.injEq]
    unfold removeUsageT
    simp [hu, AL.del_of_get?_none _ _ h, setUsage_self]
  · rfl

@[simp] theorem removeUsageO_repaired (s : Reg) (r : RegId) (k : Option Name) (u : User) :
    removeUsage? repaired s r k u = some (removeUsageO s r k u) := by
  cases k <;> simp [removeUsage?, removeUsageO]

theorem mem_removeUsageO (s : Reg) (r r' : RegId) (k : Option Name) (k' : Name) (u x : User) :
    x ∈ ulook ((removeUsageO s r k u).usage r') k' ↔ x ∈ ulook (s.usage r') k' ∧ ¬(r' = r ∧ k = some k' ∧ x = u) := by
  cases k with
  | none => simp [removeUsageO]
  | some k =>
    simp only [removeUsageO, mem_removeUsageT, Option.some.injEq]
    constructor <;> rintro ⟨h, a⟩ <;> refine ⟨h, ?_⟩ <;> rintro ⟨b, c, d⟩ <;> simp_all

@[simp] theorem tryStep_some (s s' : Reg) (f : Reg → Option Reg) (k : Reg → Reg) (h : f s = some s') :
    tryStep s f k = k s' := by
  unfold tryStep; rw [h]

theorem setCurveType_repaired (s : Reg) (k : Name) (t : CurveType) :
    setCurveType repaired s k t = if s.curves.contains k then typedAdd s (curveSet t) k else s := by
  unfold setCurveType
  by_cases h : s.curves.contains k <;> simp [repaired, h]

theorem inUse_false (s : Reg) (r : RegId) (k : Name) : inUse s r k = false ↔ ∀ u, u ∉ ulook (s.usage r) k := by
  unfold inUse
  rw [users_eq]
  cases ulook (s.usage r) k with
  | nil => simp
  | cons a t =>
    simp only [List.isEmpty_cons, Bool.not_false, Bool.true_eq_false, false_iff, not_forall, not_not]
    exact ⟨a, List.mem_cons_self⟩

theorem tryStep_removeUsage (s : Reg) (r : RegId) (k : Name) (u : User) (f : Reg → Reg) :
    tryStep s (fun x => removeUsage repaired x r k u) f = f (removeUsageT s r k u) := by
  simp [tryStep]

theorem tryStep_removeUsageO (s : Reg) (r : RegId) (k : Option Name) (u : User) (f : Reg → Reg) :
    tryStep s (fun x => removeUsage? repaired x r k u) f = f (removeUsageO s r k u) := by
  simp [tryStep]

theorem tryStep_fun_some (s : Reg) (g : Reg → Reg) (f : Reg → Reg) : tryStep s (fun x => some (g x)) f = f (g s) := rfl

/-- a guarded step: `if c: registry.remove_usage(key, ...)` is `remove_usage(key if c else None, ...)` -/
theorem tryStep_ite_removeUsageO (s : Reg) (c : Prop) [Decidable c] (r : RegId) (k : Option Name) (u : User) (f : Reg → Reg) :
    tryStep s (fun x => if c then removeUsage? repaired x r k u else some x) f =
      f (removeUsageO s r (if c then k else none) u) := by
  split <;> simp [tryStep, removeUsageO]

theorem ite_some_eq_some {α : Type} (c : Prop) [Decidable c] (r i : α) (o : Option α) :
    ((if c then some r else o) = some i) ↔ (c ∧ r = i) ∨ (¬c ∧ o = some i) := by
  split <;> simp_all

theorem ite_none_eq_some {α : Type} (c : Prop) [Decidable c] (i : α) (o : Option α) :
    ((if c then none else o) = some i) ↔ (¬c ∧ o = some i) := by
  split <;> simp_all

theorem ite_eq_some_none {α : Type} (c : Prop) [Decidable c] (i : α) (o : Option α) :
    ((if c then o else none) = some i) ↔ (c ∧ o = some i) := by
  split <;> simp_all

/-! ### releasing a user from every record of a registry -/

theorem foldl_removeUsageT_frame {β : Type} (f : Reg → β) {r : RegId} {u : User}
    (h : ∀ a k, f (removeUsageT a r k u) = f a) (l : List Name) (s : Reg) :
    f (l.foldl (fun acc k => removeUsageT acc r k u) s) = f s := by
  induction l generalizing s with
  | nil => rfl
  | cons k t ih => simp only [List.foldl_cons, ih, h]

@[simp] theorem removeUserAll_nodes (s : Reg) (r : RegId) (u : User) : (removeUserAll s r u).nodes = s.nodes := by
  unfold removeUserAll; exact foldl_removeUsageT_frame (fun x => x.nodes) (fun a k => removeUsageT_nodes a r k u) _ s
@[simp] theorem removeUserAll_links (s : Reg) (r : RegId) (u : User) : (removeUserAll s r u).links = s.links := by
  unfold removeUserAll; exact foldl_removeUsageT_frame (fun x => x.links) (fun a k => removeUsageT_links a r k u) _ s
@[simp] theorem removeUserAll_patterns (s : Reg) (r : RegId) (u : User) : (removeUserAll s r u).patterns = s.patterns := by
  unfold removeUserAll; exact foldl_removeUsageT_frame (fun x => x.patterns) (fun a k => removeUsageT_patterns a r k u) _ s
@[simp] theorem removeUserAll_curves (s : Reg) (r : RegId) (u : User) : (removeUserAll s r u).curves = s.curves := by
  unfold removeUserAll; exact foldl_removeUsageT_frame (fun x => x.curves) (fun a k => removeUsageT_curves a r k u) _ s
@[simp] theorem removeUserAll_sources (s : Reg) (r : RegId) (u : User) : (removeUserAll s r u).sources = s.sources := by
  unfold removeUserAll; exact foldl_removeUsageT_frame (fun x => x.sources) (fun a k => removeUsageT_sources a r k u) _ s
@[simp] theorem removeUserAll_controls (s : Reg) (r : RegId) (u : User) : (removeUserAll s r u).controls = s.controls := by
  unfold removeUserAll; exact foldl_removeUsageT_frame (fun x => x.controls) (fun a k => removeUsageT_controls a r k u) _ s
@[simp] theorem removeUserAll_typed (s : Reg) (r : RegId) (u : User) : (removeUserAll s r u).typed = s.typed := by
  unfold removeUserAll; exact foldl_removeUsageT_frame (fun x => x.typed) (fun a k => removeUsageT_typed a r k u) _ s
@[simp] theorem removeUserAll_nextUid (s : Reg) (r : RegId) (u : User) : (removeUserAll s r u).nextUid = s.nextUid := by
  unfold removeUserAll; exact foldl_removeUsageT_frame (fun x => x.nextUid) (fun a k => removeUsageT_nextUid a r k u) _ s

theorem mem_foldl_removeUsageT (l : List Name) (s : Reg) (r r' : RegId) (k' : Name) (u x : User) :
    x ∈ ulook ((l.foldl (fun acc k => removeUsageT acc r k u) s).usage r') k' ↔
      x ∈ ulook (s.usage r') k' ∧ ¬(r' = r ∧ k' ∈ l ∧ x = u) := by
  induction l generalizing s with
  | nil => simp
  | cons k t ih =>
    simp only [List.foldl_cons, ih, mem_removeUsageT, List.mem_cons]
    constructor
    · rintro ⟨⟨h1, h2⟩, h3⟩
      refine ⟨h1, ?_⟩
      rintro ⟨a, b | b, c⟩
      · exact h2 ⟨a, b, c⟩
      · exact h3 ⟨a, b, c⟩
    · rintro ⟨h1, h2⟩
      exact ⟨⟨h1, fun ⟨a, b, c⟩ => h2 ⟨a, Or.inl b, c⟩⟩, fun ⟨a, b, c⟩ => h2 ⟨a, Or.inr b, c⟩⟩

theorem mem_removeUserAll (s : Reg) (r r' : RegId) (k' : Name) (u x : User) :
    x ∈ ulook ((removeUserAll s r u).usage r') k' ↔ x ∈ ulook (s.usage r') k' ∧ ¬(r' = r ∧ x = u) := by
  unfold removeUserAll
  rw [mem_foldl_removeUsageT]
  constructor
  · rintro ⟨h1, h2⟩
    refine ⟨h1, ?_⟩
    rintro ⟨a, c⟩
    subst a
    apply h2
    refine ⟨rfl, ?_, c⟩
    by_contra hk
    rw [AL.not_mem_keys] at hk
    simp [ulook, hk] at h1
  · rintro ⟨h1, h2⟩
    exact ⟨h1, fun ⟨a, _, c⟩ => h2 ⟨a, c⟩⟩

/-- release a user from every record, or nothing -/
def removeUserAllO (s : Reg) (r : RegId) (u : Option User) : Reg :=
  match u with
  | none => s
  | some u => removeUserAll s r u

@[simp] theorem removeUserAllO_nodes (s : Reg) (r : RegId) (u : Option User) : (removeUserAllO s r u).nodes = s.nodes := by cases u <;> simp [removeUserAllO]
@[simp] theorem removeUserAllO_links (s : Reg) (r : RegId) (u : Option User) : (removeUserAllO s r u).links = s.links := by cases u <;> simp [removeUserAllO]
@[simp] theorem removeUserAllO_patterns (s : Reg) (r : RegId) (u : Option User) : (removeUserAllO s r u).patterns = s.patterns := by cases u <;> simp [removeUserAllO]
@[simp] theorem removeUserAllO_curves (s : Reg) (r : RegId) (u : Option User) : (removeUserAllO s r u).curves = s.curves := by cases u <;> simp [removeUserAllO]
@[simp] theorem removeUserAllO_sources (s : Reg) (r : RegId) (u : Option User) : (removeUserAllO s r u).sources = s.sources := by cases u <;> simp [removeUserAllO]
@[simp] theorem removeUserAllO_controls (s : Reg) (r : RegId) (u : Option User) : (removeUserAllO s r u).controls = s.controls := by cases u <;> simp [removeUserAllO]
@[simp] theorem removeUserAllO_typed (s : Reg) (r : RegId) (u : Option User) : (removeUserAllO s r u).typed = s.typed := by cases u <;> simp [removeUserAllO]
@[simp] theorem removeUserAllO_nextUid (s : Reg) (r : RegId) (u : Option User) : (removeUserAllO s r u).nextUid = s.nextUid := by cases u <;> simp [removeUserAllO]

theorem mem_removeUserAllO (s : Reg) (r r' : RegId) (k' : Name) (u : Option User) (x : User) :
    x ∈ ulook ((removeUserAllO s r u).usage r') k' ↔ x ∈ ulook (s.usage r') k' ∧ ¬(r' = r ∧ u = some x) := by
  cases u with
  | none => simp [removeUserAllO]
  | some u =>
    simp only [removeUserAllO, mem_removeUserAll, Option.some.injEq]
    constructor <;> rintro ⟨h, a⟩ <;> refine ⟨h, ?_⟩ <;> rintro ⟨b, c⟩ <;> exact a ⟨b, by simp_all⟩

@[simp] theorem repaired_demandUsageByName : repaired.demandUsageByName = true := rfl
@[simp] theorem repaired_delNodeSweeps : repaired.delNodeSweeps = true := rfl
@[simp] theorem repaired_fireKeepsShared : repaired.fireKeepsShared = true := rfl
@[simp] theorem repaired_leakChecksFirst : repaired.leakChecksFirst = true := rfl
@[simp] theorem repaired_sourceNodeMoves : repaired.sourceNodeMoves = true := rfl
@[simp] theorem repaired_assignRegisters : repaired.assignRegisters = true := rfl
@[simp] theorem repaired_renameMoves : repaired.renameMoves = true := rfl
@[simp] theorem removeUsageQT_eq (s : Reg) (r : RegId) (k : Option Name) (u : User) : removeUsage?T s r k u = removeUsageO s r k u := rfl
@[simp] theorem demandReg_repaired (obj : Bool) : demandReg repaired obj = .pattern := by cases obj <;> rfl

/-! ### releasing a user from a list of records -/
@[simp] theorem releaseAll_nodes (s : Reg) (r : RegId) (ks : List Name) (u : User) : (releaseAll s r ks u).nodes = s.nodes := by
  unfold releaseAll; exact foldl_removeUsageT_frame (fun x => x.nodes) (fun a k => removeUsageT_nodes a r k u) _ s
@[simp] theorem releaseAll_links (s : Reg) (r : RegId) (ks : List Name) (u : User) : (releaseAll s r ks u).links = s.links := by
  unfold releaseAll; exact foldl_removeUsageT_frame (fun x => x.links) (fun a k => removeUsageT_links a r k u) _ s
@[simp] theorem releaseAll_patterns (s : Reg) (r : RegId) (ks : List Name) (u : User) : (releaseAll s r ks u).patterns = s.patterns := by
  unfold releaseAll; exact foldl_removeUsageT_frame (fun x => x.patterns) (fun a k => removeUsageT_patterns a r k u) _ s
@[simp] theorem releaseAll_curves (s : Reg) (r : RegId) (ks : List Name) (u : User) : (releaseAll s r ks u).curves = s.curves := by
  unfold releaseAll; exact foldl_removeUsageT_frame (fun x => x.curves) (fun a k => removeUsageT_curves a r k u) _ s
@[simp] theorem releaseAll_sources (s : Reg) (r : RegId) (ks : List Name) (u : User) : (releaseAll s r ks u).sources = s.sources := by
  unfold releaseAll; exact foldl_removeUsageT_frame (fun x => x.sources) (fun a k => removeUsageT_sources a r k u) _ s
@[simp] theorem releaseAll_controls (s : Reg) (r : RegId) (ks : List Name) (u : User) : (releaseAll s r ks u).controls = s.controls := by
  unfold releaseAll; exact foldl_removeUsageT_frame (fun x => x.controls) (fun a k => removeUsageT_controls a r k u) _ s
@[simp] theorem releaseAll_typed (s : Reg) (r : RegId) (ks : List Name) (u : User) : (releaseAll s r ks u).typed = s.typed := by
  unfold releaseAll; exact foldl_removeUsageT_frame (fun x => x.typed) (fun a k => removeUsageT_typed a r k u) _ s
@[simp] theorem releaseAll_nextUid (s : Reg) (r : RegId) (ks : List Name) (u : User) : (releaseAll s r ks u).nextUid = s.nextUid := by
  unfold releaseAll; exact foldl_removeUsageT_frame (fun x => x.nextUid) (fun a k => removeUsageT_nextUid a r k u) _ s

theorem mem_releaseAll (s : Reg) (r r' : RegId) (ks : List Name) (k' : Name) (u x : User) :
    x ∈ ulook ((releaseAll s r ks u).usage r') k' ↔ x ∈ ulook (s.usage r') k' ∧ ¬(r' = r ∧ k' ∈ ks ∧ x = u) := by
  unfold releaseAll; exact mem_foldl_removeUsageT ks s r r' k' u x

theorem mem_demandNames (l : List (Option Name × Bool)) (p : Name) : p ∈ demandNames l ↔ ∃ d ∈ l, d.1 = some p := by
  unfold demandNames; simp [List.mem_filterMap]

@[simp] theorem repaired_demandsSync : repaired.demandsSync = true := rfl

/-- a pattern is dropped only when no remaining entry names it -/
theorem droppedPat_spec (l : List (Option Name × Bool)) (idx : Nat) (p : Name) (h : droppedPat l idx = some p) :
    ∀ d ∈ l.eraseIdx idx, d.1 ≠ some p := by
  unfold droppedPat at h
  split at h
  · rename_i q _
    split at h
    · cases h
    · rename_i hn
      cases h
      intro d hd hq
      apply hn
      rw [List.any_eq_true]
      exact ⟨d, hd, by simpa using hq⟩
  · cases h

/-! ### `set_curve_type` of the repaired code -/
@[simp] theorem setCurveTypeR_nodes (s : Reg) (k : Name) (t : CurveType) : (setCurveType repaired s k t).nodes = s.nodes := by rw [setCurveType_repaired]; split <;> rfl
@[simp] theorem setCurveTypeR_links (s : Reg) (k : Name) (t : CurveType) : (setCurveType repaired s k t).links = s.links := by rw [setCurveType_repaired]; split <;> rfl
@[simp] theorem setCurveTypeR_patterns (s : Reg) (k : Name) (t : CurveType) : (setCurveType repaired s k t).patterns = s.patterns := by rw [setCurveType_repaired]; split <;> rfl
@[simp] theorem setCurveTypeR_curves (s : Reg) (k : Name) (t : CurveType) : (setCurveType repaired s k t).curves = s.curves := by rw [setCurveType_repaired]; split <;> rfl
@[simp] theorem setCurveTypeR_sources (s : Reg) (k : Name) (t : CurveType) : (setCurveType repaired s k t).sources = s.sources := by rw [setCurveType_repaired]; split <;> rfl
@[simp] theorem setCurveTypeR_controls (s : Reg) (k : Name) (t : CurveType) : (setCurveType repaired s k t).controls = s.controls := by rw [setCurveType_repaired]; split <;> rfl
@[simp] theorem setCurveTypeR_usage (s : Reg) (k : Name) (t : CurveType) : (setCurveType repaired s k t).usage = s.usage := by rw [setCurveType_repaired]; split <;> rfl
@[simp] theorem setCurveTypeR_nextUid (s : Reg) (k : Name) (t : CurveType) : (setCurveType repaired s k t).nextUid = s.nextUid := by rw [setCurveType_repaired]; split <;> rfl
@[simp] theorem setCurveTypeOR_nodes (s : Reg) (k : Option Name) (t : CurveType) : (setCurveType? repaired s k t).nodes = s.nodes := by cases k <;> simp [setCurveType?]
@[simp] theorem setCurveTypeOR_links (s : Reg) (k : Option Name) (t : CurveType) : (setCurveType? repaired s k t).links = s.links := by cases k <;> simp [setCurveType?]
@[simp] theorem setCurveTypeOR_patterns (s : Reg) (k : Option Name) (t : CurveType) : (setCurveType? repaired s k t).patterns = s.patterns := by cases k <;> simp [setCurveType?]
@[simp] theorem setCurveTypeOR_curves (s : Reg) (k : Option Name) (t : CurveType) : (setCurveType? repaired s k t).curves = s.curves := by cases k <;> simp [setCurveType?]
@[simp] theorem setCurveTypeOR_sources (s : Reg) (k : Option Name) (t : CurveType) : (setCurveType? repaired s k t).sources = s.sources := by cases k <;> simp [setCurveType?]
@[simp] theorem setCurveTypeOR_controls (s : Reg) (k : Option Name) (t : CurveType) : (setCurveType? repaired s k t).controls = s.controls := by cases k <;> simp [setCurveType?]
@[simp] theorem setCurveTypeOR_usage (s : Reg) (k : Option Name) (t : CurveType) : (setCurveType? repaired s k t).usage = s.usage := by cases k <;> simp [setCurveType?]
@[simp] theorem setCurveTypeOR_nextUid (s : Reg) (k : Option Name) (t : CurveType) : (setCurveType? repaired s k t).nextUid = s.nextUid := by cases k <;> simp [setCurveType?]

theorem mem_setCurveTypeR (s : Reg) (k x : Name) (t : CurveType) (t' : TSet) :
    x ∈ (setCurveType repaired s k t).typed t' ↔ x ∈ s.typed t' ∨ (k ∈ s.curves ∧ t' = curveSet t ∧ x = k) := by
  rw [setCurveType_repaired]
  by_cases h : k ∈ s.curves
  · simp [h, mem_typedAdd]
  · simp [h]

theorem mem_setCurveTypeOR (s : Reg) (k : Option Name) (x : Name) (t : CurveType) (t' : TSet) :
    x ∈ (setCurveType? repaired s k t).typed t' ↔ x ∈ s.typed t' ∨ (k = some x ∧ x ∈ s.curves ∧ t' = curveSet t) := by
  cases k with
  | none => simp [setCurveType?]
  | some c =>
    simp only [setCurveType?, mem_setCurveTypeR, Option.some.injEq]
    constructor <;> rintro (h | ⟨a, b, c⟩) <;> simp_all

/-! ### facts about the classification tables -/

theorem nodeSet_mem_nodeSets (k : NodeKind) : nodeSet k ∈ nodeSets := by cases k <;> decide
theorem linkSets_sub (k : LinkKind) (t : TSet) (h : t ∈ linkSets k) : t ∈ allLinkSets := by
  revert t; cases k <;> decide
theorem curveSet_mem_curveSets (c : CurveType) : curveSet c ∈ curveSets := by cases c <;> decide
theorem nodeSets_not_link (t : TSet) (h : t ∈ nodeSets) : t ∉ allLinkSets := by revert h; cases t <;> decide
theorem nodeSets_not_curve (t : TSet) (h : t ∈ nodeSets) : t ∉ curveSets := by revert h; cases t <;> decide
theorem linkSets_not_curve (t : TSet) (h : t ∈ allLinkSets) : t ∉ curveSets := by revert h; cases t <;> decide
theorem mem_allTSets (t : TSet) : t ∈ allTSets := by cases t <;> decide
theorem nodeSet_inj (a b : NodeKind) (h : nodeSet a = nodeSet b) : a = b := by revert h; cases a <;> cases b <;> decide
theorem linkSets_disj (a b : LinkKind) (t : TSet) (ha : t ∈ linkSets a) (hb : ∀ t ∈ linkSets a, t ∈ linkSets b) : a = b := by
  revert t hb; cases a <;> cases b <;> decide
theorem isLinkType_ltype (k : LinkKind) : isLinkType (ltype k) = true := by cases k <;> rfl
theorem ltype_ne_source (k : LinkKind) : ltype k ≠ .source := by cases k <;> decide
theorem ltype_pump (k : LinkKind) : ltype k = .pump ↔ isPump k = true := by cases k <;> decide
theorem ltype_valve (k : LinkKind) : ltype k = .valve ↔ isValveKind k = true := by cases k <;> decide
theorem isPump_iff (k : LinkKind) : isPump k = true ↔ k = .headPump ∨ k = .powerPump := by cases k <;> decide
theorem nodePatUser_some (k : NodeKind) (u : UKind) : nodePatUser k = some u ↔ (k = .junction ∧ u = .junction) ∨ (k = .reservoir ∧ u = .reservoir) := by
  cases k <;> cases u <;> decide
theorem isLinkType_iff (u : UKind) : isLinkType u = true ↔ u = .pipe ∨ u = .pump ∨ u = .valve := by cases u <;> decide

/-! ### the three families of typed sets -/

inductive Fam | node | link | curve
  deriving DecidableEq, Repr

/-- which registry a typed set belongs to -/
def fam : TSet → Fam
  | .junctions | .tanks | .reservoirs => .node
  | .pipes | .pumps | .headPumps | .powerPumps | .prvs | .psvs | .pbvs | .tcvs | .fcvs | .gpvs | .valves => .link
  | .pumpCurves | .effCurves | .headlossCurves | .volCurves => .curve

theorem mem_nodeSets (t : TSet) : t ∈ nodeSets ↔ fam t = .node := by cases t <;> decide
theorem mem_allLinkSets (t : TSet) : t ∈ allLinkSets ↔ fam t = .link := by cases t <;> decide
theorem mem_curveSets (t : TSet) : t ∈ curveSets ↔ fam t = .curve := by cases t <;> decide
theorem fam_nodeSet (k : NodeKind) : fam (nodeSet k) = .node := by cases k <;> rfl
theorem fam_curveSet (c : CurveType) : fam (curveSet c) = .curve := by cases c <;> rfl
theorem fam_of_mem_linkSets (k : LinkKind) (t : TSet) (h : t ∈ linkSets k) : fam t = .link := by
  revert t; cases k <;> decide

/-! ### the classification tables, one equation per constructor (so that no `match` is ever unfolded) -/
theorem ltype_pipe : ltype LinkKind.pipe = .pipe := rfl
theorem isPump_pipe : isPump LinkKind.pipe = false := rfl
theorem isValveKind_pipe : isValveKind LinkKind.pipe = false := rfl
theorem ltype_headPump : ltype LinkKind.headPump = .pump := rfl
theorem isPump_headPump : isPump LinkKind.headPump = true := rfl
theorem isValveKind_headPump : isValveKind LinkKind.headPump = false := rfl
theorem ltype_powerPump : ltype LinkKind.powerPump = .pump := rfl
theorem isPump_powerPump : isPump LinkKind.powerPump = true := rfl
theorem isValveKind_powerPump : isValveKind LinkKind.powerPump = false := rfl
theorem ltype_prv : ltype LinkKind.prv = .valve := rfl
theorem isPump_prv : isPump LinkKind.prv = false := rfl
theorem isValveKind_prv : isValveKind LinkKind.prv = true := rfl
theorem ltype_psv : ltype LinkKind.psv = .valve := rfl
theorem isPump_psv : isPump LinkKind.psv = false := rfl
theorem isValveKind_psv : isValveKind LinkKind.psv = true := rfl
theorem ltype_pbv : ltype LinkKind.pbv = .valve := rfl
theorem isPump_pbv : isPump LinkKind.pbv = false := rfl
theorem isValveKind_pbv : isValveKind LinkKind.pbv = true := rfl
theorem ltype_tcv : ltype LinkKind.tcv = .valve := rfl
theorem isPump_tcv : isPump LinkKind.tcv = false := rfl
theorem isValveKind_tcv : isValveKind LinkKind.tcv = true := rfl
theorem ltype_fcv : ltype LinkKind.fcv = .valve := rfl
theorem isPump_fcv : isPump LinkKind.fcv = false := rfl
theorem isValveKind_fcv : isValveKind LinkKind.fcv = true := rfl
theorem ltype_gpv : ltype LinkKind.gpv = .valve := rfl
theorem isPump_gpv : isPump LinkKind.gpv = false := rfl
theorem isValveKind_gpv : isValveKind LinkKind.gpv = true := rfl
theorem linkSets_pipe : linkSets LinkKind.pipe = [.pipes] := rfl
theorem linkSets_headPump : linkSets LinkKind.headPump = [.pumps, .headPumps] := rfl
theorem linkSets_powerPump : linkSets LinkKind.powerPump = [.pumps, .powerPumps] := rfl
theorem linkSets_prv : linkSets LinkKind.prv = [.valves, .prvs] := rfl
theorem linkSets_psv : linkSets LinkKind.psv = [.valves, .psvs] := rfl
theorem linkSets_pbv : linkSets LinkKind.pbv = [.valves, .pbvs] := rfl
theorem linkSets_tcv : linkSets LinkKind.tcv = [.valves, .tcvs] := rfl
theorem linkSets_fcv : linkSets LinkKind.fcv = [.valves, .fcvs] := rfl
theorem linkSets_gpv : linkSets LinkKind.gpv = [.valves, .gpvs] := rfl
theorem isLinkType_pipe : isLinkType UKind.pipe = true := rfl
theorem isLinkType_pump : isLinkType UKind.pump = true := rfl
theorem isLinkType_valve : isLinkType UKind.valve = true := rfl
theorem isLinkType_source : isLinkType UKind.source = false := rfl
theorem isLinkType_junction : isLinkType UKind.junction = false := rfl
theorem isLinkType_reservoir : isLinkType UKind.reservoir = false := rfl
theorem isLinkType_tank : isLinkType UKind.tank = false := rfl
theorem nodePatUser_junction : nodePatUser NodeKind.junction = some .junction := rfl
theorem nodePatUser_reservoir : nodePatUser NodeKind.reservoir = some .reservoir := rfl
theorem nodePatUser_tank : nodePatUser NodeKind.tank = none := rfl
theorem nodeSet_junction : nodeSet NodeKind.junction = .junctions := rfl
theorem nodeSet_tank : nodeSet NodeKind.tank = .tanks := rfl
theorem nodeSet_reservoir : nodeSet NodeKind.reservoir = .reservoirs := rfl
theorem curveSet_head : curveSet CurveType.head = .pumpCurves := rfl
theorem curveSet_headloss : curveSet CurveType.headloss = .headlossCurves := rfl
theorem curveSet_volume : curveSet CurveType.volume = .volCurves := rfl
theorem curveSet_efficiency : curveSet CurveType.efficiency = .effCurves := rfl
theorem fam_junctions : fam TSet.junctions = .node := rfl
theorem fam_tanks : fam TSet.tanks = .node := rfl
theorem fam_reservoirs : fam TSet.reservoirs = .node := rfl
theorem fam_pipes : fam TSet.pipes = .link := rfl
theorem fam_pumps : fam TSet.pumps = .link := rfl
theorem fam_headPumps : fam TSet.headPumps = .link := rfl
theorem fam_powerPumps : fam TSet.powerPumps = .link := rfl
theorem fam_prvs : fam TSet.prvs = .link := rfl
theorem fam_psvs : fam TSet.psvs = .link := rfl
theorem fam_pbvs : fam TSet.pbvs = .link := rfl
theorem fam_tcvs : fam TSet.tcvs = .link := rfl
theorem fam_fcvs : fam TSet.fcvs = .link := rfl
theorem fam_gpvs : fam TSet.gpvs = .link := rfl
theorem fam_valves : fam TSet.valves = .link := rfl
theorem fam_pumpCurves : fam TSet.pumpCurves = .curve := rfl
theorem fam_effCurves : fam TSet.effCurves = .curve := rfl
theorem fam_headlossCurves : fam TSet.headlossCurves = .curve := rfl
theorem fam_volCurves : fam TSet.volCurves = .curve := rfl

/-- the ground facts of the typed-set tables, as one conjunction (handed to `grind` as a hypothesis) -/
theorem set_tables :
    (nodeSet NodeKind.junction = .junctions) ∧
    (nodeSet NodeKind.tank = .tanks) ∧
    (nodeSet NodeKind.reservoir = .reservoirs) ∧
    (curveSet CurveType.head = .pumpCurves) ∧
    (curveSet CurveType.headloss = .headlossCurves) ∧
    (curveSet CurveType.volume = .volCurves) ∧
    (curveSet CurveType.efficiency = .effCurves) ∧
    (fam TSet.junctions = .node) ∧
    (fam TSet.tanks = .node) ∧
    (fam TSet.reservoirs = .node) ∧
    (fam TSet.pipes = .link) ∧
    (fam TSet.pumps = .link) ∧
    (fam TSet.headPumps = .link) ∧
    (fam TSet.powerPumps = .link) ∧
    (fam TSet.prvs = .link) ∧
    (fam TSet.psvs = .link) ∧
    (fam TSet.pbvs = .link) ∧
    (fam TSet.tcvs = .link) ∧
    (fam TSet.fcvs = .link) ∧
    (fam TSet.gpvs = .link) ∧
    (fam TSet.valves = .link) ∧
    (fam TSet.pumpCurves = .curve) ∧
    (fam TSet.effCurves = .curve) ∧
    (fam TSet.headlossCurves = .curve) ∧
    (fam TSet.volCurves = .curve) := by
  decide

/-- the ground facts of the kind tables -/
theorem kind_tables :
    (ltype LinkKind.pipe = .pipe) ∧
    (isPump LinkKind.pipe = false) ∧
    (isValveKind LinkKind.pipe = false) ∧
    (ltype LinkKind.headPump = .pump) ∧
    (isPump LinkKind.headPump = true) ∧
    (isValveKind LinkKind.headPump = false) ∧
    (ltype LinkKind.powerPump = .pump) ∧
    (isPump LinkKind.powerPump = true) ∧
    (isValveKind LinkKind.powerPump = false) ∧
    (ltype LinkKind.prv = .valve) ∧
    (isPump LinkKind.prv = false) ∧
    (isValveKind LinkKind.prv = true) ∧
    (ltype LinkKind.psv = .valve) ∧
    (isPump LinkKind.psv = false) ∧
    (isValveKind LinkKind.psv = true) ∧
    (ltype LinkKind.pbv = .valve) ∧
    (isPump LinkKind.pbv = false) ∧
    (isValveKind LinkKind.pbv = true) ∧
    (ltype LinkKind.tcv = .valve) ∧
    (isPump LinkKind.tcv = false) ∧
    (isValveKind LinkKind.tcv = true) ∧
    (ltype LinkKind.fcv = .valve) ∧
    (isPump LinkKind.fcv = false) ∧
    (isValveKind LinkKind.fcv = true) ∧
    (ltype LinkKind.gpv = .valve) ∧
    (isPump LinkKind.gpv = false) ∧
    (isValveKind LinkKind.gpv = true) ∧
    (isLinkType UKind.pipe = true) ∧
    (isLinkType UKind.pump = true) ∧
    (isLinkType UKind.valve = true) ∧
    (isLinkType UKind.source = false) ∧
    (isLinkType UKind.junction = false) ∧
    (isLinkType UKind.reservoir = false) ∧
    (isLinkType UKind.tank = false) ∧
    (nodePatUser NodeKind.junction = some .junction) ∧
    (nodePatUser NodeKind.reservoir = some .reservoir) ∧
    (nodePatUser NodeKind.tank = none) := by
  decide

theorem user_eq_mk (u : User) (a : Name) (b : UKind) : u = (a, b) ↔ u.1 = a ∧ u.2 = b := by
  obtain ⟨x, y⟩ := u; simp

end Wntr.Registry
