/-
Lemmas for C15: on the polynomial / rational fragment (`+ - * /`, negation, natural constant powers) the formal
derivative `D` is the analytic derivative (`HasDerivAt`), over any nontrivially normed field (ℝ in particular) whose
`Ops` record is lawful and whose `pow` at natural constants is the monomial.
-/
import WntrModel.Model.Rpn
import WntrModel.Lemmas.AmlFold
import Mathlib.Analysis.Calculus.Deriv.Add
import Mathlib.Analysis.Calculus.Deriv.Mul
import Mathlib.Analysis.Calculus.Deriv.Inv
import Mathlib.Analysis.Calculus.Deriv.Pow
import Mathlib.Tactic.FieldSimp
import Mathlib.Tactic.Ring

namespace Wntr.Aml

/-- a natural exponent ≥ 1 -/
def natExp (q : Rat) : Bool := q.den == 1 && decide (1 ≤ q.num)

/-- the polynomial / rational fragment of the expression language -/
def ratFrag : Expr → Bool
  | .var _ => true
  | .param _ => true
  | .const _ => true
  | .bin .pow a (.const q) => ratFrag a && natExp q
  | .bin .pow _ _ => false
  | .bin _ a b => ratFrag a && ratFrag b
  | .un .neg a => ratFrag a
  | _ => false

/-- no denominator vanishes at the point -/
def denomOk {α : Type} [Zero α] (O : Ops α) (env : Env α) : Expr → Prop
  | .bin .div a b => denomOk O env a ∧ denomOk O env b ∧ eval O env b ≠ 0
  | .bin _ a b => denomOk O env a ∧ denomOk O env b
  | .un _ a => denomOk O env a
  | _ => True

def Env.setVar {α : Type} (env : Env α) (v : Nat) (x : α) : Env α :=
  ⟨fun i => if i = v then x else env.var i, env.param⟩

theorem Env.setVar_self {α : Type} (env : Env α) (v : Nat) : env.setVar v (env.var v) = env := by
  cases env with
  | mk var param =>
    simp only [Env.setVar, Env.mk.injEq, and_true]
    funext i
    by_cases h : i = v
    · subst h; simp
    · simp [h]

section Real
variable {𝕜 : Type} [NontriviallyNormedField 𝕜] {O : Ops 𝕜}

theorem ofRat_natCast (L : LawfulOps O) (n : ℕ) : O.ofRat (n : ℚ) = (n : 𝕜) := by
  induction n with
  | zero => simpa using L.ofRat_zero
  | succ k ih => rw [Nat.cast_succ, Nat.cast_succ, L.ofRat_add, ih, L.ofRat_one]

theorem natExp_spec (q : Rat) (h : natExp q = true) : ∃ n : ℕ, 1 ≤ n ∧ q = (n : ℚ) := by
  simp only [natExp, Bool.and_eq_true, beq_iff_eq, decide_eq_true_eq] at h
  refine ⟨q.num.toNat, ?_, (ratPowNat_ok q ⟨h.1, by omega⟩).symm⟩
  omega

/-- **`D` is the analytic derivative on the polynomial / rational fragment.** -/
theorem D_hasDerivAt (L : LawfulOps O) (hpow : ∀ (x : 𝕜) (n : ℕ), O.pow x (O.ofRat n) = x ^ n)
    (env : Env 𝕜) (v : Nat) (e : Expr) (hf : ratFrag e = true) (hd : denomOk O env e) :
    HasDerivAt (fun x => eval O (env.setVar v x) e) (eval O env (D v e)) (env.var v) := by
  induction e with
  | var i =>
    by_cases h : i = v
    · subst h
      have : (fun x : 𝕜 => eval O (env.setVar i x) (.var i)) = fun x => x := by
        funext x; simp [eval, Env.setVar]
      rw [this]
      simpa [D, L.ofRat_one] using hasDerivAt_id' (env.var i)
    · have : (fun x : 𝕜 => eval O (env.setVar v x) (.var i)) = fun _ => env.var i := by
        funext x; simp [eval, Env.setVar, h]
      rw [this]
      simpa [D, h, L.ofRat_zero] using hasDerivAt_const (env.var v) (env.var i)
  | param i =>
    have : (fun x : 𝕜 => eval O (env.setVar v x) (.param i)) = fun _ => env.param i := by
      funext x; simp [eval, Env.setVar]
    rw [this]
    simpa [D, L.ofRat_zero] using hasDerivAt_const (env.var v) (env.param i)
  | const q =>
    have : (fun x : 𝕜 => eval O (env.setVar v x) (.const q)) = fun _ => O.ofRat q := by
      funext x; simp [eval]
    rw [this]
    simpa [D, L.ofRat_zero] using hasDerivAt_const (env.var v) (O.ofRat q)
  | bin op a b iha ihb =>
    have hpt : ∀ t : Expr, eval O (env.setVar v (env.var v)) t = eval O env t := by
      intro t; rw [Env.setVar_self]
    cases op with
    | add =>
      simp only [ratFrag, Bool.and_eq_true] at hf
      simp only [denomOk] at hd
      have := (iha hf.1 hd.1).add (ihb hf.2 hd.2)
      have h2 : (fun x => eval O (env.setVar v x) (.bin .add a b)) =
          fun x => eval O (env.setVar v x) a + eval O (env.setVar v x) b := by
        funext x; simp [eval, Ops.bin, L.add_eq]
      rw [h2]
      refine this.congr_deriv ?_
      simp only [D, eval, Ops.bin, L.add_eq]
    | sub =>
      simp only [ratFrag, Bool.and_eq_true] at hf
      simp only [denomOk] at hd
      have := (iha hf.1 hd.1).sub (ihb hf.2 hd.2)
      have h2 : (fun x => eval O (env.setVar v x) (.bin .sub a b)) =
          fun x => eval O (env.setVar v x) a - eval O (env.setVar v x) b := by
        funext x; simp [eval, Ops.bin, L.sub_eq]
      rw [h2]
      refine this.congr_deriv ?_
      simp only [D, eval, Ops.bin, L.sub_eq]
    | mul =>
      simp only [ratFrag, Bool.and_eq_true] at hf
      simp only [denomOk] at hd
      have := (iha hf.1 hd.1).mul (ihb hf.2 hd.2)
      simp only [hpt] at this
      have h2 : (fun x => eval O (env.setVar v x) (.bin .mul a b)) =
          fun x => eval O (env.setVar v x) a * eval O (env.setVar v x) b := by
        funext x; simp [eval, Ops.bin, L.mul_eq]
      rw [h2]
      refine this.congr_deriv ?_
      simp only [D, eval, Ops.bin, L.add_eq, L.mul_eq]
      ring
    | div =>
      simp only [ratFrag, Bool.and_eq_true] at hf
      simp only [denomOk] at hd
      have hb0 : eval O (env.setVar v (env.var v)) b ≠ 0 := by rw [hpt]; exact hd.2.2
      have := (iha hf.1 hd.1).div (ihb hf.2 hd.2.1) hb0
      simp only [hpt] at this
      have h2 : (fun x => eval O (env.setVar v x) (.bin .div a b)) =
          fun x => eval O (env.setVar v x) a / eval O (env.setVar v x) b := by
        funext x; simp [eval, Ops.bin, L.div_eq]
      rw [h2]
      refine this.congr_deriv ?_
      have h2' : O.ofRat 2 = O.ofRat ((2 : ℕ) : ℚ) := by norm_num
      simp only [D, eval, Ops.bin, L.sub_eq, L.mul_eq, L.div_eq, h2', hpow]
      have := hd.2.2
      field_simp
    | pow =>
      cases b with
      | const q =>
        simp only [ratFrag, Bool.and_eq_true] at hf
        obtain ⟨n, hn1, hq⟩ := natExp_spec q hf.2
        subst hq
        have hda : denomOk O env a := by simpa [denomOk] using hd.1
        have := (iha hf.1 hda).pow n
        simp only [hpt] at this
        have h2 : (fun x => eval O (env.setVar v x) (.bin .pow a (.const (n : ℚ)))) =
            fun x => eval O (env.setVar v x) a ^ n := by
          funext x; simp [eval, Ops.bin, hpow]
        rw [h2]
        refine this.congr_deriv ?_
        have hsub : O.ofRat (n : ℚ) - O.ofRat 1 = O.ofRat (((n - 1 : ℕ)) : ℚ) := by
          rw [← L.ofRat_sub]
          congr 1
          rw [Nat.cast_sub hn1]; simp
        simp only [D, Expr.isConstLeaf, if_true, eval, Ops.bin, L.sub_eq, L.mul_eq]
        rw [hsub, hpow, ofRat_natCast L]
      | var _ => simp [ratFrag] at hf
      | param _ => simp [ratFrag] at hf
      | bin _ _ _ => simp [ratFrag] at hf
      | un _ _ => simp [ratFrag] at hf
      | ifElse _ _ _ => simp [ratFrag] at hf
      | ineq _ _ _ => simp [ratFrag] at hf
  | un op a iha =>
    cases op with
    | neg =>
      simp only [ratFrag] at hf
      simp only [denomOk] at hd
      have := (iha hf hd).neg
      have h2 : (fun x => eval O (env.setVar v x) (.un .neg a)) = fun x => -eval O (env.setVar v x) a := by
        funext x; simp [eval, Ops.un, L.neg_eq]
      rw [h2]
      refine this.congr_deriv ?_
      simp only [D, eval, Ops.un, L.neg_eq]
    | _ => simp [ratFrag] at hf
  | ifElse c t e _ _ _ => simp [ratFrag] at hf
  | ineq b lb ub _ => simp [ratFrag] at hf

end Real

end Wntr.Aml
