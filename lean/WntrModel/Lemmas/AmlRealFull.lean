/-
Lemmas for C15: over ℝ, with the Mathlib functions as the value operations (`realOps`), the formal derivative `D` is
the analytic derivative (`HasDerivAt`) for EVERY operator of the expression language, at every point of the interior
of the domain of definition (`interior`): nonzero denominators, positive base of a real power (or a natural constant
exponent ≥ 1 with any base), positive argument of `log`, `cos ≠ 0` under `tan`, `(-1, 1)` under `asin`/`acos`; the
kinks of `abs`/`sign` and the boundary points of an inequality are EXCLUDED points; the condition of an `if_else` is
relational and only the SELECTED branch has to be in its domain.
-/
import WntrModel.Model.Rpn
import WntrModel.Lemmas.AmlFold
import WntrModel.Lemmas.AmlRat
import WntrModel.Lemmas.AmlReal
import Mathlib.Analysis.SpecialFunctions.Pow.Deriv
import Mathlib.Analysis.SpecialFunctions.Trigonometric.Deriv
import Mathlib.Analysis.SpecialFunctions.Trigonometric.InverseDeriv
import Mathlib.Analysis.SpecialFunctions.Trigonometric.ArctanDeriv
import Mathlib.Analysis.SpecialFunctions.Log.Deriv
import Mathlib.Analysis.SpecialFunctions.ExpDeriv
import Mathlib.Analysis.Calculus.Deriv.Abs
import Mathlib.Analysis.Calculus.Deriv.Comp
import Mathlib.Tactic.FieldSimp
import Mathlib.Tactic.Ring
import Mathlib.Tactic.NormNum

namespace Wntr.Aml

open Filter Topology

set_option linter.unusedSimpArgs false

/-! ## 1. the real operations -/

noncomputable def realOps : Ops ℝ where
  ofRat := fun q => (q : ℝ)
  add := fun x y => x + y
  sub := fun x y => x - y
  mul := fun x y => x * y
  div := fun x y => x / y
  pow := fun x y => x ^ y
  neg := fun x => -x
  abs := fun x => |x|
  sign := fun x => if 0 ≤ x then 1 else -1
  exp := Real.exp
  log := Real.log
  sin := Real.sin
  cos := Real.cos
  tan := Real.tan
  asin := Real.arcsin
  acos := Real.arccos
  atan := Real.arctan
  le := fun a b => decide (a ≤ b)
  isOne := fun x => decide (x = 1)

section proj
variable (x y : ℝ) (q : ℚ)
@[simp] theorem realOps_ofRat : realOps.ofRat q = (q : ℝ) := rfl
@[simp] theorem realOps_add : realOps.add x y = x + y := rfl
@[simp] theorem realOps_sub : realOps.sub x y = x - y := rfl
@[simp] theorem realOps_mul : realOps.mul x y = x * y := rfl
@[simp] theorem realOps_div : realOps.div x y = x / y := rfl
@[simp] theorem realOps_pow : realOps.pow x y = x ^ y := rfl
@[simp] theorem realOps_neg : realOps.neg x = -x := rfl
@[simp] theorem realOps_abs : realOps.abs x = |x| := rfl
@[simp] theorem realOps_sign : realOps.sign x = if 0 ≤ x then 1 else -1 := rfl
@[simp] theorem realOps_exp : realOps.exp x = Real.exp x := rfl
@[simp] theorem realOps_log : realOps.log x = Real.log x := rfl
@[simp] theorem realOps_sin : realOps.sin x = Real.sin x := rfl
@[simp] theorem realOps_cos : realOps.cos x = Real.cos x := rfl
@[simp] theorem realOps_tan : realOps.tan x = Real.tan x := rfl
@[simp] theorem realOps_asin : realOps.asin x = Real.arcsin x := rfl
@[simp] theorem realOps_acos : realOps.acos x = Real.arccos x := rfl
@[simp] theorem realOps_atan : realOps.atan x = Real.arctan x := rfl
@[simp] theorem realOps_le : realOps.le x y = decide (x ≤ y) := rfl
@[simp] theorem realOps_isOne : realOps.isOne x = decide (x = 1) := rfl
end proj

theorem ratNatPow_cast (x : ℚ) (n : ℕ) : ((ratNatPow x n : ℚ) : ℝ) = (x : ℝ) ^ n := by
  rw [ratNatPow_eq_pow]; push_cast; rfl

/-! ## 2. lawfulness -/

theorem realOps_lawful : LawfulOps realOps where
  add_eq := fun _ _ => rfl
  sub_eq := fun _ _ => rfl
  mul_eq := fun _ _ => rfl
  div_eq := fun _ _ => rfl
  neg_eq := fun _ => rfl
  ofRat_zero := by simp [realOps]
  ofRat_one := by simp [realOps]
  ofRat_add := by intro p q; simp [realOps]
  ofRat_sub := by intro p q; simp [realOps]
  ofRat_mul := by intro p q; simp [realOps]
  ofRat_neg := by intro p; simp [realOps]
  ofRat_div := by intro p q _; simp [realOps]
  pow_zero := by intro x; simp [realOps]
  pow_one := by intro x; simp [realOps]
  one_pow := by intro y; simp [realOps]
  pow_nat := by
    intro x n
    show ((x : ℝ)) ^ (((n : ℚ) : ℝ)) = ((ratNatPow x n : ℚ) : ℝ)
    rw [ratNatPow_cast, Rat.cast_natCast, Real.rpow_natCast]
  abs_ofRat := by
    intro x
    show |(x : ℝ)| = (((if 0 ≤ x then x else -x : ℚ)) : ℝ)
    split_ifs with h
    · exact abs_of_nonneg (by exact_mod_cast h)
    · rw [abs_of_neg (by exact_mod_cast not_le.mp h)]; push_cast; rfl
  sign_ofRat := by
    intro x
    show (if (0 : ℝ) ≤ (x : ℝ) then (1 : ℝ) else -1) = (((if 0 ≤ x then 1 else -1 : ℚ)) : ℝ)
    have : (0 : ℝ) ≤ (x : ℝ) ↔ 0 ≤ x := by exact_mod_cast Iff.rfl
    by_cases h : 0 ≤ x
    · simp [h]
    · simp [h]
  le_ofRat := by
    intro p q
    show decide ((p : ℝ) ≤ (q : ℝ)) = decide (p ≤ q)
    simp
  isOne_ofRat := by
    intro q
    show decide ((q : ℝ) = 1) = decide (q = 1)
    have : ((q : ℝ) = 1) ↔ q = 1 := by exact_mod_cast Iff.rfl
    simp [this]

theorem realOps_pow_nat (x : ℝ) (n : ℕ) : realOps.pow x (realOps.ofRat n) = x ^ n := by
  show x ^ (((n : ℚ)) : ℝ) = x ^ n
  rw [Rat.cast_natCast, Real.rpow_natCast]

/-! ## 3. the interior of the domain of definition -/

/-- the point `env` is in the interior of the domain of definition of the expression (kinks of `abs`/`sign` and
boundary points of inequalities are excluded; only the selected branch of an `if_else` is constrained) -/
def interior (env : Env ℝ) : Expr → Prop
  | .var _ => True
  | .param _ => True
  | .const _ => True
  | .bin .add a b => interior env a ∧ interior env b
  | .bin .sub a b => interior env a ∧ interior env b
  | .bin .mul a b => interior env a ∧ interior env b
  | .bin .div a b => interior env a ∧ interior env b ∧ eval realOps env b ≠ 0
  | .bin .pow a b => interior env a ∧ interior env b ∧
      (0 < eval realOps env a ∨ (∃ q, b = .const q ∧ natExp q = true))
  | .un .neg a => interior env a
  | .un .exp a => interior env a
  | .un .sin a => interior env a
  | .un .cos a => interior env a
  | .un .atan a => interior env a
  | .un .log a => interior env a ∧ 0 < eval realOps env a
  | .un .tan a => interior env a ∧ Real.cos (eval realOps env a) ≠ 0
  | .un .asin a => interior env a ∧ -1 < eval realOps env a ∧ eval realOps env a < 1
  | .un .acos a => interior env a ∧ -1 < eval realOps env a ∧ eval realOps env a < 1
  | .un .abs a => interior env a ∧ eval realOps env a ≠ 0
  | .un .sign a => interior env a ∧ eval realOps env a ≠ 0
  | .ineq body lb ub => interior env body ∧ (∀ l, lb = some l → eval realOps env body ≠ (l : ℝ)) ∧
      (∀ u, ub = some u → eval realOps env body ≠ (u : ℝ))
  | .ifElse c t e => (∃ body lb ub, c = .ineq body lb ub) ∧ interior env c ∧
      (if realOps.isOne (eval realOps env c) = true then interior env t else interior env e)

/-! ## 4. local lemmas -/

/-- off the bound, `c ≤ f x` keeps its truth value near the point -/
theorem eventually_const_le_iff {f : ℝ → ℝ} {x0 : ℝ} (hc : ContinuousAt f x0) (c : ℝ) (h : f x0 ≠ c) :
    ∀ᶠ x in 𝓝 x0, (c ≤ f x ↔ c ≤ f x0) := by
  rcases lt_or_gt_of_ne h with hlt | hgt
  · filter_upwards [hc.eventually_lt continuousAt_const hlt] with x hx
    exact ⟨fun h' => absurd h' (not_le.mpr hx), fun h' => absurd h' (not_le.mpr hlt)⟩
  · filter_upwards [continuousAt_const.eventually_lt hc hgt] with x hx
    exact ⟨fun _ => hgt.le, fun _ => hx.le⟩

/-- off the bound, `f x ≤ c` keeps its truth value near the point -/
theorem eventually_le_const_iff {f : ℝ → ℝ} {x0 : ℝ} (hc : ContinuousAt f x0) (c : ℝ) (h : f x0 ≠ c) :
    ∀ᶠ x in 𝓝 x0, (f x ≤ c ↔ f x0 ≤ c) := by
  rcases lt_or_gt_of_ne h with hlt | hgt
  · filter_upwards [hc.eventually_lt continuousAt_const hlt] with x hx
    exact ⟨fun _ => hlt.le, fun _ => hx.le⟩
  · filter_upwards [continuousAt_const.eventually_lt hc hgt] with x hx
    exact ⟨fun h' => absurd h' (not_le.mpr hx), fun h' => absurd h' (not_le.mpr hgt)⟩

/-- an inequality whose body is continuous at the point and strictly off both bounds is locally constant -/
theorem ineq_eventuallyEq (env : Env ℝ) (v : Nat) (body : Expr) (lb ub : Option ℚ)
    (hc : ContinuousAt (fun x => eval realOps (env.setVar v x) body) (env.var v))
    (hl : ∀ l, lb = some l → eval realOps env body ≠ (l : ℝ))
    (hu : ∀ u, ub = some u → eval realOps env body ≠ (u : ℝ)) :
    (fun x => eval realOps (env.setVar v x) (.ineq body lb ub)) =ᶠ[𝓝 (env.var v)]
      fun _ => eval realOps env (.ineq body lb ub) := by
  have hpt : eval realOps (env.setVar v (env.var v)) body = eval realOps env body := by
    rw [Env.setVar_self]
  cases lb with
  | none =>
    cases ub with
    | none => exact Eventually.of_forall fun x => by simp [eval]
    | some u =>
      have h2 := eventually_le_const_iff hc (u : ℝ) (by rw [hpt]; exact hu u rfl)
      filter_upwards [h2] with x hx
      rw [hpt] at hx
      simp only [eval, realOps_ofRat, realOps_add, realOps_sub, realOps_mul, realOps_div, realOps_pow, realOps_neg, realOps_abs, realOps_sign, realOps_exp, realOps_log, realOps_sin, realOps_cos, realOps_tan, realOps_asin, realOps_acos, realOps_atan, realOps_le, realOps_isOne, Bool.true_and, decide_eq_decide.mpr hx]
  | some l =>
    have h1 := eventually_const_le_iff hc (l : ℝ) (by rw [hpt]; exact hl l rfl)
    cases ub with
    | none =>
      filter_upwards [h1] with x hx
      rw [hpt] at hx
      simp only [eval, realOps_ofRat, realOps_add, realOps_sub, realOps_mul, realOps_div, realOps_pow, realOps_neg, realOps_abs, realOps_sign, realOps_exp, realOps_log, realOps_sin, realOps_cos, realOps_tan, realOps_asin, realOps_acos, realOps_atan, realOps_le, realOps_isOne, Bool.and_true, decide_eq_decide.mpr hx]
    | some u =>
      have h2 := eventually_le_const_iff hc (u : ℝ) (by rw [hpt]; exact hu u rfl)
      filter_upwards [h1, h2] with x hx1 hx2
      rw [hpt] at hx1 hx2
      simp only [eval, realOps_ofRat, realOps_add, realOps_sub, realOps_mul, realOps_div, realOps_pow, realOps_neg, realOps_abs, realOps_sign, realOps_exp, realOps_log, realOps_sin, realOps_cos, realOps_tan, realOps_asin, realOps_acos, realOps_atan, realOps_le, realOps_isOne, decide_eq_decide.mpr hx1, decide_eq_decide.mpr hx2]

theorem D_constLeaf (v : Nat) (b : Expr) (h : b.isConstLeaf = true) : D v b = .const 0 := by
  cases b <;> simp_all [Expr.isConstLeaf, D]

theorem natExp_one_le (q : ℚ) (h : natExp q = true) : (1 : ℝ) ≤ (q : ℝ) := by
  obtain ⟨n, hn1, hq⟩ := natExp_spec q h
  subst hq
  rw [Rat.cast_natCast]
  exact_mod_cast hn1

/-! ## 5. the main theorem -/

/-- the induction: the derivative, and (for an inequality) local constancy -/
theorem D_hasDerivAt_real_aux (env : Env ℝ) (v : Nat) (e : Expr) (h : interior env e) :
    HasDerivAt (fun x => eval realOps (env.setVar v x) e) (eval realOps env (D v e)) (env.var v) ∧
    ((∃ body lb ub, e = .ineq body lb ub) →
      (fun x => eval realOps (env.setVar v x) e) =ᶠ[𝓝 (env.var v)] fun _ => eval realOps env e) := by
  have hpt : ∀ t : Expr, eval realOps (env.setVar v (env.var v)) t = eval realOps env t := by
    intro t; rw [Env.setVar_self]
  induction e with
  | var i =>
    refine ⟨?_, by rintro ⟨_, _, _, h'⟩; cases h'⟩
    by_cases hi : i = v
    · subst hi
      have : (fun x : ℝ => eval realOps (env.setVar i x) (.var i)) = fun x => x := by
        funext x; simp [eval, Env.setVar]
      rw [this]
      simpa [D, realOps_ofRat, realOps_add, realOps_sub, realOps_mul, realOps_div, realOps_pow, realOps_neg, realOps_abs, realOps_sign, realOps_exp, realOps_log, realOps_sin, realOps_cos, realOps_tan, realOps_asin, realOps_acos, realOps_atan, realOps_le, realOps_isOne] using hasDerivAt_id' (env.var i)
    · have : (fun x : ℝ => eval realOps (env.setVar v x) (.var i)) = fun _ => env.var i := by
        funext x; simp [eval, Env.setVar, hi]
      rw [this]
      simpa [D, hi, realOps_ofRat, realOps_add, realOps_sub, realOps_mul, realOps_div, realOps_pow, realOps_neg, realOps_abs, realOps_sign, realOps_exp, realOps_log, realOps_sin, realOps_cos, realOps_tan, realOps_asin, realOps_acos, realOps_atan, realOps_le, realOps_isOne] using hasDerivAt_const (env.var v) (env.var i)
  | param i =>
    refine ⟨?_, by rintro ⟨_, _, _, h'⟩; cases h'⟩
    have : (fun x : ℝ => eval realOps (env.setVar v x) (.param i)) = fun _ => env.param i := by
      funext x; simp [eval, Env.setVar]
    rw [this]
    simpa [D, realOps_ofRat, realOps_add, realOps_sub, realOps_mul, realOps_div, realOps_pow, realOps_neg, realOps_abs, realOps_sign, realOps_exp, realOps_log, realOps_sin, realOps_cos, realOps_tan, realOps_asin, realOps_acos, realOps_atan, realOps_le, realOps_isOne] using hasDerivAt_const (env.var v) (env.param i)
  | const q =>
    refine ⟨?_, by rintro ⟨_, _, _, h'⟩; cases h'⟩
    have : (fun x : ℝ => eval realOps (env.setVar v x) (.const q)) = fun _ => (q : ℝ) := by
      funext x; simp [eval, realOps_ofRat, realOps_add, realOps_sub, realOps_mul, realOps_div, realOps_pow, realOps_neg, realOps_abs, realOps_sign, realOps_exp, realOps_log, realOps_sin, realOps_cos, realOps_tan, realOps_asin, realOps_acos, realOps_atan, realOps_le, realOps_isOne]
    rw [this]
    simpa [D, realOps_ofRat, realOps_add, realOps_sub, realOps_mul, realOps_div, realOps_pow, realOps_neg, realOps_abs, realOps_sign, realOps_exp, realOps_log, realOps_sin, realOps_cos, realOps_tan, realOps_asin, realOps_acos, realOps_atan, realOps_le, realOps_isOne] using hasDerivAt_const (env.var v) (q : ℝ)
  | bin op a b iha ihb =>
    refine ⟨?_, by rintro ⟨_, _, _, h'⟩; cases h'⟩
    cases op with
    | add =>
      simp only [interior] at h
      have := ((iha h.1).1).add ((ihb h.2).1)
      refine this.congr_deriv ?_
      simp only [D, eval, Ops.bin, realOps_ofRat, realOps_add, realOps_sub, realOps_mul, realOps_div, realOps_pow, realOps_neg, realOps_abs, realOps_sign, realOps_exp, realOps_log, realOps_sin, realOps_cos, realOps_tan, realOps_asin, realOps_acos, realOps_atan, realOps_le, realOps_isOne]
    | sub =>
      simp only [interior] at h
      have := ((iha h.1).1).sub ((ihb h.2).1)
      refine this.congr_deriv ?_
      simp only [D, eval, Ops.bin, realOps_ofRat, realOps_add, realOps_sub, realOps_mul, realOps_div, realOps_pow, realOps_neg, realOps_abs, realOps_sign, realOps_exp, realOps_log, realOps_sin, realOps_cos, realOps_tan, realOps_asin, realOps_acos, realOps_atan, realOps_le, realOps_isOne]
    | mul =>
      simp only [interior] at h
      have := ((iha h.1).1).mul ((ihb h.2).1)
      simp only [hpt] at this
      refine this.congr_deriv ?_
      simp only [D, eval, Ops.bin, realOps_ofRat, realOps_add, realOps_sub, realOps_mul, realOps_div, realOps_pow, realOps_neg, realOps_abs, realOps_sign, realOps_exp, realOps_log, realOps_sin, realOps_cos, realOps_tan, realOps_asin, realOps_acos, realOps_atan, realOps_le, realOps_isOne]
      ring
    | div =>
      simp only [interior] at h
      have hb0 : eval realOps (env.setVar v (env.var v)) b ≠ 0 := by rw [hpt]; exact h.2.2
      have := ((iha h.1).1).div ((ihb h.2.1).1) hb0
      simp only [hpt] at this
      refine this.congr_deriv ?_
      have hb := h.2.2
      simp only [D, eval, Ops.bin, realOps_ofRat, realOps_add, realOps_sub, realOps_mul, realOps_div, realOps_pow, realOps_neg, realOps_abs, realOps_sign, realOps_exp, realOps_log, realOps_sin, realOps_cos, realOps_tan, realOps_asin, realOps_acos, realOps_atan, realOps_le, realOps_isOne]
      have h2 : ((2 : ℚ) : ℝ) = 2 := by norm_num
      rw [h2, Real.rpow_two]
      field_simp
    | pow =>
      simp only [interior] at h
      obtain ⟨ha, hb, hdom⟩ := h
      have hfa := (iha ha).1
      have hfb := (ihb hb).1
      rcases hdom with hpos | ⟨q, hq, hnat⟩
      · -- positive base: both may vary
        have hpos' : 0 < eval realOps (env.setVar v (env.var v)) a := by rw [hpt]; exact hpos
        have := hfa.rpow hfb hpos'
        simp only [hpt] at this
        refine this.congr_deriv ?_
        simp only [D]
        by_cases hcl : b.isConstLeaf = true
        · have hD := D_constLeaf v b hcl
          rw [hD] at *
          simp only [hcl, if_true, eval, Ops.bin, realOps_ofRat, realOps_add, realOps_sub, realOps_mul, realOps_div, realOps_pow, realOps_neg, realOps_abs, realOps_sign, realOps_exp, realOps_log, realOps_sin, realOps_cos, realOps_tan, realOps_asin, realOps_acos, realOps_atan, realOps_le, realOps_isOne, Rat.cast_zero, Rat.cast_one]
          ring
        · simp only [hcl, eval, Ops.bin, Ops.un, realOps_ofRat, realOps_add, realOps_sub, realOps_mul, realOps_div, realOps_pow, realOps_neg, realOps_abs, realOps_sign, realOps_exp, realOps_log, realOps_sin, realOps_cos, realOps_tan, realOps_asin, realOps_acos, realOps_atan, realOps_le, realOps_isOne, Rat.cast_one, Bool.false_eq_true, if_false]
          ring
      · -- natural constant exponent ≥ 1, any base
        subst hq
        have h1 := natExp_one_le q hnat
        have := hfa.rpow_const (p := (q : ℝ)) (Or.inr h1)
        simp only [hpt] at this
        refine this.congr_deriv ?_
        simp only [D, Expr.isConstLeaf, if_true, eval, Ops.bin, realOps_ofRat, realOps_add, realOps_sub, realOps_mul, realOps_div, realOps_pow, realOps_neg, realOps_abs, realOps_sign, realOps_exp, realOps_log, realOps_sin, realOps_cos, realOps_tan, realOps_asin, realOps_acos, realOps_atan, realOps_le, realOps_isOne, Rat.cast_one]
        ring
  | un op a iha =>
    refine ⟨?_, by rintro ⟨_, _, _, h'⟩; cases h'⟩
    cases op with
    | neg =>
      simp only [interior] at h
      have := ((iha h).1).neg
      refine this.congr_deriv ?_
      simp only [D, eval, Ops.un, realOps_ofRat, realOps_add, realOps_sub, realOps_mul, realOps_div, realOps_pow, realOps_neg, realOps_abs, realOps_sign, realOps_exp, realOps_log, realOps_sin, realOps_cos, realOps_tan, realOps_asin, realOps_acos, realOps_atan, realOps_le, realOps_isOne]
    | abs =>
      simp only [interior] at h
      have hfa := (iha h.1).1
      rcases lt_or_gt_of_ne h.2 with hneg | hpos
      · have hneg' : eval realOps (env.setVar v (env.var v)) a < 0 := by rw [hpt]; exact hneg
        have := (hasDerivAt_abs_neg hneg').comp (env.var v) hfa
        refine this.congr_deriv ?_
        have hn : ¬ (0 : ℝ) ≤ eval realOps env a := not_le.mpr hneg
        simp [D, eval, Ops.un, Ops.bin, Ops.ofBool, realOps_ofRat, realOps_add, realOps_sub, realOps_mul, realOps_div, realOps_pow, realOps_neg, realOps_abs, realOps_sign, realOps_exp, realOps_log, realOps_sin, realOps_cos, realOps_tan, realOps_asin, realOps_acos, realOps_atan, realOps_le, realOps_isOne, hn]
      · have hpos' : 0 < eval realOps (env.setVar v (env.var v)) a := by rw [hpt]; exact hpos
        have := (hasDerivAt_abs_pos hpos').comp (env.var v) hfa
        refine this.congr_deriv ?_
        have hn : (0 : ℝ) ≤ eval realOps env a := hpos.le
        simp [D, eval, Ops.un, Ops.bin, Ops.ofBool, realOps_ofRat, realOps_add, realOps_sub, realOps_mul, realOps_div, realOps_pow, realOps_neg, realOps_abs, realOps_sign, realOps_exp, realOps_log, realOps_sin, realOps_cos, realOps_tan, realOps_asin, realOps_acos, realOps_atan, realOps_le, realOps_isOne, hn]
    | sign =>
      simp only [interior] at h
      have hfa := (iha h.1).1
      have hev := eventually_const_le_iff hfa.continuousAt (0 : ℝ) (by rw [hpt]; exact h.2)
      have hc : HasDerivAt (fun _ : ℝ => eval realOps env (.un .sign a)) (0 : ℝ) (env.var v) :=
        hasDerivAt_const _ _
      have hD : eval realOps env (D v (.un .sign a)) = 0 := by simp [D, eval, realOps_ofRat, realOps_add, realOps_sub, realOps_mul, realOps_div, realOps_pow, realOps_neg, realOps_abs, realOps_sign, realOps_exp, realOps_log, realOps_sin, realOps_cos, realOps_tan, realOps_asin, realOps_acos, realOps_atan, realOps_le, realOps_isOne]
      rw [hD]
      refine hc.congr_of_eventuallyEq ?_
      filter_upwards [hev] with x hx
      rw [hpt] at hx
      simp only [eval, Ops.un, realOps_ofRat, realOps_add, realOps_sub, realOps_mul, realOps_div, realOps_pow, realOps_neg, realOps_abs, realOps_sign, realOps_exp, realOps_log, realOps_sin, realOps_cos, realOps_tan, realOps_asin, realOps_acos, realOps_atan, realOps_le, realOps_isOne]
      by_cases h0 : (0 : ℝ) ≤ eval realOps env a
      · rw [if_pos h0, if_pos (hx.mpr h0)]
      · rw [if_neg h0, if_neg (fun h' => h0 (hx.mp h'))]
    | exp =>
      simp only [interior] at h
      have := ((iha h).1).exp
      simp only [hpt] at this
      refine this.congr_deriv ?_
      simp only [D, eval, Ops.un, Ops.bin, realOps_ofRat, realOps_add, realOps_sub, realOps_mul, realOps_div, realOps_pow, realOps_neg, realOps_abs, realOps_sign, realOps_exp, realOps_log, realOps_sin, realOps_cos, realOps_tan, realOps_asin, realOps_acos, realOps_atan, realOps_le, realOps_isOne]
    | log =>
      simp only [interior] at h
      have h0 : eval realOps (env.setVar v (env.var v)) a ≠ 0 := by rw [hpt]; exact h.2.ne'
      have := ((iha h.1).1).log h0
      simp only [hpt] at this
      refine this.congr_deriv ?_
      simp only [D, eval, Ops.un, Ops.bin, realOps_ofRat, realOps_add, realOps_sub, realOps_mul, realOps_div, realOps_pow, realOps_neg, realOps_abs, realOps_sign, realOps_exp, realOps_log, realOps_sin, realOps_cos, realOps_tan, realOps_asin, realOps_acos, realOps_atan, realOps_le, realOps_isOne]
    | sin =>
      simp only [interior] at h
      have := ((iha h).1).sin
      simp only [hpt] at this
      refine this.congr_deriv ?_
      simp only [D, eval, Ops.un, Ops.bin, realOps_ofRat, realOps_add, realOps_sub, realOps_mul, realOps_div, realOps_pow, realOps_neg, realOps_abs, realOps_sign, realOps_exp, realOps_log, realOps_sin, realOps_cos, realOps_tan, realOps_asin, realOps_acos, realOps_atan, realOps_le, realOps_isOne]
    | cos =>
      simp only [interior] at h
      have := ((iha h).1).cos
      simp only [hpt] at this
      refine this.congr_deriv ?_
      simp only [D, eval, Ops.un, Ops.bin, realOps_ofRat, realOps_add, realOps_sub, realOps_mul, realOps_div, realOps_pow, realOps_neg, realOps_abs, realOps_sign, realOps_exp, realOps_log, realOps_sin, realOps_cos, realOps_tan, realOps_asin, realOps_acos, realOps_atan, realOps_le, realOps_isOne]
      ring
    | tan =>
      simp only [interior] at h
      have h0 : Real.cos (eval realOps (env.setVar v (env.var v)) a) ≠ 0 := by rw [hpt]; exact h.2
      have := (Real.hasDerivAt_tan h0).comp (env.var v) (iha h.1).1
      simp only [hpt] at this
      refine this.congr_deriv ?_
      simp only [D, eval, Ops.un, Ops.bin, realOps_ofRat, realOps_add, realOps_sub, realOps_mul, realOps_div, realOps_pow, realOps_neg, realOps_abs, realOps_sign, realOps_exp, realOps_log, realOps_sin, realOps_cos, realOps_tan, realOps_asin, realOps_acos, realOps_atan, realOps_le, realOps_isOne]
      have h2 : ((2 : ℚ) : ℝ) = 2 := by norm_num
      rw [h2, Real.rpow_two]
      ring
    | asin =>
      simp only [interior] at h
      have h1 : eval realOps (env.setVar v (env.var v)) a ≠ -1 := by rw [hpt]; exact h.2.1.ne'
      have h2 : eval realOps (env.setVar v (env.var v)) a ≠ 1 := by rw [hpt]; exact h.2.2.ne
      have := (Real.hasDerivAt_arcsin h1 h2).comp (env.var v) (iha h.1).1
      simp only [hpt] at this
      refine this.congr_deriv ?_
      simp only [D, eval, Ops.un, Ops.bin, realOps_ofRat, realOps_add, realOps_sub, realOps_mul, realOps_div, realOps_pow, realOps_neg, realOps_abs, realOps_sign, realOps_exp, realOps_log, realOps_sin, realOps_cos, realOps_tan, realOps_asin, realOps_acos, realOps_atan, realOps_le, realOps_isOne]
      have e2 : ((2 : ℚ) : ℝ) = 2 := by norm_num
      have e12 : (((1 / 2 : ℚ)) : ℝ) = 1 / 2 := by norm_num
      rw [e2, e12, Real.rpow_two, Rat.cast_one, Real.sqrt_eq_rpow]
      ring
    | acos =>
      simp only [interior] at h
      have h1 : eval realOps (env.setVar v (env.var v)) a ≠ -1 := by rw [hpt]; exact h.2.1.ne'
      have h2 : eval realOps (env.setVar v (env.var v)) a ≠ 1 := by rw [hpt]; exact h.2.2.ne
      have := (Real.hasDerivAt_arccos h1 h2).comp (env.var v) (iha h.1).1
      simp only [hpt] at this
      refine this.congr_deriv ?_
      simp only [D, eval, Ops.un, Ops.bin, realOps_ofRat, realOps_add, realOps_sub, realOps_mul, realOps_div, realOps_pow, realOps_neg, realOps_abs, realOps_sign, realOps_exp, realOps_log, realOps_sin, realOps_cos, realOps_tan, realOps_asin, realOps_acos, realOps_atan, realOps_le, realOps_isOne]
      have e2 : ((2 : ℚ) : ℝ) = 2 := by norm_num
      have e12 : (((1 / 2 : ℚ)) : ℝ) = 1 / 2 := by norm_num
      rw [e2, e12, Real.rpow_two, Rat.cast_one, Real.sqrt_eq_rpow]
      ring
    | atan =>
      simp only [interior] at h
      have := ((iha h).1).arctan
      simp only [hpt] at this
      refine this.congr_deriv ?_
      simp only [D, eval, Ops.un, Ops.bin, realOps_ofRat, realOps_add, realOps_sub, realOps_mul, realOps_div, realOps_pow, realOps_neg, realOps_abs, realOps_sign, realOps_exp, realOps_log, realOps_sin, realOps_cos, realOps_tan, realOps_asin, realOps_acos, realOps_atan, realOps_le, realOps_isOne]
      have e2 : ((2 : ℚ) : ℝ) = 2 := by norm_num
      rw [e2, Real.rpow_two, Rat.cast_one]
      ring
  | ifElse c t e ihc iht ihe =>
    refine ⟨?_, by rintro ⟨_, _, _, h'⟩; cases h'⟩
    simp only [interior] at h
    obtain ⟨hrel, hc, hsel⟩ := h
    have hcev := (ihc hc).2 hrel
    cases hio : realOps.isOne (eval realOps env c) with
    | true =>
      simp only [hio, if_true] at hsel
      have := (iht hsel).1
      have hD : eval realOps env (D v (.ifElse c t e)) = eval realOps env (D v t) := by
        simp only [D, eval, hio, if_true]
      rw [hD]
      refine this.congr_of_eventuallyEq ?_
      filter_upwards [hcev] with x hx
      simp only [eval]
      rw [hx, hio]
      rfl
    | false =>
      simp only [hio, Bool.false_eq_true, if_false] at hsel
      have := (ihe hsel).1
      have hD : eval realOps env (D v (.ifElse c t e)) = eval realOps env (D v e) := by
        simp only [D, eval, hio, Bool.false_eq_true, if_false]
      rw [hD]
      refine this.congr_of_eventuallyEq ?_
      filter_upwards [hcev] with x hx
      simp only [eval]
      rw [hx, hio]
      rfl
  | ineq body lb ub ihb =>
    simp only [interior] at h
    obtain ⟨hb, hl, hu⟩ := h
    have hev := ineq_eventuallyEq env v body lb ub (ihb hb).1.continuousAt hl hu
    refine ⟨?_, fun _ => hev⟩
    have hc : HasDerivAt (fun _ : ℝ => eval realOps env (.ineq body lb ub)) (0 : ℝ) (env.var v) :=
      hasDerivAt_const _ _
    have hD : eval realOps env (D v (.ineq body lb ub)) = 0 := by simp [D, eval, realOps_ofRat, realOps_add, realOps_sub, realOps_mul, realOps_div, realOps_pow, realOps_neg, realOps_abs, realOps_sign, realOps_exp, realOps_log, realOps_sin, realOps_cos, realOps_tan, realOps_asin, realOps_acos, realOps_atan, realOps_le, realOps_isOne]
    rw [hD]
    exact hc.congr_of_eventuallyEq hev

/-- **`D` is the analytic derivative, for every operator of the language, on the interior of the domain.** -/
theorem D_hasDerivAt_real (env : Env ℝ) (v : Nat) (e : Expr) (h : interior env e) :
    HasDerivAt (fun x => eval realOps (env.setVar v x) e) (eval realOps env (D v e)) (env.var v) :=
  (D_hasDerivAt_real_aux env v e h).1

/-! ## 6. non-vacuity -/

/-- `if_else(x ≥ 0, x**0.5 + exp(sin(log x)), -(−x)**0.5)` -/
def exGuardReal : Expr :=
  .ifElse (.ineq (.var 0) (some 0) none)
    (.bin .add (.bin .pow (.var 0) (.const (1/2))) (.un .exp (.un .sin (.un .log (.var 0)))))
    (.un .neg (.bin .pow (.un .neg (.var 0)) (.const (1/2))))

def exEnvReal : Env ℝ := ⟨fun _ => 4, fun _ => 0⟩

/-- at `x = 4` the guard selects the first branch, which is in its domain; the second branch (`(−4)**0.5`) is not and
need not be -/
theorem exGuardReal_interior : interior exEnvReal exGuardReal := by
  simp only [exGuardReal, interior]
  refine ⟨⟨_, _, _, rfl⟩, ⟨trivial, ?_, ?_⟩, ?_⟩
  · intro l hl
    simp only [Option.some.injEq] at hl
    subst hl
    simp [eval, exEnvReal]
  · intro u hu; cases hu
  · have : realOps.isOne (eval realOps exEnvReal (.ineq (.var 0) (some 0) none)) = true := by
      simp [eval, exEnvReal, realOps_ofRat, realOps_add, realOps_sub, realOps_mul, realOps_div, realOps_pow, realOps_neg, realOps_abs, realOps_sign, realOps_exp, realOps_log, realOps_sin, realOps_cos, realOps_tan, realOps_asin, realOps_acos, realOps_atan, realOps_le, realOps_isOne, Ops.ofBool]
    rw [if_pos this]
    simp [eval, exEnvReal]

example : HasDerivAt (fun x => eval realOps (exEnvReal.setVar 0 x) exGuardReal)
    (eval realOps exEnvReal (D 0 exGuardReal)) (4 : ℝ) :=
  D_hasDerivAt_real exEnvReal 0 exGuardReal exGuardReal_interior

end Wntr.Aml
