/-
Real-number semantics of the `LinkRows` smart constructors and rows (C01 / C02).

`PyVal.val` is the number a Python value (float or aml expression) denotes at an environment; the operator overloads
of `Model/LinkRows.lean` (`x*0 → 0`, `x*1 → x`, `x**1 → x`, `0 - x → -x` …) preserve it, so the value of every row is
obtained by `simp` without looking at which folding rule fired.
-/
import WntrModel.Model.LinkRows
import WntrModel.Lemmas.RowsReal

set_option linter.unusedSimpArgs false

namespace Wntr.LinkRows
open Wntr.Aml Wntr.Rows

@[simp] theorem realOps_abs (a : ℝ) : realOps.abs a = |a| := rfl
@[simp] theorem realOps_sign (a : ℝ) : realOps.sign a = if 0 ≤ a then 1 else -1 := rfl

/-- Python's `sign` as the evaluator computes it: `1 if x >= 0 else -1` -/
noncomputable def sgn (x : ℝ) : ℝ := if 0 ≤ x then 1 else -1

theorem sgn_of_nonneg {x : ℝ} (h : 0 ≤ x) : sgn x = 1 := by simp [sgn, h]
theorem sgn_of_neg {x : ℝ} (h : x < 0) : sgn x = -1 := by simp [sgn, not_le.2 h]
theorem sgn_mul_abs (x : ℝ) : sgn x * |x| = x := by
  rcases le_or_gt 0 x with h | h
  · rw [sgn_of_nonneg h, abs_of_nonneg h, one_mul]
  · rw [sgn_of_neg h, abs_of_neg h]; ring

/-- the number a Python value denotes -/
noncomputable def PyVal.val (env : Env ℝ) : PyVal → ℝ
  | .num q => (q : ℝ)
  | .ex e => eval realOps env e

section val
variable (env : Env ℝ)

@[simp] theorem val_num (q : ℚ) : (PyVal.num q).val env = (q : ℝ) := rfl
@[simp] theorem val_ex (e : Expr) : (PyVal.ex e).val env = eval realOps env e := rfl

@[simp] theorem val_con (v : PyVal) : eval realOps env v.con = v.val env := by
  cases v <;> simp [PyVal.con, PyVal.toExpr, PyVal.val, eval]

@[simp] theorem val_add (a b : PyVal) : (a + b).val env = a.val env + b.val env := by
  show (PyVal.add a b).val env = _
  cases a <;> cases b <;> simp only [PyVal.add, PyVal.val] <;> (try split_ifs) <;>
    simp_all [eval, Ops.bin]

@[simp] theorem val_sub (a b : PyVal) : (a - b).val env = a.val env - b.val env := by
  show (PyVal.sub a b).val env = _
  cases a <;> cases b <;> simp only [PyVal.sub, PyVal.val] <;> (try split_ifs) <;>
    simp_all [eval, Ops.bin, Ops.un]

@[simp] theorem val_mul (a b : PyVal) : (a * b).val env = a.val env * b.val env := by
  show (PyVal.mul a b).val env = _
  cases a <;> cases b <;> simp only [PyVal.mul, PyVal.val] <;> (try split_ifs) <;>
    simp_all [eval, Ops.bin]

@[simp] theorem val_powC (a : Expr) (q : ℚ) : (PyVal.powC a q).val env = eval realOps env a ^ (q : ℝ) := by
  simp only [PyVal.powC]
  split_ifs <;> simp_all [PyVal.val, eval, Ops.bin]

@[simp] theorem val_negE (a : Expr) : (PyVal.negE a).val env = -eval realOps env a := by
  simp [PyVal.negE, PyVal.val, eval, Ops.un]

@[simp] theorem eval_sign (a : Expr) : eval realOps env (.un .sign a) = sgn (eval realOps env a) := by
  simp [eval, Ops.un, sgn]

@[simp] theorem eval_abs (a : Expr) : eval realOps env (.un .abs a) = |eval realOps env a| := by
  simp [eval, Ops.un]

/-- a two-way conditional on an upper bound -/
theorem eval_ifElse_ub (b t e : Expr) (u : ℚ) :
    eval realOps env (.ifElse (ub b u) t e) =
      if eval realOps env b ≤ (u : ℝ) then eval realOps env t else eval realOps env e := by
  simp only [eval, ub, isOne_ofBool, realOps_le, realOps_ofRat, Bool.true_and, decide_eq_true_eq]

end val

/-! ### mass balance -/

theorem foldl_sub_eval (env : Env ℝ) (ins : List Nat) (d : Expr) :
    eval realOps env (ins.foldl (fun e l => .bin .sub e (.var l)) d) = eval realOps env d - (ins.map env.var).sum := by
  induction ins generalizing d with
  | nil => simp
  | cons l t ih => rw [List.foldl_cons, ih]; simp [eval, Ops.bin]; ring

theorem foldl_add_eval (env : Env ℝ) (outs : List Nat) (d : Expr) :
    eval realOps env (outs.foldl (fun e l => .bin .add e (.var l)) d) = eval realOps env d + (outs.map env.var).sum := by
  induction outs generalizing d with
  | nil => simp
  | cons l t ih => rw [List.foldl_cons, ih]; simp [eval, Ops.bin]; ring

/-- value of one signed leaf -/
noncomputable def termVal (env : Env ℝ) (t : Bool × Nat × Bool) : ℝ :=
  (if t.2.2 then -1 else 1) * (if t.1 then env.param t.2.1 else env.var t.2.1)

/-- `linTerms` is sound: an expression it accepts evaluates to the signed sum of the leaves it returns -/
theorem linTerms_sound (env : Env ℝ) (e : Expr) (s : Bool) (l : List (Bool × Nat × Bool)) (h : linTerms e s = some l) :
    (if s then -1 else 1) * eval realOps env e = (l.map (termVal env)).sum := by
  induction e generalizing s l with
  | var i => simp [linTerms] at h; subst h; simp [termVal, eval]
  | param i => simp [linTerms] at h; subst h; simp [termVal, eval]
  | const q =>
    simp only [linTerms] at h
    split_ifs at h with hq
    · simp at h; subst h; subst hq; simp [eval]
  | ifElse c t e _ _ _ => simp [linTerms] at h
  | ineq b lb ub _ => simp [linTerms] at h
  | un op a ih =>
    cases op <;> simp [linTerms] at h
    have := ih (!s) l h
    rw [← this]
    cases s <;> simp [eval, Ops.un]
  | bin op a b iha ihb =>
    cases op <;> simp only [linTerms] at h
    · -- add
      cases ha : linTerms a s with
      | none => simp [ha] at h
      | some x =>
        cases hb : linTerms b s with
        | none => simp [ha, hb] at h
        | some y =>
          simp [ha, hb] at h; subst h
          rw [List.map_append, List.sum_append, ← iha s x ha, ← ihb s y hb]
          cases s <;> simp [eval, Ops.bin] <;> ring
    · -- sub
      cases ha : linTerms a s with
      | none => simp [ha] at h
      | some x =>
        cases hb : linTerms b (!s) with
        | none => simp [ha, hb] at h
        | some y =>
          simp [ha, hb] at h; subst h
          rw [List.map_append, List.sum_append, ← iha s x ha, ← ihb (!s) y hb]
          cases s <;> simp [eval, Ops.bin] <;> ring
    all_goals simp at h

/-! ### Hazen-Williams head loss as a real function -/

/-- `sgn q·k·|q|^e + c·q + sgn q·m·q²` (default approximation: `c = eps·√k`; the documented law with `c = 0`) -/
noncomputable def hwLoss (k m c e q : ℝ) : ℝ := sgn q * k * |q| ^ e + c * q + sgn q * m * q ^ 2

theorem hwLoss_zero {k m c e : ℝ} (he : e ≠ 0) : hwLoss k m c e 0 = 0 := by
  simp [hwLoss, Real.zero_rpow he]

theorem hwLoss_of_nonneg {k m c e q : ℝ} (h : 0 ≤ q) : hwLoss k m c e q = k * q ^ e + c * q + m * q ^ 2 := by
  simp [hwLoss, sgn_of_nonneg h, abs_of_nonneg h]

theorem hwLoss_of_neg {k m c e q : ℝ} (h : q < 0) : hwLoss k m c e q = -(k * (-q) ^ e + c * (-q) + m * (-q) ^ 2) := by
  simp [hwLoss, sgn_of_neg h, abs_of_neg h]; ring

/-- **odd** -/
theorem hwLoss_odd {k m c e : ℝ} (he : e ≠ 0) (q : ℝ) : hwLoss k m c e (-q) = -hwLoss k m c e q := by
  rcases lt_trichotomy q 0 with h | h | h
  · rw [hwLoss_of_nonneg (by linarith : 0 ≤ -q), hwLoss_of_neg h]; ring
  · subst h; simp [hwLoss_zero he]
  · rw [hwLoss_of_neg (by linarith : -q < 0), hwLoss_of_nonneg h.le]; simp

theorem hwLoss_strictMonoOn_nonneg {k m c e : ℝ} (hk : 0 < k) (hm : 0 ≤ m) (hc : 0 ≤ c) (he : 0 < e)
    {x y : ℝ} (hx : 0 ≤ x) (hxy : x < y) : hwLoss k m c e x < hwLoss k m c e y := by
  have hy : 0 ≤ y := le_trans hx hxy.le
  rw [hwLoss_of_nonneg hx, hwLoss_of_nonneg hy]
  have h1 : x ^ e < y ^ e := Real.rpow_lt_rpow hx hxy he
  have h2 : c * x ≤ c * y := mul_le_mul_of_nonneg_left hxy.le hc
  have h3 : m * x ^ 2 ≤ m * y ^ 2 := by
    apply mul_le_mul_of_nonneg_left _ hm
    nlinarith
  nlinarith

theorem hwLoss_pos {k m c e : ℝ} (hk : 0 < k) (hm : 0 ≤ m) (hc : 0 ≤ c) (he : 0 < e) {y : ℝ} (hy : 0 < y) :
    0 < hwLoss k m c e y := by
  have := hwLoss_strictMonoOn_nonneg hk hm hc he le_rfl hy
  rwa [hwLoss_zero he.ne'] at this

/-- **strictly increasing** on the whole line for `k > 0`, `m ≥ 0`, `c ≥ 0`, exponent `e > 0` -/
theorem hwLoss_strictMono {k m c e : ℝ} (hk : 0 < k) (hm : 0 ≤ m) (hc : 0 ≤ c) (he : 0 < e) :
    StrictMono (hwLoss k m c e) := by
  intro x y hxy
  rcases le_or_gt 0 x with hx | hx
  · exact hwLoss_strictMonoOn_nonneg hk hm hc he hx hxy
  · rcases le_or_gt y 0 with hy | hy
    · have := hwLoss_strictMonoOn_nonneg hk hm hc he (neg_nonneg.2 hy) (neg_lt_neg hxy)
      rw [hwLoss_odd he.ne', hwLoss_odd he.ne'] at this
      linarith
    · have h1 := hwLoss_pos hk hm hc he (neg_pos.2 hx)
      rw [hwLoss_odd he.ne'] at h1
      have h2 := hwLoss_pos hk hm hc he hy
      linarith

end Wntr.LinkRows
