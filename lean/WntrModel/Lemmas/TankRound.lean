/-
`np.round(·, 10)` as modelled (`round10`, round-half-even) is monotone; hence a level condition that does NOT hold puts the
value strictly on the other side of the threshold.
-/
import WntrModel.Model.Tank
import Mathlib.Tactic.Ring
import Mathlib.Tactic.Linarith
import Mathlib.Tactic.SplitIfs
import Mathlib.Algebra.Order.Field.Rat
namespace Wntr.Tank

theorem rintHE_bounds (x : Rat) : x.floor ≤ rintHE x ∧ rintHE x ≤ x.floor + 1 := by
  unfold rintHE
  simp only
  split_ifs <;> constructor <;> omega

theorem rintHE_mono {x y : Rat} (h : x ≤ y) : rintHE x ≤ rintHE y := by
  have hf : x.floor ≤ y.floor := Rat.floor_monotone h
  rcases lt_or_eq_of_le hf with hlt | heq
  · have := (rintHE_bounds x).2
    have := (rintHE_bounds y).1
    omega
  · have hr : x - (x.floor : Rat) ≤ y - (y.floor : Rat) := by rw [heq]; linarith
    unfold rintHE
    simp only
    rw [heq] at hr ⊢
    split_ifs <;> first | omega | (exfalso; linarith)

theorem round10_mono {x y : Rat} (h : x ≤ y) : round10 x ≤ round10 y := by
  unfold round10
  have h1 : x * 10000000000 ≤ y * 10000000000 := by linarith
  have h2 : (rintHE (x * 10000000000) : Rat) ≤ (rintHE (y * 10000000000) : Rat) := by exact_mod_cast rintHE_mono h1
  exact div_le_div_of_nonneg_right h2 (by norm_num)

/-- `value ≤ θ` does not hold (as the code compares, on rounded operands) ⇒ the value is strictly above θ -/
theorem not_holds_le {a b : Rat} (h : Rel.le.holds a b = false) : b < a := by
  by_contra hh
  have := round10_mono (not_lt.mp hh)
  simp [Rel.holds] at h
  linarith

/-- `value ≥ θ` does not hold ⇒ the value is strictly below θ -/
theorem not_holds_ge {a b : Rat} (h : Rel.ge.holds a b = false) : a < b := by
  by_contra hh
  have := round10_mono (not_lt.mp hh)
  simp [Rel.holds] at h
  linarith

end Wntr.Tank
