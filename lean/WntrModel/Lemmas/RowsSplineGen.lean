/-
`cubic_spline` AS GENERATED from wntr/utils/polynomial_interpolation.py (Gen/RowsC07.lean) is the Hermite
interpolant: value and slope at both ends, for every x1 ≠ x2.
-/
import WntrModel.Lemmas.RowsSpline
import WntrModel.Gen.RowsC07

namespace Wntr.Rows
open Wntr.Aml

theorem spline_den_eq (x1 x2 : ℝ) : x2 ^ 3 - x1 ^ 3 + 3 * x1 * x2 * (x1 - x2) = (x2 - x1) ^ 3 := by ring

theorem spline_den_ne {x1 x2 : ℝ} (hne : x1 ≠ x2) : x2 ^ 3 - x1 ^ 3 + 3 * x1 * x2 * (x1 - x2) ≠ 0 := by
  have : x2 ^ 3 - x1 ^ 3 + 3 * x1 * x2 * (x1 - x2) = (x2 - x1) ^ 3 := by ring
  rw [this]; exact pow_ne_zero _ (sub_ne_zero.2 hne.symm)

/-- the generated `cubic_spline` evaluated at `x` equals the Hermite form -/
theorem cubicSpline_eq_hermite {x1 x2 : ℝ} (hne : x1 ≠ x2) (f1 f2 df1 df2 x : ℝ) :
    cubic realOps (GenC07.cubicSpline realOps x1 x2 f1 f2 df1 df2) x = hermite x1 x2 f1 f2 df1 df2 x := by
  have h3 := spline_den_ne hne
  have h1 : x1 - x2 ≠ 0 := sub_ne_zero.2 hne
  have h2 : x2 - x1 ≠ 0 := sub_ne_zero.2 hne.symm
  rw [cubic_real]
  simp only [GenC07.cubicSpline, poly3, hermite, realOps_add, realOps_sub, realOps_mul, realOps_div, realOps_pow,
    realOps_ofRat, rpow_three, rpow_two]
  push_cast
  rw [spline_den_eq, show x1 - x2 = -(x2 - x1) by ring]
  field_simp
  ring

/-- slope of the generated spline polynomial -/
noncomputable def splineSlope (x1 x2 f1 f2 df1 df2 x : ℝ) : ℝ :=
  let co := GenC07.cubicSpline realOps x1 x2 f1 f2 df1 df2
  dpoly3 co.1 co.2.1 co.2.2.1 x

theorem cubicSpline_slope_left {x1 x2 : ℝ} (hne : x1 ≠ x2) (f1 f2 df1 df2 : ℝ) :
    splineSlope x1 x2 f1 f2 df1 df2 x1 = df1 := by
  have h3 := spline_den_ne hne
  have h1 : x1 - x2 ≠ 0 := sub_ne_zero.2 hne
  simp only [splineSlope, GenC07.cubicSpline, dpoly3, realOps_add, realOps_sub, realOps_mul, realOps_div, realOps_pow,
    realOps_ofRat, rpow_three, rpow_two]
  push_cast
  rw [spline_den_eq, show x1 - x2 = -(x2 - x1) by ring]
  field_simp
  ring

theorem cubicSpline_slope_right {x1 x2 : ℝ} (hne : x1 ≠ x2) (f1 f2 df1 df2 : ℝ) :
    splineSlope x1 x2 f1 f2 df1 df2 x2 = df2 := by
  have h3 := spline_den_ne hne
  have h1 : x1 - x2 ≠ 0 := sub_ne_zero.2 hne
  simp only [splineSlope, GenC07.cubicSpline, dpoly3, realOps_add, realOps_sub, realOps_mul, realOps_div, realOps_pow,
    realOps_ofRat, rpow_three, rpow_two]
  push_cast
  rw [spline_den_eq, show x1 - x2 = -(x2 - x1) by ring]
  field_simp
  ring

end Wntr.Rows
