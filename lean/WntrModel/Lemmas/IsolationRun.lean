/-
Lemmas for C09, run level: every row `save_results` records shows exactly the cut-off junctions (by the REPORTED statuses) as zero,
for every list of passes / legs of `run_sim` (Model/IsolationRun.lean).
-/
import WntrModel.Model.IsolationRun
import WntrModel.Lemmas.IsolationSim

namespace Wntr.Isolation

def ActsOk (net : Net) (as : List ActRec) : Prop := ∀ a ∈ as, a.2.1 < net.nl
def PassOk (net : Net) (p : Pass) : Prop := ActsOk net p.pre ∧ ActsOk net p.post

/-- a reported row shows as zero exactly the junctions without a path of non-Closed links (by the row's own statuses) to a tank
or reservoir, and exactly the links incident to such a junction -/
def RowOk (net : Net) (r : Row) : Prop :=
  (∀ v, r.isoJ.getD v false = true ↔ v < net.n ∧ ¬ Connected net (fun k => r.status.getD k 0) v) ∧
  (∀ l, r.isoL.getD l false = true ↔
    l < net.nl ∧ ∃ j, j < net.n ∧ ¬ Connected net (fun k => r.status.getD k 0) j ∧ l ∈ net.linksOf j)

theorem adj_congr {net : Net} {st st' : Nat → Nat} (h : ∀ k, k < net.nl → st k = st' k) {u v : Nat}
    (ha : Adj net st u v) : Adj net st' u v := by
  obtain ⟨k, hk, he, hs⟩ := ha
  exact ⟨k, hk, he, by rw [← h k hk]; exact hs⟩

theorem connected_congr {net : Net} {st st' : Nat → Nat} (h : ∀ k, k < net.nl → st k = st' k) (v : Nat) :
    Connected net st v ↔ Connected net st' v := by
  constructor
  · rintro ⟨s, hs, hp⟩
    exact ⟨s, hs, rtg_mono (fun a b hab => adj_congr h hab) hp⟩
  · rintro ⟨s, hs, hp⟩
    exact ⟨s, hs, rtg_mono (fun a b hab => adj_congr (fun k hk => (h k hk).symm) hab) hp⟩

theorem applyActs_frame (s : Sim) (as : List ActRec) :
    (applyActs s as).net = s.net ∧ (applyActs s as).prev = s.prev ∧ (applyActs s as).isoJ = s.isoJ ∧
    (applyActs s as).isoL = s.isoL := by
  unfold applyActs
  induction as generalizing s with
  | nil => exact ⟨rfl, rfl, rfl, rfl⟩
  | cons a as ih =>
    rw [List.foldl_cons]
    obtain ⟨f1, _, _, _, f5, f6, f7, _, _⟩ := act_frame s a.1 a.2.1 a.2.2
    obtain ⟨i1, i2, i3, i4⟩ := ih (act s a.1 a.2.1 a.2.2)
    exact ⟨i1.trans f1, i2.trans f5, i3.trans f6, i4.trans f7⟩

theorem good_applyActs {s : Sim} (h : Good s) (as : List ActRec) (has : ActsOk s.net as) : Good (applyActs s as) := by
  unfold applyActs
  induction as generalizing s with
  | nil => exact h
  | cons a as ih =>
    rw [List.foldl_cons]
    apply ih (good_act h a.1 a.2.1 a.2.2 (has a List.mem_cons_self))
    intro b hb
    rw [(act_frame s a.1 a.2.1 a.2.2).1]
    exact has b (List.mem_cons_of_mem _ hb)

theorem statuses_getD (s : Sim) (k : Nat) (hk : k < s.net.nl) : s.statuses.getD k 0 = s.status k :=
  getD_map_range s.status _ k hk

/-- one pass keeps the invariant, and the row it reports (if any) is right -/
theorem runPass_ok {s : Sim} (h : Good s) (p : Pass) (hp : PassOk s.net p) :
    Good (runPass s p).1 ∧ (runPass s p).1.net = s.net ∧ ∀ r, (runPass s p).2 = some r → RowOk s.net r := by
  have g1 := good_applyActs h p.pre hp.1
  have n1 : (applyActs s p.pre).net = s.net := (applyActs_frame s p.pre).1
  obtain ⟨gu, su⟩ := good_update g1
  obtain ⟨g2, _, hJ, hL⟩ := good_isolated gu su
  have n2 : (prepareSolve (applyActs s p.pre)).net = s.net := n1
  have nu : (updateGraph (applyActs s p.pre)).net = s.net := n1
  have g3 := good_applyActs (s := prepareSolve (applyActs s p.pre)) g2 p.post (by rw [n2]; exact hp.2)
  obtain ⟨f1, f2, f3, f4⟩ := applyActs_frame (prepareSolve (applyActs s p.pre)) p.post
  have n3 : (applyActs (prepareSolve (applyActs s p.pre)) p.post).net = s.net := f1.trans n2
  unfold runPass
  dsimp only
  split
  · rename_i hch
    refine ⟨g3, n3, ?_⟩
    intro r hr
    -- no change since the update before the solve: the reported statuses are the ones the flags were computed from
    have hsame : ∀ k, k < s.net.nl →
        (applyActs (prepareSolve (applyActs s p.pre)) p.post).status k = (applyActs s p.pre).status k := by
      intro k hk
      apply Classical.byContradiction
      intro hne
      have hprev : (applyActs (prepareSolve (applyActs s p.pre)) p.post).prev.getD k 0 = (applyActs s p.pre).status k := by
        rw [f2]
        show ((List.range (applyActs s p.pre).net.links.length).map (applyActs s p.pre).status).getD k 0 = _
        exact getD_map_range _ _ k (by rw [n1]; exact hk)
      have := g3.track k (by rw [n3]; exact hk) (by rw [hprev]; exact hne)
      rw [List.isEmpty_iff.mp hch] at this
      cases this
    split at hr
    · cases hr
      have hst : ∀ k, k < s.net.nl →
          (applyActs s p.pre).status k =
            (applyActs (prepareSolve (applyActs s p.pre)) p.post).statuses.getD k 0 := by
        intro k hk
        rw [statuses_getD _ k (by rw [n3]; exact hk), hsame k hk]
      constructor
      · intro v
        show (applyActs (prepareSolve (applyActs s p.pre)) p.post).isoJ.getD v false = true ↔ _
        rw [f3]
        have := hJ v
        rw [nu] at this
        rw [show (prepareSolve (applyActs s p.pre)).isoJ = (getIsolated (updateGraph (applyActs s p.pre))).isoJ from rfl, this]
        have hc := connected_congr (net := s.net) hst v
        have e : (updateGraph (applyActs s p.pre)).status = (applyActs s p.pre).status := rfl
        rw [e, hc]
      · intro l
        show (applyActs (prepareSolve (applyActs s p.pre)) p.post).isoL.getD l false = true ↔ _
        rw [f4]
        have := hL l
        rw [nu] at this
        rw [show (prepareSolve (applyActs s p.pre)).isoL = (getIsolated (updateGraph (applyActs s p.pre))).isoL from rfl, this]
        have e : (updateGraph (applyActs s p.pre)).status = (applyActs s p.pre).status := rfl
        rw [e]
        constructor
        · rintro ⟨a, j, hj, hc, hm⟩
          exact ⟨a, j, hj, fun c => hc ((connected_congr (net := s.net) hst j).mpr c), hm⟩
        · rintro ⟨a, j, hj, hc, hm⟩
          exact ⟨a, j, hj, fun c => hc ((connected_congr (net := s.net) hst j).mp c), hm⟩
    · cases hr
  · refine ⟨(good_update g3).1, n3, ?_⟩
    intro r hr; cases hr

theorem runPasses_ok {s : Sim} (h : Good s) (ps : List Pass) (hps : ∀ p ∈ ps, PassOk s.net p) :
    Good (runPasses s ps).1 ∧ (runPasses s ps).1.net = s.net ∧ ∀ r ∈ (runPasses s ps).2, RowOk s.net r := by
  induction ps generalizing s with
  | nil => exact ⟨h, rfl, fun r hr => by cases hr⟩
  | cons p ps ih =>
    obtain ⟨g1, n1, r1⟩ := runPass_ok h p (hps p List.mem_cons_self)
    obtain ⟨g2, n2, r2⟩ := ih g1 (by intro q hq; rw [n1]; exact hps q (List.mem_cons_of_mem _ hq))
    unfold runPasses
    dsimp only
    refine ⟨g2, n2.trans n1, ?_⟩
    intro r hr
    rcases List.mem_append.mp hr with hr | hr
    · cases hopt : (runPass s p).2 with
      | none => rw [hopt] at hr; cases hr
      | some r0 =>
        rw [hopt] at hr
        have : r = r0 := by simpa using hr
        subst this
        exact r1 r hopt
    · have := r2 r hr
      rw [n1] at this
      exact this

/-- the wellformedness of the flags a network carries when `run_sim` starts -/
structure FlagsWf (s : Sim) : Prop where
  lenJ : s.isoJ.length = s.net.n
  lenL : s.isoL.length = s.net.nl
  src : ∀ v ∈ s.net.sources, s.isoJ.getD v false = false

theorem Good.flagsWf {s : Sim} (h : Good s) : FlagsWf s := ⟨h.flagsJ.1, h.flagsL.1, h.srcOk⟩

theorem runLegs_ok {s : Sim} (hw : FlagsWf s) (hinit : InitOk s.net) (legs : List (List Pass))
    (hl : ∀ l ∈ legs, ∀ p ∈ l, PassOk s.net p) :
    FlagsWf (runLegs s legs).1 ∧ (runLegs s legs).1.net = s.net ∧ ∀ r ∈ (runLegs s legs).2, RowOk s.net r := by
  induction legs generalizing s with
  | nil => exact ⟨hw, rfl, fun r hr => by cases hr⟩
  | cons l ls ih =>
    have g0 := (good_restart hw.lenJ hw.lenL hw.src hinit).1
    have n0 : (startRun s).2.net = s.net := rfl
    obtain ⟨g1, n1, r1⟩ := runPasses_ok g0 l (by intro p hp; rw [n0]; exact hl l List.mem_cons_self p hp)
    have n1' : (runPasses (startRun s).2 l).1.net = s.net := n1.trans n0
    obtain ⟨w2, n2, r2⟩ := ih (s := (runPasses (startRun s).2 l).1) g1.flagsWf (by rw [n1']; exact hinit)
      (by intro l' hl' p hp; rw [n1']; exact hl l' (List.mem_cons_of_mem _ hl') p hp)
    unfold runLegs
    dsimp only
    refine ⟨w2, n2.trans n1', ?_⟩
    intro r hr
    rcases List.mem_append.mp hr with hr | hr
    · exact r1 r hr
    · have := r2 r hr
      rw [n1'] at this
      exact this

end Wntr.Isolation
