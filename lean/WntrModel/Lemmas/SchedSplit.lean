/- Splitting a run of M5 `Sched` at a pause (used by Props/C10): the pre-solve scheduler does not read the duration,
   the rule log is a ghost, the result log only grows at its end, and a run to `T` is the run to `t1 ≤ T` followed by
   the continuation from the state the first part left. -/
import WntrModel.Lemmas.Sched

namespace Wntr.Sched

/-! ### the duration is read only by the stop test of the outer loop -/

/-- `wn.options.time.duration = d` -/
def Cfg.withDuration (cfg : Cfg) (d : Int) : Cfg := { cfg with duration := d }

@[simp] theorem withDuration_duration (cfg : Cfg) (d : Int) : (cfg.withDuration d).duration = d := rfl
@[simp] theorem withDuration_rule (cfg : Cfg) (d : Int) : (cfg.withDuration d).rule = cfg.rule := rfl
@[simp] theorem withDuration_hyd (cfg : Cfg) (d : Int) : (cfg.withDuration d).hyd = cfg.hyd := rfl

theorem loopStep_dur (cfg : Cfg) (d : Int) (ref : Vals) (due : List Due) (cnt : Nat) (s : St) :
    loopStep (cfg.withDuration d) ref due cnt s = loopStep cfg ref due cnt s := rfl

theorem presolveLoop_dur (cfg : Cfg) (d : Int) (ref : Vals) (due : List Due) (fuel cnt : Nat) (s : St) :
    presolveLoop (cfg.withDuration d) ref due fuel cnt s = presolveLoop cfg ref due fuel cnt s := by
  induction fuel generalizing cnt s with
  | zero => rfl
  | succ n ih =>
    rw [presolveLoop_succ, presolveLoop_succ, loopStep_dur]
    cases loopStep cfg ref due cnt s with
    | done s' => rfl
    | cont c s' => exact ih c s'

theorem presolve_dur (cfg : Cfg) (d : Int) (first : Bool) (s : St) :
    presolve (cfg.withDuration d) first s = presolve cfg first s := by
  rw [presolve_eq, presolve_eq, presolveLoop_dur]; rfl

theorem stepOnce_dur (cfg : Cfg) (d : Int) (first : Bool) (s : St) :
    stepOnce (cfg.withDuration d) first s = stepOnce cfg first s := by
  unfold stepOnce
  rw [presolve_dur]; rfl

theorem Inv.dur {cfg : Cfg} {s : St} (d : Int) (h : Inv cfg s) : Inv (cfg.withDuration d) s := ⟨h.lt, h.hi, h.lo, h.rl⟩
theorem Inv.undur {cfg : Cfg} {s : St} {d : Int} (h : Inv (cfg.withDuration d) s) : Inv cfg s := ⟨h.lt, h.hi, h.lo, h.rl⟩
theorem Ran.undur {cfg : Cfg} {s : St} {d : Int} (h : Ran (cfg.withDuration d) s) : Ran cfg s :=
  ⟨h.inv.undur, h.iter, h.sim_le, h.grid⟩

/-! ### the rule log is a ghost -/

def St.prepend (L : List Int) (s : St) : St := { s with ruleLog := L ++ s.ruleLog }

def StepRes.mapSt (f : St → St) : StepRes → StepRes
  | .done s => .done (f s)
  | .cont c s => .cont c (f s)

theorem evalRulesAt_prepend (cfg : Cfg) (r : Int) (s : St) (L : List Int) :
    evalRulesAt cfg r (s.prepend L) = (evalRulesAt cfg r s).prepend L := by
  simp [evalRulesAt, runRules, St.prepend, List.append_assoc]

@[simp] theorem prepend_simTime (L : List Int) (s : St) : (s.prepend L).simTime = s.simTime := rfl
@[simp] theorem prepend_prevTime (L : List Int) (s : St) : (s.prepend L).prevTime = s.prevTime := rfl
@[simp] theorem prepend_ruleIter (L : List Int) (s : St) : (s.prepend L).ruleIter = s.ruleIter := rfl
@[simp] theorem prepend_vals (L : List Int) (s : St) : (s.prepend L).vals = s.vals := rfl

theorem loopStep_prepend (cfg : Cfg) (ref : Vals) (due : List Due) (cnt : Nat) (s : St) (L : List Int) :
    loopStep cfg ref due cnt (s.prepend L) = (loopStep cfg ref due cnt s).mapSt (St.prepend L) := by
  unfold loopStep
  simp only [prepend_simTime, prepend_ruleIter, prepend_vals, evalRulesAt_prepend]
  by_cases hc : cnt < due.length ∨ s.ruleIter * cfg.rule ≤ s.simTime
  · simp only [if_pos hc]
    cases hd : due[cnt]? with
    | none =>
      simp only
      by_cases hch : changed ref (evalRulesAt cfg (s.ruleIter * cfg.rule) s).vals = true
      · simp [hch, StepRes.mapSt, St.prepend]
      · simp [hch, StepRes.mapSt, St.prepend]
    | some d =>
      simp only
      by_cases h1 : s.simTime - d.back < s.ruleIter * cfg.rule
      · simp only [if_pos h1]
        by_cases hch : changed ref (runGroup due cnt d.back s.vals (due.length + 1)).1 = true
        · simp [hch, StepRes.mapSt, St.prepend]
        · simp [hch, StepRes.mapSt, St.prepend]
      · simp only [if_neg h1]
        by_cases h2 : s.simTime - d.back = s.ruleIter * cfg.rule
        · simp only [if_pos h2]
          by_cases hch : changed ref (runGroup due cnt d.back (evalRulesAt cfg (s.simTime - d.back) s).vals (due.length + 1)).1 = true
          · simp [hch, StepRes.mapSt, St.prepend]
          · simp [hch, StepRes.mapSt, St.prepend]
        · simp only [if_neg h2]
          by_cases hch : changed ref (evalRulesAt cfg (s.ruleIter * cfg.rule) s).vals = true
          · simp [hch, StepRes.mapSt, St.prepend]
          · simp [hch, StepRes.mapSt, St.prepend]
  · simp only [if_neg hc]; rfl

theorem presolveLoop_prepend (cfg : Cfg) (ref : Vals) (due : List Due) (fuel cnt : Nat) (s : St) (L : List Int) :
    presolveLoop cfg ref due fuel cnt (s.prepend L) = (presolveLoop cfg ref due fuel cnt s).prepend L := by
  induction fuel generalizing cnt s with
  | zero => rfl
  | succ n ih =>
    rw [presolveLoop_succ, presolveLoop_succ, loopStep_prepend]
    cases loopStep cfg ref due cnt s with
    | done s' => rfl
    | cont c s' => exact ih c s'

theorem presolve_prepend (cfg : Cfg) (first : Bool) (s : St) (L : List Int) :
    presolve cfg first (s.prepend L) = (presolve cfg first s).prepend L := by
  rw [presolve_eq, presolve_eq]
  exact presolveLoop_prepend cfg s.vals (presolveDue cfg first s) _ 0 s L

theorem stepOnce_prepend (cfg : Cfg) (first : Bool) (s : St) (L : List Int) :
    stepOnce cfg first (s.prepend L) = ((stepOnce cfg first s).1.prepend L, (stepOnce cfg first s).2) := by
  unfold stepOnce
  rw [presolve_prepend]; rfl

theorem runLoop_prepend (cfg : Cfg) (n : Nat) (first : Bool) (s : St) (log : List Row) (L : List Int) :
    runLoop cfg n first (s.prepend L) log = ((runLoop cfg n first s log).1.prepend L, (runLoop cfg n first s log).2) := by
  induction n generalizing first s log with
  | zero => rfl
  | succ n ih =>
    rw [runLoop_succ, runLoop_succ, stepOnce_prepend]
    have e : ((stepOnce cfg first s).1.prepend L).simTime = (stepOnce cfg first s).1.simTime := rfl
    simp only [e]
    split
    · rfl
    · exact ih false _ _

/-! ### the result log only grows at its end -/

theorem runLoop_log (cfg : Cfg) (n : Nat) (first : Bool) (s : St) (l0 log : List Row) :
    runLoop cfg n first s (l0 ++ log) = ((runLoop cfg n first s log).1, l0 ++ (runLoop cfg n first s log).2) := by
  induction n generalizing first s log with
  | zero => rfl
  | succ n ih =>
    rw [runLoop_succ, runLoop_succ]
    split
    · simp [List.append_assoc]
    · rw [List.append_assoc]; exact ih false _ _

/-! ### the run with enough fuel -/

/-- `runLoop` with just enough fuel; by `runLoop_fuel` any larger amount gives the same -/
def run (cfg : Cfg) (first : Bool) (s : St) (log : List Row) : St × List Row :=
  runLoop cfg (runMeasure cfg s + 1) first s log

theorem runLoop_eq_run {cfg : Cfg} (hR : 0 < cfg.rule) (hH : 0 < cfg.hyd) {n : Nat} {first : Bool} {s : St} (log : List Row)
    (hi : Inv cfg s) (hn : runMeasure cfg s < n) : runLoop cfg n first s log = run cfg first s log :=
  runLoop_fuel hR hH _ _ _ _ _ hi hn (by unfold runMeasure; omega)

theorem runSim_eq_run {cfg : Cfg} (hR : 0 < cfg.rule) (hH : 0 < cfg.hyd) {simTime prevTime : Int} (vals : Vals)
    (h : StartOK simTime prevTime) (hleft : ¬ NothingLeft cfg simTime) :
    runSim cfg simTime prevTime vals = run cfg (simTime == 0) (startState cfg simTime prevTime vals) [] := by
  rw [runSim_eq prevTime vals hleft]
  exact runLoop_eq_run hR hH [] (startState_inv hR vals h) (by simp only [runFuel, runMeasure]; omega)

theorem run_unfold {cfg : Cfg} (hR : 0 < cfg.rule) (hH : 0 < cfg.hyd) (first : Bool) {s : St} (log : List Row) (hi : Inv cfg s) :
    run cfg first s log =
      if (stepOnce cfg first s).1.simTime > cfg.duration then
        ((stepOnce cfg first s).1, log ++ (stepOnce cfg first s).2.toList)
      else run cfg false (stepOnce cfg first s).1 (log ++ (stepOnce cfg first s).2.toList) := by
  unfold run
  rw [runLoop_succ]
  have hs := stepOnce_stepped hR hH first hi
  split
  · rfl
  · rename_i hnot
    have h1 := hs.prev_gt; have h2 := hs.sim_gt
    exact runLoop_fuel hR hH _ _ _ _ _ hs.inv (by simp only [runMeasure] at *; omega) (by omega)

theorem run_measure_step {cfg : Cfg} (hR : 0 < cfg.rule) (hH : 0 < cfg.hyd) (first : Bool) {s : St} (hi : Inv cfg s)
    (hc : ¬ (stepOnce cfg first s).1.simTime > cfg.duration) :
    runMeasure cfg (stepOnce cfg first s).1 < runMeasure cfg s := by
  have hs := stepOnce_stepped hR hH first hi
  have h1 := hs.prev_gt; have h2 := hs.sim_gt
  simp only [runMeasure] at *; omega

/-- **a run to `T` = the run to `t1 ≤ T`, then — if that did not already pass `T` — the loop continued from the state
and log the first part left** (same simulator object, nothing re-initialised) -/
theorem run_split_loop {cfg : Cfg} (hR : 0 < cfg.rule) (hH : 0 < cfg.hyd) (t1 : Int) (ht : t1 ≤ cfg.duration) :
    ∀ k first s log, Inv cfg s → runMeasure cfg s ≤ k →
      run cfg first s log =
        if (run (cfg.withDuration t1) first s log).1.simTime > cfg.duration then run (cfg.withDuration t1) first s log
        else run cfg false (run (cfg.withDuration t1) first s log).1 (run (cfg.withDuration t1) first s log).2 := by
  intro k
  induction k with
  | zero =>
    intro first s log hi hk
    rw [run_unfold hR hH first log hi, run_unfold (cfg := cfg.withDuration t1) hR hH first log (hi.dur t1), stepOnce_dur]
    have hs := stepOnce_stepped hR hH first hi
    have h1 := hs.prev_gt; have h2 := hs.sim_gt
    have : (stepOnce cfg first s).1.simTime > cfg.duration := by simp only [runMeasure] at hk; omega
    have h' : (stepOnce cfg first s).1.simTime > (cfg.withDuration t1).duration := by simp only [withDuration_duration]; omega
    rw [if_pos this, if_pos h', if_pos this]
  | succ k ih =>
    intro first s log hi hk
    rw [run_unfold hR hH first log hi, run_unfold (cfg := cfg.withDuration t1) hR hH first log (hi.dur t1), stepOnce_dur]
    have hs := stepOnce_stepped hR hH first hi
    by_cases h1 : (stepOnce cfg first s).1.simTime > t1
    · have h' : (stepOnce cfg first s).1.simTime > (cfg.withDuration t1).duration := by simpa using h1
      rw [if_pos h']
    · have h' : ¬ (stepOnce cfg first s).1.simTime > (cfg.withDuration t1).duration := by simpa using h1
      have hT : ¬ (stepOnce cfg first s).1.simTime > cfg.duration := by omega
      rw [if_neg h', if_neg hT]
      have hm := run_measure_step hR hH first hi hT
      exact ih false _ _ hs.inv (by omega)

/-! ### facts about the state and log a run leaves -/

/-- the last pass of a run started from `s`: either the very first pass, or a pass from a state that had already
run and whose tentative time was still within the duration -/
theorem run_last {cfg : Cfg} (hR : 0 < cfg.rule) (hH : 0 < cfg.hyd) :
    ∀ k first s log, Inv cfg s → runMeasure cfg s ≤ k →
      ∃ f0 s0, Inv cfg s0 ∧ (run cfg first s log).1 = (stepOnce cfg f0 s0).1 ∧ s.prevTime ≤ s0.prevTime ∧
        (s0 = s ∨ s0.simTime ≤ cfg.duration) := by
  intro k
  induction k with
  | zero =>
    intro first s log hi hk
    rw [run_unfold hR hH first log hi]
    have hs := stepOnce_stepped hR hH first hi
    have h1 := hs.prev_gt; have h2 := hs.sim_gt
    have : (stepOnce cfg first s).1.simTime > cfg.duration := by simp only [runMeasure] at hk; omega
    rw [if_pos this]
    exact ⟨first, s, hi, rfl, le_refl _, Or.inl rfl⟩
  | succ k ih =>
    intro first s log hi hk
    rw [run_unfold hR hH first log hi]
    have hs := stepOnce_stepped hR hH first hi
    split
    · exact ⟨first, s, hi, rfl, le_refl _, Or.inl rfl⟩
    · rename_i hT
      have hm := run_measure_step hR hH first hi hT
      obtain ⟨f0, s0, h0, heq, hle, hor⟩ := ih false _ (log ++ (stepOnce cfg first s).2.toList) hs.inv (by omega)
      refine ⟨f0, s0, h0, heq, by have := hs.prev_gt; omega, Or.inr ?_⟩
      rcases hor with rfl | h
      · omega
      · exact h

theorem run_ran {cfg : Cfg} (hR : 0 < cfg.rule) (hH : 0 < cfg.hyd) (first : Bool) {s : St} (log : List Row) (hi : Inv cfg s) :
    Ran cfg (run cfg first s log).1 := runLoop_ran hR hH _ first s log hi

/-- the loop is left only when the tentative time passed the duration -/
theorem run_exit {cfg : Cfg} (hR : 0 < cfg.rule) (hH : 0 < cfg.hyd) :
    ∀ k first s log, Inv cfg s → runMeasure cfg s ≤ k → (run cfg first s log).1.simTime > cfg.duration := by
  intro k
  induction k with
  | zero =>
    intro first s log hi hk
    rw [run_unfold hR hH first log hi]
    have hs := stepOnce_stepped hR hH first hi
    have h1 := hs.prev_gt; have h2 := hs.sim_gt
    have : (stepOnce cfg first s).1.simTime > cfg.duration := by simp only [runMeasure] at hk; omega
    rw [if_pos this]; exact this
  | succ k ih =>
    intro first s log hi hk
    rw [run_unfold hR hH first log hi]
    have hs := stepOnce_stepped hR hH first hi
    split
    · assumption
    · rename_i hT
      have hm := run_measure_step hR hH first hi hT
      exact ih false _ _ hs.inv (by omega)

/-- rows: every row carries an accepted time; accepted times strictly increase -/
theorem run_rows {cfg : Cfg} (hR : 0 < cfg.rule) (hH : 0 < cfg.hyd) (first : Bool) {s : St} (hi : Inv cfg s) :
    (∀ r ∈ (run cfg first s []).2, s.prevTime < r.time ∧ r.time ≤ (run cfg first s []).1.prevTime) ∧
      ((run cfg first s []).2).Pairwise (fun a b => a.time < b.time) := by
  have := runLoop_rule hR hH
    (fun s' log => s.prevTime ≤ s'.prevTime ∧ (∀ r ∈ log, s.prevTime < r.time ∧ r.time ≤ s'.prevTime) ∧
      log.Pairwise (fun a b => a.time < b.time))
    (fun f s' log hi' hj => by
      have hs := stepOnce_stepped hR hH f hi'
      have hg := hs.prev_gt
      refine ⟨by omega, ?_, ?_⟩
      · intro r hr
        rcases List.mem_append.1 hr with hr | hr
        · have := hj.2.1 r hr; omega
        · have hrow : (stepOnce cfg f s').2 = some r := by
            cases h : (stepOnce cfg f s').2 with
            | none => rw [h] at hr; simp at hr
            | some r' => rw [h] at hr; simp only [Option.toList_some, List.mem_singleton] at hr; rw [hr]
          have := stepOnce_row hrow; omega
      · rw [List.pairwise_append]
        refine ⟨hj.2.2, ?_, ?_⟩
        · cases (stepOnce cfg f s').2 <;> simp
        · intro a ha b hb
          have hrow : (stepOnce cfg f s').2 = some b := by
            cases h : (stepOnce cfg f s').2 with
            | none => rw [h] at hb; simp at hb
            | some r' => rw [h] at hb; simp only [Option.toList_some, List.mem_singleton] at hb; rw [hb]
          have := stepOnce_row hrow; have := hj.2.1 a ha; omega)
    (runMeasure cfg s + 1) first s [] hi ⟨le_refl _, by simp, List.Pairwise.nil⟩
  exact ⟨this.2.2.1, this.2.2.2⟩

end Wntr.Sched
