/- The pre-solve loop of M5 `Sched` with rules, as a function of the list of due controls still to serve
   (`landSpecR`), and what it implies for every event time (instant of a due group / rule timestep) before the accepted
   time.  Used by Props/C04 for the general `no_instant_skipped` and the rule half of the statement. -/
import WntrModel.Lemmas.SchedLeak

namespace Wntr.Sched

/-- the values after evaluating the rules at the rule timestep `r` on values `v` (what `evalRulesAt` does to `vals`) -/
def rulesAt (cfg : Cfg) (r : Int) (v : Vals) : Vals :=
  (sortBy (fun a b => a.ctl.prio ≤ b.ctl.prio) (check cfg.startClock (ruleWindowLo cfg r) r cfg.rules)).foldl (fun v d => d.run v) v

theorem evalRulesAt_vals (cfg : Cfg) (r : Int) (s : St) : (evalRulesAt cfg r s).vals = rulesAt cfg r s.vals := rfl

/-- the loop on the list of due controls still to serve; result = (accepted time, values, `_rule_iter`) -/
def landSpecR (cfg : Cfg) (ref : Vals) (cur : Int) : Nat → Int → List Due → Vals → Int × Vals × Int
  | 0, it, _, v => (cur, v, it)
  | n + 1, it, [], v =>
    if it * cfg.rule ≤ cur then
      if changed ref (rulesAt cfg (it * cfg.rule) v) then (it * cfg.rule, rulesAt cfg (it * cfg.rule) v, it + 1)
      else landSpecR cfg ref cur n (it + 1) [] (rulesAt cfg (it * cfg.rule) v)
    else (cur, v, it)
  | n + 1, it, d :: ds, v =>
    if cur - d.back < it * cfg.rule then
      if changed ref (((d :: ds).takeWhile (fun x => x.back == d.back)).foldl (fun v x => x.run v) v) then
        (cur - d.back, ((d :: ds).takeWhile (fun x => x.back == d.back)).foldl (fun v x => x.run v) v, it)
      else landSpecR cfg ref cur n it ((d :: ds).dropWhile (fun x => x.back == d.back))
        (((d :: ds).takeWhile (fun x => x.back == d.back)).foldl (fun v x => x.run v) v)
    else if cur - d.back = it * cfg.rule then
      if changed ref (((d :: ds).takeWhile (fun x => x.back == d.back)).foldl (fun v x => x.run v) (rulesAt cfg (cur - d.back) v)) then
        (cur - d.back, ((d :: ds).takeWhile (fun x => x.back == d.back)).foldl (fun v x => x.run v) (rulesAt cfg (cur - d.back) v), it + 1)
      else landSpecR cfg ref cur n (it + 1) ((d :: ds).dropWhile (fun x => x.back == d.back))
        (((d :: ds).takeWhile (fun x => x.back == d.back)).foldl (fun v x => x.run v) (rulesAt cfg (cur - d.back) v))
    else
      if changed ref (rulesAt cfg (it * cfg.rule) v) then (it * cfg.rule, rulesAt cfg (it * cfg.rule) v, it + 1)
      else landSpecR cfg ref cur n (it + 1) (d :: ds) (rulesAt cfg (it * cfg.rule) v)

/-- **the loop is `landSpecR`** (same fuel: one loop iteration per step), for ALL configurations, rules included -/
theorem presolveLoop_landSpecR (cfg : Cfg) (ref : Vals) (due : List Due) (cur : Int) :
    ∀ (fuel cnt : Nat) (s : St), s.simTime = cur →
      ((presolveLoop cfg ref due fuel cnt s).simTime, (presolveLoop cfg ref due fuel cnt s).vals, (presolveLoop cfg ref due fuel cnt s).ruleIter) =
        landSpecR cfg ref cur fuel s.ruleIter (due.drop cnt) s.vals := by
  intro fuel
  induction fuel with
  | zero => intro cnt s hsim; simp [presolveLoop_zero, landSpecR, hsim]
  | succ n ih =>
    intro cnt s hsim
    rw [presolveLoop_succ]
    unfold loopStep
    by_cases hc : cnt < due.length ∨ s.ruleIter * cfg.rule ≤ s.simTime
    · rw [if_pos hc]
      cases hd : due[cnt]? with
      | none =>
        have hlen : due.length ≤ cnt := List.getElem?_eq_none_iff.1 hd
        have hle : s.ruleIter * cfg.rule ≤ cur := by rcases hc with h | h <;> omega
        have hnil := List.drop_eq_nil_of_le hlen
        rw [hnil]
        simp only [landSpecR, if_pos hle, evalRulesAt_vals]
        by_cases hch : changed ref (rulesAt cfg (s.ruleIter * cfg.rule) s.vals) = true
        · simp only [hch, ↓reduceIte]; rfl
        · simp only [Bool.not_eq_true] at hch; simp only [hch, Bool.false_eq_true, ↓reduceIte]
          rw [← hnil]
          exact ih cnt _ hsim
      | some d =>
        have hlt : cnt < due.length := (List.getElem?_eq_some_iff.1 hd).1
        have hgrp := runGroup_eq due d.back (due.length + 1) cnt
        have hdrop := drop_of_getElem? hd
        simp only
        rw [hdrop]
        simp only [landSpecR]
        rw [← hdrop, ← drop_group, hsim]
        by_cases h1 : cur - d.back < s.ruleIter * cfg.rule
        · simp only [if_pos h1]
          rw [hgrp s.vals (by omega)]
          simp only
          by_cases hch : changed ref (((due.drop cnt).takeWhile (fun x => x.back == d.back)).foldl (fun v x => x.run v) s.vals) = true
          · simp only [hch, ↓reduceIte]
          · simp only [Bool.not_eq_true] at hch; simp only [hch, Bool.false_eq_true, ↓reduceIte]
            exact ih _ _ rfl
        · simp only [if_neg h1]
          by_cases h2 : cur - d.back = s.ruleIter * cfg.rule
          · simp only [if_pos h2, evalRulesAt_vals]
            have hg2 := hgrp (rulesAt cfg (cur - d.back) s.vals) (by omega)
            simp only [hg2]
            by_cases hch : changed ref (((due.drop cnt).takeWhile (fun x => x.back == d.back)).foldl (fun v x => x.run v) (rulesAt cfg (cur - d.back) s.vals)) = true
            · simp only [hch, ↓reduceIte]; rfl
            · simp only [Bool.not_eq_true] at hch; simp only [hch, Bool.false_eq_true, ↓reduceIte]
              exact ih _ _ (by simp only [evalRulesAt_simTime]; omega)
          · simp only [if_neg h2, evalRulesAt_vals]
            by_cases hch : changed ref (rulesAt cfg (s.ruleIter * cfg.rule) s.vals) = true
            · simp only [hch, ↓reduceIte]; rfl
            · simp only [Bool.not_eq_true] at hch; simp only [hch, Bool.false_eq_true, ↓reduceIte]
              exact ih cnt _ rfl
    · rw [if_neg hc]
      have hlen : due.length ≤ cnt := by omega
      have hgt : ¬ s.ruleIter * cfg.rule ≤ cur := by omega
      rw [List.drop_eq_nil_of_le hlen]
      simp [landSpecR, hgt, hsim]

/-! ### values up to `get` -/

theorem mem_get_of_nodup {w : Vals} (hw : NodupKeys w) {p : Nat × Int} (hp : p ∈ w) : Vals.get w p.1 = p.2 := by
  induction w with
  | nil => simp at hp
  | cons q qs ih =>
    unfold NodupKeys at hw
    simp only [List.map_cons, List.nodup_cons] at hw
    rcases List.mem_cons.1 hp with rfl | hp
    · simp [Vals.get, List.find?]
    · have hne : ¬ (q.1 == p.1) = true := by
        intro he
        have : q.1 = p.1 := by simpa using he
        exact hw.1 (this ▸ List.mem_map.2 ⟨p, hp, rfl⟩)
      have := ih hw.2 hp
      simp only [Vals.get, List.find?, hne] at this ⊢
      exact this

/-- for values with distinct keys `changed` is exactly "some key reads differently" -/
theorem changed_false_of_get {ref a : Vals} (hr : NodupKeys ref) (ha : NodupKeys a) (h : ∀ k, a.get k = ref.get k) :
    changed ref a = false := by
  unfold changed
  simp only [Bool.or_eq_false_iff, List.any_eq_false, bne_iff_ne, ne_eq, not_not]
  exact ⟨fun p hp => by rw [← h, mem_get_of_nodup ha hp], fun p hp => by rw [h, mem_get_of_nodup hr hp]⟩

def GetEq (a b : Vals) : Prop := ∀ k, a.get k = b.get k

theorem GetEq.foldl_run {a b : Vals} (h : GetEq a b) (l : List Due) :
    GetEq (l.foldl (fun v d => d.run v) a) (l.foldl (fun v d => d.run v) b) := by
  intro k
  rw [foldl_run_get, foldl_run_get, h k]

theorem GetEq.rulesAt {a b : Vals} (h : GetEq a b) (cfg : Cfg) (r : Int) : GetEq (rulesAt cfg r a) (rulesAt cfg r b) :=
  h.foldl_run _

theorem NodupKeys.rulesAt {v : Vals} (h : NodupKeys v) (cfg : Cfg) (r : Int) : NodupKeys (rulesAt cfg r v) := h.foldl_run _

theorem changed_congr {ref a b : Vals} (hr : NodupKeys ref) (ha : NodupKeys a) (hb : NodupKeys b) (h : GetEq a b) :
    changed ref a = changed ref b := by
  cases hca : changed ref a with
  | false =>
    have := changed_false_get hca hr ha
    exact (changed_false_of_get hr hb (fun k => by rw [← h k, this k])).symm
  | true =>
    cases hcb : changed ref b with
    | true => rfl
    | false =>
      have := changed_false_get hcb hr hb
      have hf := changed_false_of_get hr ha (fun k => by rw [h k, this k])
      rw [hf] at hca; exact absurd hca (by simp)

theorem getEq_of_unchanged {ref v : Vals} (hr : NodupKeys ref) (hv : NodupKeys v) (h : changed ref v = false) : GetEq v ref :=
  fun k => changed_false_get h hr hv k

/-! ### events of a pass -/

/-- the due controls whose instant is `τ` -/
def grpAt (cur : Int) (l : List Due) (τ : Int) : List Due := l.filter (fun x => cur - x.back == τ)

/-- `τ` is a rule timestep that this pass evaluates (from the iterator `it` on) -/
def isRuleAt (cfg : Cfg) (it τ : Int) : Prop := it * cfg.rule ≤ τ ∧ τ % cfg.rule = 0

instance (cfg : Cfg) (it τ : Int) : Decidable (isRuleAt cfg it τ) := by unfold isRuleAt; infer_instance

/-- what happens at the event time `τ`, computed from the values `ref` at the start of the pass: the rules of that rule
timestep (if it is one), then the due controls of that instant in priority order -/
def eventAt (cfg : Cfg) (ref : Vals) (cur it : Int) (l : List Due) (τ : Int) : Vals :=
  (grpAt cur l τ).foldl (fun v x => x.run v) (if isRuleAt cfg it τ then rulesAt cfg τ ref else ref)

theorem isRuleAt_succ {cfg : Cfg} (hR : 0 < cfg.rule) {it τ : Int} (hne : τ ≠ it * cfg.rule) :
    isRuleAt cfg (it + 1) τ ↔ isRuleAt cfg it τ := by
  unfold isRuleAt
  constructor
  · rintro ⟨h1, h2⟩
    rw [add_one_mul] at h1
    exact ⟨by omega, h2⟩
  · rintro ⟨h1, h2⟩
    refine ⟨?_, h2⟩
    have hq : τ = (τ / cfg.rule) * cfg.rule := by
      have := Int.emod_add_mul_ediv τ cfg.rule
      rw [h2] at this
      rw [mul_comm] at this; omega
    have hlt : it * cfg.rule < (τ / cfg.rule) * cfg.rule := by omega
    have : it < τ / cfg.rule := lt_of_mul_lt_mul_right hlt (le_of_lt hR)
    have h3 : (it + 1) * cfg.rule ≤ (τ / cfg.rule) * cfg.rule := Int.mul_le_mul_of_nonneg_right (by omega) (le_of_lt hR)
    omega

theorem isRuleAt_self {cfg : Cfg} (it : Int) : isRuleAt cfg it (it * cfg.rule) :=
  ⟨le_refl _, Int.mul_emod_left _ _⟩

/-- head group of a sorted list = the controls of the head's instant; the rest keeps all other instants -/
theorem head_group {cur : Int} {d0 : Due} {ds : List Due} (hs : (d0 :: ds).Pairwise (fun a b => b.back ≤ a.back)) :
    (d0 :: ds).takeWhile (fun x => x.back == d0.back) = grpAt cur (d0 :: ds) (cur - d0.back) := by
  have hmax : ∀ x ∈ d0 :: ds, x.back ≤ d0.back := by
    intro x hx
    rcases List.mem_cons.1 hx with rfl | hx
    · exact le_refl _
    · exact (List.pairwise_cons.1 hs).1 x hx
  have h1 : (d0 :: ds).takeWhile (fun x => x.back == d0.back) = (d0 :: ds).takeWhile (fun x => decide (d0.back ≤ x.back)) := by
    apply takeWhile_congr_mem
    intro x hx
    have := hmax x hx
    by_cases hx' : x.back = d0.back
    · simp [hx']
    · have : ¬ d0.back ≤ x.back := by omega
      simp [hx', this]
  rw [h1, takeWhile_ge_eq_filter _ _ hs]
  unfold grpAt
  apply List.filter_congr
  intro x hx
  have := hmax x hx
  by_cases hx' : x.back = d0.back
  · simp [hx']
  · have h2 : ¬ d0.back ≤ x.back := by omega
    have h3 : ¬ cur - x.back = cur - d0.back := by omega
    simp [h2, h3]

theorem rest_group {cur : Int} {d0 : Due} {ds : List Due} (τ : Int) (hτ : τ ≠ cur - d0.back) :
    grpAt cur ((d0 :: ds).dropWhile (fun x => x.back == d0.back)) τ = grpAt cur (d0 :: ds) τ := by
  unfold grpAt
  conv_rhs => rw [← List.takeWhile_append_dropWhile (p := fun x : Due => x.back == d0.back) (l := d0 :: ds)]
  rw [List.filter_append]
  have : ((d0 :: ds).takeWhile (fun x => x.back == d0.back)).filter (fun x => cur - x.back == τ) = [] := by
    apply List.filter_eq_nil_iff.2
    intro x hx
    have := List.mem_takeWhile_imp (p := fun x : Due => x.back == d0.back) hx
    simp only [beq_iff_eq] at this ⊢
    omega
  rw [this, List.nil_append]

theorem eventAt_succ {cfg : Cfg} (hR : 0 < cfg.rule) (ref : Vals) (cur it : Int) (l : List Due) {τ : Int} (hne : τ ≠ it * cfg.rule) :
    eventAt cfg ref cur (it + 1) l τ = eventAt cfg ref cur it l τ := by
  unfold eventAt
  by_cases h : isRuleAt cfg it τ
  · rw [if_pos h, if_pos ((isRuleAt_succ hR hne).2 h)]
  · rw [if_neg h, if_neg (fun h' => h ((isRuleAt_succ hR hne).1 h'))]

theorem eventAt_rest {cfg : Cfg} (ref : Vals) (cur it : Int) (d0 : Due) (ds : List Due) {τ : Int} (hτ : τ ≠ cur - d0.back) :
    eventAt cfg ref cur it ((d0 :: ds).dropWhile (fun x => x.back == d0.back)) τ = eventAt cfg ref cur it (d0 :: ds) τ := by
  unfold eventAt; rw [rest_group τ hτ]

/-- what `landSpecR` returns and what it implies for the events before the accepted time -/
structure Events (cfg : Cfg) (ref : Vals) (cur it : Int) (l : List Due) (res : Int × Vals × Int) : Prop where
  le : res.1 ≤ cur
  nodup : NodupKeys res.2.1
  before : ∀ τ, τ ≤ cur → (τ < res.1 ∨ changed ref res.2.1 = false) → ((∃ d ∈ l, τ = cur - d.back) ∨ isRuleAt cfg it τ) →
    changed ref (eventAt cfg ref cur it l τ) = false
  unchanged : changed ref res.2.1 = false → res.1 = cur
  landed : changed ref res.2.1 = true →
    ((∃ d ∈ l, res.1 = cur - d.back) ∨ isRuleAt cfg it res.1) ∧ GetEq res.2.1 (eventAt cfg ref cur it l res.1)

theorem landSpecR_events {cfg : Cfg} (hR : 0 < cfg.rule) {ref : Vals} (hr : NodupKeys ref) (cur : Int) :
    ∀ (n : Nat) (it : Int) (l : List Due) (v : Vals), l.Pairwise (fun a b => b.back ≤ a.back) → (∀ x ∈ l, 0 ≤ x.back) →
      NodupKeys v → changed ref v = false → l.length + (cur / cfg.rule - it + 1).toNat < n →
      Events cfg ref cur it l (landSpecR cfg ref cur n it l v) := by
  intro n
  induction n with
  | zero => intro it l v _ _ _ _ hf; omega
  | succ n ih =>
    intro it l v hs hb0 hnv hv hf
    have hgv := getEq_of_unchanged hr hnv hv
    cases l with
    | nil =>
      simp only [landSpecR]
      by_cases hle : it * cfg.rule ≤ cur
      · rw [if_pos hle]
        have hK : it ≤ cur / cfg.rule := Int.le_ediv_of_mul_le hR hle
        have hev : eventAt cfg ref cur it [] (it * cfg.rule) = rulesAt cfg (it * cfg.rule) ref := by
          unfold eventAt grpAt; rw [if_pos (isRuleAt_self it)]; rfl
        have hge : GetEq (rulesAt cfg (it * cfg.rule) v) (eventAt cfg ref cur it [] (it * cfg.rule)) := by
          rw [hev]; exact hgv.rulesAt cfg _
        by_cases hch : changed ref (rulesAt cfg (it * cfg.rule) v) = true
        · rw [if_pos hch]
          refine ⟨hle, hnv.rulesAt cfg _, ?_, fun h => by simp only at h; rw [hch] at h; exact absurd h (by simp), fun _ => ⟨Or.inr (isRuleAt_self it), hge⟩⟩
          intro τ _ hτ hev'
          have hτ := hτ.resolve_right (by simp only; rw [hch]; simp)
          rcases hev' with ⟨d, hd, _⟩ | h
          · simp at hd
          · have := h.1; simp only at hτ; omega
        · rw [if_neg hch]
          have hch' : changed ref (rulesAt cfg (it * cfg.rule) v) = false := by simpa using hch
          have IH := ih (it + 1) [] _ List.Pairwise.nil (by simp) (hnv.rulesAt cfg _) hch' (by simp only [List.length_nil] at hf ⊢; omega)
          refine ⟨IH.le, IH.nodup, ?_, IH.unchanged, ?_⟩
          · intro τ hcur hτ hev'
            by_cases hτr : τ = it * cfg.rule
            · subst hτr
              rw [← changed_congr hr (hnv.rulesAt cfg _) (by rw [hev]; exact hr.rulesAt cfg _) hge]; exact hch'
            · rw [← eventAt_succ hR ref cur it [] hτr]
              refine IH.before τ hcur hτ ?_
              rcases hev' with ⟨d, hd, _⟩ | h
              · simp at hd
              · exact Or.inr ((isRuleAt_succ hR hτr).2 h)
          · intro hc
            obtain ⟨h1, h2⟩ := IH.landed hc
            have hne : (landSpecR cfg ref cur n (it + 1) [] (rulesAt cfg (it * cfg.rule) v)).1 ≠ it * cfg.rule := by
              rcases h1 with ⟨d, hd, _⟩ | h
              · simp at hd
              · have := h.1; rw [add_one_mul] at this; omega
            rw [eventAt_succ hR ref cur it [] hne] at h2
            refine ⟨?_, h2⟩
            rcases h1 with ⟨d, hd, _⟩ | h
            · simp at hd
            · exact Or.inr ((isRuleAt_succ hR hne).1 h)
      · rw [if_neg hle]
        refine ⟨le_refl _, hnv, ?_, fun _ => rfl, fun h => by simp only at h; rw [hv] at h; exact absurd h (by simp)⟩
        intro τ hcur _ hev'
        rcases hev' with ⟨d, hd, _⟩ | h
        · simp at hd
        · have := h.1; omega
    | cons d0 ds =>
      have hmax : ∀ x ∈ d0 :: ds, x.back ≤ d0.back := by
        intro x hx
        rcases List.mem_cons.1 hx with rfl | hx
        · exact le_refl _
        · exact (List.pairwise_cons.1 hs).1 x hx
      have hd0 := hb0 d0 List.mem_cons_self
      have hrestlt := dropWhile_back_lt d0.back (d0 :: ds) hs hmax
      have hs' := hs.sublist (List.dropWhile_sublist (fun x : Due => x.back == d0.back))
      have hb0' : ∀ x ∈ (d0 :: ds).dropWhile (fun x => x.back == d0.back), 0 ≤ x.back :=
        fun x hx => hb0 x ((List.dropWhile_sublist _).subset hx)
      have hlen : ((d0 :: ds).dropWhile (fun x => x.back == d0.back)).length < (d0 :: ds).length := by
        have : ((d0 :: ds).dropWhile (fun x => x.back == d0.back)) = ds.dropWhile (fun x => x.back == d0.back) := by
          rw [List.dropWhile_cons_of_pos (by simp)]
        rw [this]
        have := (List.dropWhile_sublist (fun x : Due => x.back == d0.back) (l := ds)).length_le
        simp only [List.length_cons]; omega
      have hmem_rest : ∀ d ∈ d0 :: ds, cur - d.back ≠ cur - d0.back → d ∈ (d0 :: ds).dropWhile (fun x => x.back == d0.back) := by
        intro d hd hne
        have hsplit := List.takeWhile_append_dropWhile (p := fun x : Due => x.back == d0.back) (l := d0 :: ds)
        rw [← hsplit] at hd
        rcases List.mem_append.1 hd with h | h
        · have := List.mem_takeWhile_imp (p := fun x : Due => x.back == d0.back) h
          simp only [beq_iff_eq] at this; omega
        · exact h
      have hg := head_group (cur := cur) hs
      simp only [landSpecR]
      rw [hg]
      by_cases h1 : cur - d0.back < it * cfg.rule
      · -- the head group comes before the next rule timestep
        rw [if_pos h1]
        have hnr : ¬ isRuleAt cfg it (cur - d0.back) := fun h => by have := h.1; omega
        have hev : eventAt cfg ref cur it (d0 :: ds) (cur - d0.back) =
            (grpAt cur (d0 :: ds) (cur - d0.back)).foldl (fun v x => x.run v) ref := by unfold eventAt; rw [if_neg hnr]
        have hge : GetEq ((grpAt cur (d0 :: ds) (cur - d0.back)).foldl (fun v x => x.run v) v) (eventAt cfg ref cur it (d0 :: ds) (cur - d0.back)) := by
          rw [hev]; exact hgv.foldl_run _
        by_cases hch : changed ref ((grpAt cur (d0 :: ds) (cur - d0.back)).foldl (fun v x => x.run v) v) = true
        · rw [if_pos hch]
          refine ⟨by simp only; omega, hnv.foldl_run _, ?_, fun h => by simp only at h; rw [hch] at h; exact absurd h (by simp),
            fun _ => ⟨Or.inl ⟨d0, List.mem_cons_self, rfl⟩, hge⟩⟩
          intro τ _ hτ hev'
          have hτ := hτ.resolve_right (by simp only; rw [hch]; simp)
          simp only at hτ
          rcases hev' with ⟨d, hd, rfl⟩ | h
          · have := hmax d hd; omega
          · have := h.1; omega
        · rw [if_neg hch]
          have hch' : changed ref ((grpAt cur (d0 :: ds) (cur - d0.back)).foldl (fun v x => x.run v) v) = false := by simpa using hch
          have IH := ih it _ _ hs' hb0' (hnv.foldl_run _) hch' (by omega)
          refine ⟨IH.le, IH.nodup, ?_, IH.unchanged, ?_⟩
          · intro τ hcur hτ hev'
            by_cases hτ0 : τ = cur - d0.back
            · subst hτ0
              rw [← changed_congr hr (hnv.foldl_run _) (by unfold eventAt; rw [if_neg hnr]; exact hr.foldl_run _) hge]; exact hch'
            · rw [← eventAt_rest ref cur it d0 ds hτ0]
              refine IH.before τ hcur hτ ?_
              rcases hev' with ⟨d, hd, rfl⟩ | h
              · exact Or.inl ⟨d, hmem_rest d hd hτ0, rfl⟩
              · exact Or.inr h
          · intro hc
            obtain ⟨h1', h2⟩ := IH.landed hc
            have hne : (landSpecR cfg ref cur n it ((d0 :: ds).dropWhile (fun x => x.back == d0.back))
                ((grpAt cur (d0 :: ds) (cur - d0.back)).foldl (fun v x => x.run v) v)).1 ≠ cur - d0.back := by
              rcases h1' with ⟨d, hd, he⟩ | h
              · have := hrestlt d hd; omega
              · have := h.1; omega
            rw [eventAt_rest ref cur it d0 ds hne] at h2
            refine ⟨?_, h2⟩
            rcases h1' with ⟨d, hd, he⟩ | h
            · exact Or.inl ⟨d, (List.dropWhile_sublist _).subset hd, he⟩
            · exact Or.inr h
      · rw [if_neg h1]
        by_cases h2 : cur - d0.back = it * cfg.rule
        · -- the head group coincides with the next rule timestep: rules first, then the group
          rw [if_pos h2]
          have hisr : isRuleAt cfg it (cur - d0.back) := h2 ▸ isRuleAt_self it
          have hK : it ≤ cur / cfg.rule := Int.le_ediv_of_mul_le hR (by omega)
          have hev : eventAt cfg ref cur it (d0 :: ds) (cur - d0.back) =
              (grpAt cur (d0 :: ds) (cur - d0.back)).foldl (fun v x => x.run v) (rulesAt cfg (cur - d0.back) ref) := by
            unfold eventAt; rw [if_pos hisr]
          have hge : GetEq ((grpAt cur (d0 :: ds) (cur - d0.back)).foldl (fun v x => x.run v) (rulesAt cfg (cur - d0.back) v))
              (eventAt cfg ref cur it (d0 :: ds) (cur - d0.back)) := by
            rw [hev]; exact (hgv.rulesAt cfg _).foldl_run _
          by_cases hch : changed ref ((grpAt cur (d0 :: ds) (cur - d0.back)).foldl (fun v x => x.run v) (rulesAt cfg (cur - d0.back) v)) = true
          · rw [if_pos hch]
            refine ⟨by simp only; omega, (hnv.rulesAt cfg _).foldl_run _, ?_, fun h => by simp only at h; rw [hch] at h; exact absurd h (by simp),
              fun _ => ⟨Or.inl ⟨d0, List.mem_cons_self, rfl⟩, hge⟩⟩
            intro τ _ hτ hev'
            have hτ := hτ.resolve_right (by simp only; rw [hch]; simp)
            simp only at hτ
            rcases hev' with ⟨d, hd, rfl⟩ | h
            · have := hmax d hd; omega
            · have := h.1; omega
          · rw [if_neg hch]
            have hch' : changed ref ((grpAt cur (d0 :: ds) (cur - d0.back)).foldl (fun v x => x.run v) (rulesAt cfg (cur - d0.back) v)) = false := by simpa using hch
            have IH := ih (it + 1) _ _ hs' hb0' ((hnv.rulesAt cfg _).foldl_run _) hch' (by omega)
            refine ⟨IH.le, IH.nodup, ?_, IH.unchanged, ?_⟩
            · intro τ hcur hτ hev'
              by_cases hτ0 : τ = cur - d0.back
              · subst hτ0
                rw [← changed_congr hr ((hnv.rulesAt cfg _).foldl_run _) (by rw [hev]; exact (hr.rulesAt cfg _).foldl_run _) hge]; exact hch'
              · have hτr : τ ≠ it * cfg.rule := by omega
                rw [← eventAt_rest ref cur it d0 ds hτ0, ← eventAt_succ hR ref cur it _ hτr]
                refine IH.before τ hcur hτ ?_
                rcases hev' with ⟨d, hd, rfl⟩ | h
                · exact Or.inl ⟨d, hmem_rest d hd hτ0, rfl⟩
                · exact Or.inr ((isRuleAt_succ hR hτr).2 h)
            · intro hc
              obtain ⟨h1', h2'⟩ := IH.landed hc
              have hne : (landSpecR cfg ref cur n (it + 1) ((d0 :: ds).dropWhile (fun x => x.back == d0.back))
                  ((grpAt cur (d0 :: ds) (cur - d0.back)).foldl (fun v x => x.run v) (rulesAt cfg (cur - d0.back) v))).1 ≠ cur - d0.back := by
                rcases h1' with ⟨d, hd, he⟩ | h
                · have := hrestlt d hd; omega
                · have := h.1; rw [add_one_mul] at this; omega
              have hner : (landSpecR cfg ref cur n (it + 1) ((d0 :: ds).dropWhile (fun x => x.back == d0.back))
                  ((grpAt cur (d0 :: ds) (cur - d0.back)).foldl (fun v x => x.run v) (rulesAt cfg (cur - d0.back) v))).1 ≠ it * cfg.rule := by omega
              rw [eventAt_succ hR ref cur it _ hner, eventAt_rest ref cur it d0 ds hne] at h2'
              refine ⟨?_, h2'⟩
              rcases h1' with ⟨d, hd, he⟩ | h
              · exact Or.inl ⟨d, (List.dropWhile_sublist _).subset hd, he⟩
              · exact Or.inr ((isRuleAt_succ hR hner).1 h)
        · -- a rule timestep strictly before the head group
          rw [if_neg h2]
          have hlt : it * cfg.rule < cur - d0.back := by omega
          have hK : it ≤ cur / cfg.rule := Int.le_ediv_of_mul_le hR (by omega)
          have hgrp0 : grpAt cur (d0 :: ds) (it * cfg.rule) = [] := by
            unfold grpAt
            apply List.filter_eq_nil_iff.2
            intro x hx
            have := hmax x hx
            simp only [beq_iff_eq]; omega
          have hev : eventAt cfg ref cur it (d0 :: ds) (it * cfg.rule) = rulesAt cfg (it * cfg.rule) ref := by
            unfold eventAt; rw [if_pos (isRuleAt_self it), hgrp0]; rfl
          have hge : GetEq (rulesAt cfg (it * cfg.rule) v) (eventAt cfg ref cur it (d0 :: ds) (it * cfg.rule)) := by
            rw [hev]; exact hgv.rulesAt cfg _
          by_cases hch : changed ref (rulesAt cfg (it * cfg.rule) v) = true
          · rw [if_pos hch]
            refine ⟨by simp only; omega, hnv.rulesAt cfg _, ?_, fun h => by simp only at h; rw [hch] at h; exact absurd h (by simp),
              fun _ => ⟨Or.inr (isRuleAt_self it), hge⟩⟩
            intro τ _ hτ hev'
            have hτ := hτ.resolve_right (by simp only; rw [hch]; simp)
            simp only at hτ
            rcases hev' with ⟨d, hd, rfl⟩ | h
            · have := hmax d hd; omega
            · have := h.1; omega
          · rw [if_neg hch]
            have hch' : changed ref (rulesAt cfg (it * cfg.rule) v) = false := by simpa using hch
            have IH := ih (it + 1) (d0 :: ds) _ hs hb0 (hnv.rulesAt cfg _) hch' (by omega)
            refine ⟨IH.le, IH.nodup, ?_, IH.unchanged, ?_⟩
            · intro τ hcur hτ hev'
              by_cases hτr : τ = it * cfg.rule
              · subst hτr
                rw [← changed_congr hr (hnv.rulesAt cfg _) (by rw [hev]; exact hr.rulesAt cfg _) hge]; exact hch'
              · rw [← eventAt_succ hR ref cur it _ hτr]
                refine IH.before τ hcur hτ ?_
                rcases hev' with ⟨d, hd, rfl⟩ | h
                · exact Or.inl ⟨d, hd, rfl⟩
                · exact Or.inr ((isRuleAt_succ hR hτr).2 h)
            · intro hc
              obtain ⟨h1', h2'⟩ := IH.landed hc
              have hner : (landSpecR cfg ref cur n (it + 1) (d0 :: ds) (rulesAt cfg (it * cfg.rule) v)).1 ≠ it * cfg.rule := by
                rcases h1' with ⟨d, hd, he⟩ | h
                · have := hmax d hd; omega
                · have := h.1; rw [add_one_mul] at this; omega
              rw [eventAt_succ hR ref cur it _ hner] at h2'
              refine ⟨?_, h2'⟩
              rcases h1' with h | h
              · exact Or.inl h
              · exact Or.inr ((isRuleAt_succ hR hner).1 h)

/-! ### one pass, all configurations -/

/-- **the events of a pass** (any controls, any rules): with `ref` = the values at the start of the pass, every event time
(instant of a due control, rule timestep from `_rule_iter` on) strictly before the accepted time left all tracked values
as they were; the pass is cut short only by an event that changes something, and then the values are those of that
event (rules of the rule timestep first, then the due controls of the instant in priority order) -/
theorem presolve_events {cfg : Cfg} (hR : 0 < cfg.rule) {s : St} (inv : Inv cfg s) (hnd : NodupKeys s.vals) :
    Events cfg s.vals s.simTime s.ruleIter (presolveDue cfg false s)
      ((presolve cfg false s).simTime, (presolve cfg false s).vals, (presolve cfg false s).ruleIter) := by
  rw [presolve_eq]
  have heq := presolveLoop_landSpecR cfg s.vals (presolveDue cfg false s) s.simTime
    (presolveFuel cfg (presolveDue cfg false s) s) 0 s rfl
  rw [List.drop_zero] at heq
  rw [heq]
  have hs : (presolveDue cfg false s).Pairwise (fun a b => b.back ≤ a.back) := by
    unfold presolveDue; simp only [Bool.false_eq_true, if_false]; exact sortDue_sorted _
  exact landSpecR_events hR hnd s.simTime _ _ _ _ hs (fun x hx => (presolveDue_mem inv.lt hx).2.1) hnd (changed_self _ hnd)
    (by simp only [presolveFuel]; omega)

/-- the value an event leaves on a key: the highest-priority writer among the controls due at that instant (ties: the
later registered), else what the rules of that rule timestep left, else the value at the start of the pass -/
theorem eventAt_get (cfg : Cfg) (s : St) (τ : Int) (k : Nat) :
    (eventAt cfg s.vals s.simTime s.ruleIter (presolveDue cfg false s) τ).get k =
      match winner k ((check cfg.startClock s.prevTime s.simTime cfg.presolve).filter (fun d => d.back == s.simTime - τ)) with
      | some w => (w.writes k).getD 0
      | none => (if isRuleAt cfg s.ruleIter τ then rulesAt cfg τ s.vals else s.vals).get k := by
  unfold eventAt grpAt presolveDue
  simp only [Bool.false_eq_true, if_false]
  have hf : (sortDue (check cfg.startClock s.prevTime s.simTime cfg.presolve)).filter (fun x => s.simTime - x.back == τ) =
      (sortDue (check cfg.startClock s.prevTime s.simTime cfg.presolve)).filter (fun d => d.back == s.simTime - τ) := by
    apply List.filter_congr
    intro x _
    by_cases h : x.back = s.simTime - τ
    · have : s.simTime - x.back = τ := by omega
      simp [h, this]
    · have : ¬ s.simTime - x.back = τ := by omega
      simp [h, this]
  rw [hf, sortDue_group, foldl_run_get, lastWriter_sortBy_prio]
  cases winner k ((check cfg.startClock s.prevTime s.simTime cfg.presolve).filter (fun d => d.back == s.simTime - τ)) <;> rfl

/-! ### an instant inside the window of a pass makes its control due with the backtrack that leads to it -/

open Wntr.Time in
theorem evalSimTime_instant (thr rep prev cur τ : Int) (hτ : SimInstant thr rep τ) (h1 : prev < τ) (h2 : τ ≤ cur)
    (hper : rep > 0 → cur - prev ≤ rep) : evalSimTime ⟨.eq, thr, rep⟩ prev cur = (true, some (cur - τ)) := by
  have hT : effThr thr rep cur = τ := by
    unfold SimInstant at hτ
    by_cases hrep : rep > 0
    · rw [if_pos hrep] at hτ
      obtain ⟨k, hk0, hk⟩ := hτ
      have hp := hper hrep
      by_cases hc : cur > thr
      · obtain ⟨k', hk'0, hk', hle, hlt⟩ := effThr_repeat thr rep cur hrep hc
        have hlat := effThr_latest thr rep cur hrep k hk0 (by omega)
        rw [hk'] at hle hlt hlat ⊢
        have hdiff : (k' - k) * rep = thr + k' * rep - τ := by rw [hk]; ring
        have hk'k : k' = k := by
          by_contra hne
          rcases lt_or_gt_of_ne hne with h | h
          · have : (k' - k) * rep ≤ (-1) * rep := Int.mul_le_mul_of_nonneg_right (by omega) (le_of_lt hrep)
            omega
          · have : 1 * rep ≤ (k' - k) * rep := Int.mul_le_mul_of_nonneg_right (by omega) (le_of_lt hrep)
            omega
        rw [hk'k, hk]
      · rw [effThr_le_thr thr rep cur (by omega)]
        have : 0 ≤ k * rep := Int.mul_nonneg hk0 (le_of_lt hrep)
        omega
    · rw [if_neg hrep] at hτ
      rw [effThr_norep thr rep cur (by omega), hτ]
  simp only [evalSimTime, simTimeCmp, hT]
  rw [if_pos ⟨h1, h2⟩]

open Wntr.Time in
theorem evalTod_instant (θ fd prev cur d : Int) (h0 : 0 ≤ θ) (h1 : θ < 86400) (hd : fd ≤ d)
    (hp : prev < θ + 86400 * d) (hc : θ + 86400 * d ≤ cur) (hper : cur - prev ≤ 86400) :
    evalTod ⟨.eq, θ, true, fd⟩ prev cur = (true, some (cur - (θ + 86400 * d))) := by
  have hq : (cur - θ) / 86400 = d := by omega
  have hday : ¬ cur / 86400 < fd := by omega
  simp only [evalTod, TodCond.last, hq]
  rw [if_neg hday]
  simp only [if_true]
  have a : fd * 86400 ≤ θ + 86400 * d := by omega
  simp [a, hp, hc]

theorem mem_check_of_eval {sc prev cur : Int} {cs : List Ctl} {c : Ctl} (hc : c ∈ cs) {b : Int}
    (hev : c.cond.eval sc prev cur = (true, some b)) : (⟨c, .thenB, b⟩ : Due) ∈ check sc prev cur cs := by
  unfold check
  apply List.mem_filterMap.2
  exact ⟨c, hc, by rw [hev]; rfl⟩

end Wntr.Sched
