/- Helper lemmas for C20: `_gcd/_lcm/_lcml` give a positive common multiple; a whole number of periods of a
   wrapping pattern sums to that many times the sum of its multipliers, wherever the window starts. -/
import WntrModel.Model.Metrics
import WntrModel.Lemmas.MetricsSum
import Mathlib.Tactic.Ring
import Mathlib.Tactic.Linarith
import Mathlib.Tactic.FieldSimp
import Mathlib.Algebra.Order.Field.Rat
namespace Wntr.Metrics
open Wntr.Pattern

theorem gcdLoop_step (f : Nat) (x y : Int) (hy : 0 < y) : gcdLoop (f + 1) x y = gcdLoop f y (x % y) := by
  have h0 : ¬ y = 0 := ne_of_gt hy
  have h1 : ¬ y < 0 := not_lt.mpr (le_of_lt hy)
  simp only [gcdLoop, h0, h1, if_false]

theorem gcdLoop_pos (fuel : Nat) (x y : Int) (hx : 0 < x) (hy : 0 ≤ y) : 0 < gcdLoop fuel x y := by
  induction fuel generalizing x y with
  | zero => simpa [gcdLoop] using hx
  | succ f ih =>
    rcases hy.lt_or_eq with h | h
    · rw [gcdLoop_step f x y h]
      exact ih y (x % y) h (Int.emod_nonneg x (ne_of_gt h))
    · subst h; simpa [gcdLoop] using hx

theorem gcdLoop_dvd (fuel : Nat) (x y : Int) (hy : 0 ≤ y) (hf : y.natAbs < fuel) :
    gcdLoop fuel x y ∣ x ∧ gcdLoop fuel x y ∣ y := by
  induction fuel generalizing x y with
  | zero => omega
  | succ f ih =>
    rcases hy.lt_or_eq with h | h
    · rw [gcdLoop_step f x y h]
      have hr0 : 0 ≤ x % y := Int.emod_nonneg x (ne_of_gt h)
      have hr1 : x % y < y := Int.emod_lt_of_pos x h
      obtain ⟨h1, h2⟩ := ih y (x % y) hr0 (by omega)
      refine ⟨?_, h1⟩
      have hx : y * (x / y) + x % y = x := Int.mul_ediv_add_emod x y
      have := Int.dvd_add (Dvd.dvd.mul_right h1 (x / y)) h2
      rwa [hx] at this
    · subst h; simp [gcdLoop]

theorem pyGcd_dvd (x y : Int) (hy : 0 ≤ y) : pyGcd x y ∣ x ∧ pyGcd x y ∣ y :=
  gcdLoop_dvd _ x y hy (Nat.lt_succ_self _)

theorem pyGcd_pos (x y : Int) (hx : 0 < x) (hy : 0 ≤ y) : 0 < pyGcd x y := gcdLoop_pos _ x y hx hy

/-- `_lcm(x, y)` is a positive common multiple of `x` and `y` -/
theorem pyLcm_spec (x y : Int) (hx : 0 < x) (hy : 0 < y) : 0 < pyLcm x y ∧ x ∣ pyLcm x y ∧ y ∣ pyLcm x y := by
  obtain ⟨gx, gy⟩ := pyGcd_dvd x y (le_of_lt hy)
  have gp := pyGcd_pos x y hx (le_of_lt hy)
  have hdef : pyLcm x y = x * y / pyGcd x y := rfl
  rw [hdef]
  generalize pyGcd x y = g at *
  obtain ⟨a, ha⟩ := gx
  obtain ⟨b, hb⟩ := gy
  have hl : x * y / g = g * a * b := by
    rw [ha, hb, show g * a * (g * b) = g * (g * a * b) by ring]
    exact Int.mul_ediv_cancel_left _ (ne_of_gt gp)
  have ha0 : 0 < a := by
    by_contra h
    have : g * a ≤ 0 := Int.mul_nonpos_of_nonneg_of_nonpos (le_of_lt gp) (not_lt.mp h)
    omega
  have hb0 : 0 < b := by
    by_contra h
    have : g * b ≤ 0 := Int.mul_nonpos_of_nonneg_of_nonpos (le_of_lt gp) (not_lt.mp h)
    omega
  rw [hl]
  refine ⟨Int.mul_pos (Int.mul_pos gp ha0) hb0, ⟨b, by rw [ha]⟩, ⟨a, by rw [hb]; ring⟩⟩

theorem lcml_spec (first : Int) (rest : List Int) (h0 : 0 < first) (hr : ∀ r ∈ rest, 0 < r) :
    0 < lcml first rest ∧ first ∣ lcml first rest ∧ ∀ r ∈ rest, r ∣ lcml first rest := by
  induction rest generalizing first with
  | nil => simpa [lcml] using h0
  | cons a t ih =>
    have ha : 0 < a := hr a (List.mem_cons_self ..)
    obtain ⟨lp, l1, l2⟩ := pyLcm_spec first a h0 ha
    have := ih (pyLcm first a) lp (fun r hr' => hr r (List.mem_cons_of_mem _ hr'))
    obtain ⟨p, d1, d2⟩ := this
    have e : lcml first (a :: t) = lcml (pyLcm first a) t := rfl
    rw [e]
    refine ⟨p, Int.dvd_trans l1 d1, ?_⟩
    intro r hr'
    rcases List.mem_cons.mp hr' with h | h
    · subst h; exact Int.dvd_trans l2 d1
    · exact d2 r h

/-- value of a wrapping, non-interpolated pattern with ≥ 2 multipliers: the multiplier at index `(t // step) % n` -/
theorem pat_at_wrap (p : Pat) (step t : Int) (hw : p.wrap = true) (hn : 2 ≤ p.mults.length) :
    p.at step false t = p.get ((t / step) % (p.mults.length : Int)).toNat := by
  have h0 : ¬ p.mults.length = 0 := by omega
  have h1 : ¬ p.mults.length = 1 := by omega
  simp [Pat.at, h0, h1, hw]

theorem idx_shift (a : Int) (k n : Nat) (hn : 0 < n) :
    ((a + k) % (n : Int)).toNat = ((a % (n : Int)).toNat + k) % n := by
  have hn' : (n : Int) ≠ 0 := by omega
  have hc : ((a % (n : Int)).toNat : Int) = a % n := Int.toNat_of_nonneg (Int.emod_nonneg a hn')
  have : (a + k) % (n : Int) = (((a % (n : Int)).toNat + k) % n : Nat) := by
    rw [Int.natCast_mod, Int.natCast_add, hc, Int.emod_add_emod]
  rw [this, Int.toNat_natCast]

/-- **a whole number of periods of one pattern sums to that many times the sum of its multipliers,
whatever the start time `s`** -/
theorem pat_sum_whole_periods (p : Pat) (step s : Int) (m : Nat) (hs : 0 < step) (hw : p.wrap = true)
    (hn : p.mults.length ≠ 0) :
    sumTo (m * p.mults.length) (fun k => p.at step false (s + (k : Int) * step)) = (m : Rat) * lsum p.mults := by
  by_cases h1 : p.mults.length = 1
  · have : ∀ t, p.at step false t = p.get 0 := by intro t; simp [Pat.at, h1]
    simp only [this, sumTo_const, h1]
    have : lsum p.mults = p.get 0 := by
      rw [← sumTo_getD, h1]; simp [sumTo, Pat.get]
    rw [this]; push_cast; ring
  · have h2 : 2 ≤ p.mults.length := by omega
    have hpos : 0 < p.mults.length := by omega
    have hk : ∀ k : Nat, p.at step false (s + (k : Int) * step)
        = p.get ((((s / step) % (p.mults.length : Int)).toNat + k) % p.mults.length) := by
      intro k
      rw [pat_at_wrap p step _ hw h2, Int.add_mul_ediv_right _ _ (ne_of_gt hs), idx_shift _ _ _ hpos]
    simp only [hk]
    rw [sumTo_mod_shift m p.mults.length _ p.get]
    congr 1
    exact sumTo_getD p.mults


/-- mean multiplier of a demand entry: 1 without a pattern or with an empty one -/
def patMean (d : TS) : Rat :=
  match d.pat with
  | none => 1
  | some p => if p.mults.length = 0 then 1 else lsum p.mults / (p.mults.length : Rat)

/-- the window length is a whole number of periods of the entry's pattern, and the pattern wraps -/
def fits (d : TS) (N : Nat) : Prop :=
  ∀ p, d.pat = some p → p.mults.length ≠ 0 → p.wrap = true ∧ ∃ m : Nat, N = m * p.mults.length

theorem ts_sum_whole_periods (d : TS) (step s : Int) (N : Nat) (hs : 0 < step) (hf : fits d N) :
    sumTo N (fun k => d.at step false (s + (k : Int) * step)) = (N : Rat) * (d.base * patMean d) := by
  unfold TS.at patMean
  cases hp : d.pat with
  | none => simp only [sumTo_const]
            ring
  | some p =>
    by_cases h0 : p.mults.length = 0
    · simp only [h0, if_true, sumTo_const]; ring
    · obtain ⟨hw, m, hm⟩ := hf p hp h0
      simp only [h0, if_false]
      have hc : (fun k : Nat => d.base * p.at step false (s + (k : Int) * step))
          = (fun k : Nat => p.at step false (s + (k : Int) * step) * d.base) := by funext k; ring
      rw [hc, sumTo_mul_const, hm, pat_sum_whole_periods p step s m hs hw h0]
      have hn : (p.mults.length : Rat) ≠ 0 := by exact_mod_cast h0
      push_cast
      field_simp

theorem foldl_dem_acc (l : List TS) (g : TS → Rat) (sel : TS → Bool) (acc : Rat) :
    l.foldl (fun a d => if sel d then a + g d else a) acc = acc + lsum ((l.filter sel).map g) := by
  induction l generalizing acc with
  | nil => simp [lsum]
  | cons d t ih =>
    rw [List.foldl_cons, ih]
    by_cases h : sel d
    · simp only [h, if_true, List.filter_cons_of_pos, List.map_cons, lsum_cons]; ring
    · simp [h]

theorem sumTo_lsum_map (N : Nat) (l : List TS) (F : TS → Nat → Rat) :
    sumTo N (fun k => lsum (l.map fun d => F d k)) = lsum (l.map fun d => sumTo N (F d)) := by
  induction l with
  | nil => simp [lsum, sumTo_zero_fun]
  | cons d t ih =>
    simp only [List.map_cons, lsum_cons]
    rw [sumTo_add, ih]

theorem lsum_map_mul (l : List TS) (g : TS → Rat) (c : Rat) : lsum (l.map fun d => c * g d) = c * lsum (l.map g) := by
  induction l with
  | nil => simp [lsum]
  | cons d t ih => simp only [List.map_cons, lsum_cons, ih]; ring

end Wntr.Metrics
