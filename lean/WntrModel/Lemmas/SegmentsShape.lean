/-
C18: the interpreted reference skeleton (`Shape.interp Shape.refShape`: running `seg_index`, in-place `seg_label`, pass after
pass as the Python executes) computes exactly the closed-form labels of `Model/Segments.lean`, for every valid input and every
component numbering.
-/
import WntrModel.Lemmas.Segments

import WntrModel.Model.SegmentsShape

namespace Wntr.Segments.Shape

theorem foldl_range_inv {σ : Type} (P : Nat → σ → Prop) (f : σ → Nat → σ) (s0 : σ) (h0 : P 0 s0)
    (hstep : ∀ m s, P m s → P (m + 1) (f s m)) : ∀ m, P m ((List.range m).foldl f s0) := by
  intro m
  induction m with
  | zero => simpa using h0
  | succ m ih =>
    rw [List.range_succ, List.foldl_append]
    exact hstep m _ ih

/-- the same with the bound of the loop available in the step -/
theorem foldl_range_inv_lt {σ : Type} (N : Nat) (P : Nat → σ → Prop) (f : σ → Nat → σ) (s0 : σ) (h0 : P 0 s0)
    (hstep : ∀ m s, m < N → P m s → P (m + 1) (f s m)) : P N ((List.range N).foldl f s0) := by
  have : ∀ m, m ≤ N → P m ((List.range m).foldl f s0) := by
    intro m
    induction m with
    | zero => intro _; simpa using h0
    | succ m ih =>
      intro hm
      rw [List.range_succ, List.foldl_append]
      exact hstep m _ (by omega) (ih (by omega))
  exact this N (Nat.le_refl N)

/-- labels after pass 1: isolated links carry 1, 2, … in link order, everything else 0 -/
def lab1 (i : Inp) (m : Nat) (j : Nat) : Nat :=
  if i.n ≤ j ∧ j - i.n < m ∧ i.isolated (j - i.n) = true then i.isoLabel (j - i.n) else 0

def p1 : Pass := { iter := .edges, branches := [{ test := .nodesCoverEnds, ops := [.incIndex, .linkGetsIndex] }] }
def p2 : Pass := { iter := .nodeNames, branches := [{ test := .linksCoveredPrefixed, ops := [.incIndex, .nodeGetsIndex] }] }
def p4 : Pass := { iter := .components, branches := [{ test := .always, ops := [.incIndex, .compNodesGetIndex] }] }
def p5 : Pass := { iter := .unvalvedEdges, branches := [{ test := .always, ops := [.linkGetsFirstNode] }] }
def p6 : Pass := { iter := .valvedEdges, branches := [
  { test := .rowsEq 1, ops := [] }, { test := .rowsEq 2, ops := [.keep] }, { test := .always, ops := [.raise_] }] }
def p6b : Pass := { iter := .valvedEdges, branches := [
  { test := .otherEndUnlabelled, ops := [.incIndex, .otherEndGetsIndex, .linkGetsIndex] },
  { test := .always, ops := [.linkGetsOtherEnd] }] }

def s0 : St := { idx := 0, lab := fun _ => 0, raised := false }

theorem pass1_spec (i : Inp) (comp : Nat → Nat) (ncomp : Nat) :
    (runPass i comp ncomp s0 p1).raised = false ∧ (runPass i comp ncomp s0 p1).idx = i.numIso ∧
      ∀ j, (runPass i comp ncomp s0 p1).lab j = lab1 i i.nl j := by
  have h := foldl_range_inv
    (fun m (s : St) => s.raised = false ∧ s.idx = ((List.range m).filter i.isolated).length ∧ ∀ j, s.lab j = lab1 i m j)
    (fun s k => runBranches i comp 0 k 0 (linkCtx i k) s p1.branches) s0
    (by refine ⟨rfl, by simp [s0], ?_⟩; intro j; simp [s0, lab1])
    (by
      intro m s ⟨hr, hi, hl⟩
      by_cases hiso : i.isolated m = true
      · have ht : (i.hasValve m (i.ends m).1 && i.hasValve m (i.ends m).2) = true := hiso
        simp only [p1, runBranches, evalTest, ht, if_true, runOps, List.foldl, runOp, St.set, linkCtx]
        refine ⟨hr, ?_, ?_⟩
        · rw [countBelow_succ, hiso, hi]; simp
        · intro j
          by_cases hj : j = i.n + m
          · subst hj
            simp only [if_true, lab1]
            have : i.n + m - i.n = m := by omega
            rw [this, hi]
            simp [hiso, Inp.isoLabel]
          · simp only [hj, if_false, hl j, lab1]
            by_cases hc : i.n ≤ j ∧ j - i.n < m ∧ i.isolated (j - i.n) = true
            · have : i.n ≤ j ∧ j - i.n < m + 1 ∧ i.isolated (j - i.n) = true := ⟨hc.1, by omega, hc.2.2⟩
              simp [hc, this]
            · have : ¬ (i.n ≤ j ∧ j - i.n < m + 1 ∧ i.isolated (j - i.n) = true) := by
                intro ⟨h1, h2, h3⟩
                apply hc
                exact ⟨h1, by omega, h3⟩
              simp [hc, this]
      · have hiso' : i.isolated m = false := by simpa using hiso
        have ht : (i.hasValve m (i.ends m).1 && i.hasValve m (i.ends m).2) = false := hiso'
        simp only [p1, runBranches, evalTest, ht, Bool.false_eq_true, if_false]
        refine ⟨hr, ?_, ?_⟩
        · rw [countBelow_succ, hiso', hi]; simp
        · intro j
          rw [hl j]
          simp only [lab1]
          by_cases hc : i.n ≤ j ∧ j - i.n < m ∧ i.isolated (j - i.n) = true
          · have : i.n ≤ j ∧ j - i.n < m + 1 ∧ i.isolated (j - i.n) = true := ⟨hc.1, by omega, hc.2.2⟩
            simp [hc, this]
          · have : ¬ (i.n ≤ j ∧ j - i.n < m + 1 ∧ i.isolated (j - i.n) = true) := by
              intro ⟨h1, h2, h3⟩
              apply hc
              refine ⟨h1, ?_, h3⟩
              rcases Nat.lt_or_ge (j - i.n) m with hlt | hge
              · exact hlt
              · have : j - i.n = m := by omega
                rw [this, hiso'] at h3; cases h3
            simp [hc, this])
    i.nl
  exact h

theorem pass2_spec (i : Inp) (comp : Nat → Nat) (ncomp : Nat) (s : St) (hr : s.raised = false) :
    (runPass i comp ncomp s p2).raised = false ∧ (runPass i comp ncomp s p2).idx = s.idx + i.numLinkless ∧
      ∀ j, i.n ≤ j → (runPass i comp ncomp s p2).lab j = s.lab j := by
  have h := foldl_range_inv_lt i.n
    (fun m (t : St) => t.raised = false ∧ t.idx = s.idx + ((List.range m).filter i.linkless).length ∧ ∀ j, i.n ≤ j → t.lab j = s.lab j)
    (fun t u => runBranches i comp 0 0 u { link := 0, node := u, node2 := u, other := u } t p2.branches) s
    (by simp [hr])
    (by
      intro m t hm ⟨htr, hti, htl⟩
      by_cases hl : i.linkless m = true
      · simp only [p2, runBranches, evalTest, hl, if_true, runOps, List.foldl, runOp, St.set]
        refine ⟨htr, ?_, ?_⟩
        · rw [countBelow_succ, hl, hti]; simp; omega
        · intro j hj
          have : j ≠ m := by omega
          simp [this, htl j hj]
      · have hl' : i.linkless m = false := by simpa using hl
        simp only [p2, runBranches, evalTest, hl', Bool.false_eq_true, if_false]
        refine ⟨htr, ?_, htl⟩
        rw [countBelow_succ, hl', hti]; simp)
  exact h

theorem pass4_spec (i : Inp) (comp : Nat → Nat) (ncomp : Nat) (s : St) (hr : s.raised = false)
    (hc : ∀ u, u < i.n → comp u < ncomp) :
    (runPass i comp ncomp s p4).raised = false ∧ (∀ u, u < i.n → (runPass i comp ncomp s p4).lab u = s.idx + 1 + comp u) ∧
      ∀ j, i.n ≤ j → (runPass i comp ncomp s p4).lab j = s.lab j := by
  have h := foldl_range_inv
    (fun m (t : St) => t.raised = false ∧ t.idx = s.idx + m ∧ (∀ u, u < i.n → comp u < m → t.lab u = s.idx + 1 + comp u) ∧
      ∀ j, i.n ≤ j → t.lab j = s.lab j)
    (fun t c => runBranches i comp c 0 0 { link := 0, node := 0, node2 := 0, other := 0 } t p4.branches) s
    (by refine ⟨hr, rfl, ?_, fun _ _ => rfl⟩; intro u _ h; omega)
    (by
      intro m t ⟨htr, hti, htn, htl⟩
      simp only [p4, runBranches, evalTest, if_true, runOps, List.foldl, runOp]
      refine ⟨htr, by simp [hti]; omega, ?_, ?_⟩
      · intro u hu hcu
        by_cases hcm : comp u = m
        · simp [hu, hcm, hti]; omega
        · have : ¬ (u < i.n ∧ comp u = m) := fun h => hcm h.2
          simp only [this, if_false]
          exact htn u hu (by omega)
      · intro j hj
        have : ¬ (j < i.n ∧ comp j = m) := fun h => by omega
        simp only [this, if_false]
        exact htl j hj)
    ncomp
  obtain ⟨h1, _, h3, h4⟩ := h
  exact ⟨h1, fun u hu => h3 u hu (hc u hu), h4⟩

theorem pass5_spec (i : Inp) (hv : i.valid = true) (comp : Nat → Nat) (ncomp : Nat) (s : St) (hr : s.raised = false) :
    (runPass i comp ncomp s p5).raised = false ∧ (∀ u, u < i.n → (runPass i comp ncomp s p5).lab u = s.lab u) ∧
      ∀ k, k < i.nl → (runPass i comp ncomp s p5).lab (i.n + k) = if i.valved k then s.lab (i.n + k) else s.lab (i.ends k).1 := by
  have h := foldl_range_inv_lt i.nl
    (fun m (t : St) => t.raised = false ∧ (∀ u, u < i.n → t.lab u = s.lab u) ∧
      ∀ k, t.lab (i.n + k) = if k < m ∧ i.valved k = false then s.lab (i.ends k).1 else s.lab (i.n + k))
    (fun t k => if i.valved k then t else runBranches i comp 0 k 0 (linkCtx i k) t p5.branches) s
    (by simp [hr])
    (by
      intro m t hm ⟨htr, htn, htl⟩
      by_cases hval : i.valved m = true
      · simp only [hval, if_true]
        refine ⟨htr, htn, ?_⟩
        intro k
        rw [htl k]
        by_cases hk : k = m
        · subst hk; simp [hval]
        · have : (k < m + 1 ∧ i.valved k = false) ↔ (k < m ∧ i.valved k = false) := by
            constructor
            · intro ⟨a, b⟩; exact ⟨by omega, b⟩
            · intro ⟨a, b⟩; exact ⟨by omega, b⟩
          simp only [this]
      · have hval' : i.valved m = false := by simpa using hval
        obtain ⟨_, he1, _⟩ := valid_ends hv hm
        simp only [hval', Bool.false_eq_true, if_false, p5, runBranches, evalTest, if_true, runOps, List.foldl, runOp, St.set, linkCtx]
        refine ⟨htr, ?_, ?_⟩
        · intro u hu
          have : u ≠ i.n + m := by omega
          simp [this, htn u hu]
        · intro k
          by_cases hk : k = m
          · subst hk
            simp [hval', htn _ he1]
          · have hne : i.n + k ≠ i.n + m := by omega
            simp only [hne, if_false, htl k]
            have : (k < m + 1 ∧ i.valved k = false) ↔ (k < m ∧ i.valved k = false) := by
              constructor
              · intro ⟨a, b⟩; exact ⟨by omega, b⟩
              · intro ⟨a, b⟩; exact ⟨by omega, b⟩
            simp only [this])
  obtain ⟨h1, h2, h3⟩ := h
  refine ⟨h1, h2, ?_⟩
  intro k hk
  refine (h3 k).trans ?_
  by_cases hval : i.valved k = true
  · simp [hval]
  · have : i.valved k = false := by simpa using hval
    simp [this, hk]

/-- a valved link of a valid layer has one or two rows; two exactly when it is isolated -/
theorem rowCount_valid (i : Inp) (hv : i.valid = true) {k : Nat} (hk : k < i.nl) (hval : i.valved k = true) :
    (i.isolated k = true → rowCount i k = 2) ∧ (i.isolated k = false → rowCount i k = 1) := by
  obtain ⟨hne, _, _⟩ := valid_ends hv hk
  have hz : (i.layer.filter fun r => r.1 == k && r.2 != (i.ends k).1 && r.2 != (i.ends k).2) = [] := by
    rw [List.filter_eq_nil_iff]
    intro r hr
    simp only [Bool.and_eq_true, beq_iff_eq, bne_iff_ne, ne_eq, not_and, Decidable.not_not]
    intro h1
    have := (valid_rows hv (show (r.1, r.2) ∈ i.layer from hr)).2
    rw [h1.1] at this
    rcases this with h | h
    · exact absurd h h1.2
    · exact h
  have hsome : i.hasValve k (i.ends k).1 = true ∨ i.hasValve k (i.ends k).2 = true := by
    cases h1 : i.hasValve k (i.ends k).1 with
    | true => exact Or.inl rfl
    | false =>
      cases h2 : i.hasValve k (i.ends k).2 with
      | true => exact Or.inr rfl
      | false =>
        have := (valved_false_iff hv k).mpr ⟨h1, h2⟩
        rw [hval] at this; cases this
  have hne' : (i.ends k).2 ≠ (i.ends k).1 := fun h => hne h.symm
  unfold rowCount Inp.isolated
  rw [hz]
  cases h1 : i.hasValve k (i.ends k).1 <;> cases h2 : i.hasValve k (i.ends k).2 <;> simp_all

theorem pass6_spec (i : Inp) (hv : i.valid = true) (comp : Nat → Nat) (s : St) (hr : s.raised = false)
    (hn : ∀ u, u < i.n → s.lab u = i.nodeLabel comp u) :
    (runValved i comp s p6 p6b).raised = false ∧ (∀ u, u < i.n → (runValved i comp s p6 p6b).lab u = s.lab u) ∧
      ∀ k, k < i.nl → (runValved i comp s p6 p6b).lab (i.n + k) =
        if i.valved k = true ∧ i.isolated k = false then i.nodeLabel comp (i.anchor k) else s.lab (i.n + k) := by
  have h := foldl_range_inv_lt i.nl
    (fun m (t : St) => t.raised = false ∧ (∀ u, u < i.n → t.lab u = s.lab u) ∧
      ∀ k, t.lab (i.n + k) =
        if k < m ∧ i.valved k = true ∧ i.isolated k = false then i.nodeLabel comp (i.anchor k) else s.lab (i.n + k))
    (fun s k =>
      if i.valved k then
        match p6.branches with
        | b :: rest =>
          if evalTest i k 0 (linkCtx i k) s b.test then
            runBranches i comp 0 k 0 (linkCtx i k) (runOps i comp 0 (linkCtx i k) b.ops s) p6b.branches
          else runBranches i comp 0 k 0 (linkCtx i k) s rest
        | [] => s
      else s) s
    (by simp [hr])
    (by
      intro m t hm ⟨htr, htn, htl⟩
      have hkeep : ∀ k, k ≠ m →
          ((k < m + 1 ∧ i.valved k = true ∧ i.isolated k = false) ↔ (k < m ∧ i.valved k = true ∧ i.isolated k = false)) := by
        intro k hk
        constructor
        · intro ⟨a, b⟩; exact ⟨by omega, b⟩
        · intro ⟨a, b⟩; exact ⟨by omega, b⟩
      by_cases hval : i.valved m = true
      · obtain ⟨hiso2, hiso1⟩ := rowCount_valid i hv hm hval
        obtain ⟨_, he1, he2⟩ := valid_ends hv hm
        by_cases hiso : i.isolated m = true
        · -- two rows: keep
          have hrc := hiso2 hiso
          simp only [hval, if_true, p6, evalTest, hrc, runBranches, runOps, List.foldl, runOp]
          simp only [show ((2 : Nat) == 1) = false from rfl, show ((2 : Nat) == 2) = true from rfl, Bool.false_eq_true, if_false, if_true]
          refine ⟨htr, htn, ?_⟩
          intro k
          rw [htl k]
          by_cases hk : k = m
          · subst hk; simp [hiso]
          · simp only [hkeep k hk]
        · -- one row: the link takes the label of its unvalved end
          have hiso' : i.isolated m = false := by simpa using hiso
          have hrc := hiso1 hiso'
          have hother : otherEnd i m = i.anchor m := rfl
          have holt : otherEnd i m < i.n := by
            unfold otherEnd; split <;> assumption
          have hpos : t.lab (otherEnd i m) ≠ 0 := by
            rw [htn _ holt, hn _ holt]
            have := nodeLabel_gt i comp (otherEnd i m)
            omega
          have hb : (t.lab (otherEnd i m) == 0) = false := by simpa using hpos
          simp only [hval, if_true, p6, p6b, evalTest, hrc, runBranches, runOps, List.foldl, runOp, St.set, linkCtx, hb,
            show ((1 : Nat) == 1) = true from rfl, Bool.false_eq_true, if_false]
          refine ⟨htr, ?_, ?_⟩
          · intro u hu
            have : u ≠ i.n + m := by omega
            simp [this, htn u hu]
          · intro k
            by_cases hk : k = m
            · subst hk
              have hl2 : t.lab (i.anchor k) = i.nodeLabel comp (i.anchor k) := by
                rw [← hother, htn _ holt, hn _ holt]
              simp [hval, hiso', hother, hl2]
            · have hne : i.n + k ≠ i.n + m := by omega
              simp only [hne, if_false, htl k, hkeep k hk]
      · have hval' : i.valved m = false := by simpa using hval
        simp only [hval', Bool.false_eq_true, if_false]
        refine ⟨htr, htn, ?_⟩
        intro k
        rw [htl k]
        by_cases hk : k = m
        · subst hk; simp [hval']
        · simp only [hkeep k hk])
  obtain ⟨h1, h2, h3⟩ := h
  refine ⟨h1, h2, ?_⟩
  intro k hk
  refine (h3 k).trans ?_
  simp [hk]

/-- **`interp_ref_is_model`**: executing the reference skeleton pass by pass gives, for every valid input, every component
numbering `comp` with values below `ncomp`: no exception, and the closed-form labels of `Model/Segments.lean` -/
theorem interp_ref_is_model (i : Inp) (hv : i.valid = true) (comp : Nat → Nat) (ncomp : Nat)
    (hc : ∀ u, u < i.n → comp u < ncomp) :
    (interp refShape i comp ncomp).raised = false ∧
    (∀ u, u < i.n → (interp refShape i comp ncomp).lab u = i.nodeLabel comp u) ∧
    (∀ k, k < i.nl → (interp refShape i comp ncomp).lab (i.n + k) = i.linkLabel comp k) := by
  have hI : interp refShape i comp ncomp =
      runValved i comp (runPass i comp ncomp (runPass i comp ncomp (runPass i comp ncomp (runPass i comp ncomp s0 p1) p2) p4) p5) p6 p6b := by
    simp [interp, refShape, s0, p1, p2, p4, p5, p6, p6b]
  rw [hI]
  obtain ⟨a1, a2, a3⟩ := pass1_spec i comp ncomp
  obtain ⟨b1, b2, b3⟩ := pass2_spec i comp ncomp _ a1
  obtain ⟨c1, c2, c3⟩ := pass4_spec i comp ncomp _ b1 hc
  obtain ⟨d1, d2, d3⟩ := pass5_spec i hv comp ncomp _ c1
  have hnode : ∀ u, u < i.n → (runPass i comp ncomp (runPass i comp ncomp (runPass i comp ncomp (runPass i comp ncomp s0 p1) p2) p4) p5).lab u
      = i.nodeLabel comp u := by
    intro u hu
    rw [d2 u hu, c2 u hu, b2, a2]
    unfold Inp.nodeLabel; omega
  obtain ⟨e1, e2, e3⟩ := pass6_spec i hv comp _ d1 hnode
  refine ⟨e1, fun u hu => by rw [e2 u hu, hnode u hu], ?_⟩
  intro k hk
  rw [e3 k hk, d3 k hk]
  obtain ⟨_, he1, _⟩ := valid_ends hv hk
  unfold Inp.linkLabel
  by_cases hiso : i.isolated k = true
  · -- isolated: valved, keeps the pass-1 label
    have hval : i.valved k = true := by
      cases hvv : i.valved k with
      | true => rfl
      | false =>
        have := ((valved_false_iff hv k).mp hvv).1
        unfold Inp.isolated at hiso
        rw [this] at hiso; cases hiso
    simp only [hval, hiso, if_true, Bool.true_eq_false, and_false, if_false]
    rw [c3 _ (by omega), b3 _ (by omega), a3]
    have : i.n + k - i.n = k := by omega
    simp [lab1, this, hk, hiso]
  · have hiso' : i.isolated k = false := by simpa using hiso
    simp only [hiso', Bool.false_eq_true, if_false, and_true]
    by_cases hval : i.valved k = true
    · simp [hval]
    · have hval' : i.valved k = false := by simpa using hval
      simp only [hval', Bool.false_eq_true, if_false]
      have h1 := ((valved_false_iff hv k).mp hval').1
      have : i.anchor k = (i.ends k).1 := by unfold Inp.anchor; simp [h1]
      rw [this, c2 _ he1, b2, a2]
      unfold Inp.nodeLabel; omega

/-! ### attributes -/

theorem interp_numSurround_ref (rows : List (Nat × (Nat × Nat))) (nlab llab : Nat → Nat) (r : Nat × Nat) :
    interpNumSurround refShape.attrs rows nlab llab r = some (numSurround rows nlab llab r) := by
  unfold interpNumSurround numSurround
  simp only [refShape]
  split <;> rfl

theorem interp_demand_ref (n : Nat) (nlab llab : Nat → Nat) (dem : Nat → Rat) (r : Nat × Nat) :
    interpDemand refShape.attrs n nlab llab dem r = some (demandIncrease n nlab llab dem r) := by
  unfold interpDemand demandIncrease interpIncrease increase
  simp only [refShape]

theorem interp_length_ref (nl : Nat) (nlab llab : Nat → Nat) (len : Nat → Rat) (r : Nat × Nat) :
    interpLength refShape.attrs nl nlab llab len r = some (lengthIncrease nl nlab llab len r) := by
  unfold interpLength lengthIncrease interpIncrease increase
  simp only [refShape]

end Wntr.Segments.Shape
