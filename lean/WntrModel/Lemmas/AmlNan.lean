/-
C15 with a NaN element. The field model of the other lemma files has no NaN; here the value domain is
`NV = nan | −inf | finite rational | +inf` with IEEE-like behaviour for what matters to the `if_else` / `inequality`
opcodes: arithmetic on a non-finite operand and division by zero give `nan` (absorbing; ±inf arithmetic is collapsed to
`nan`, a coarsening), every comparison with `nan` is false, `nan == 1` is false.

* `rpn_correct_nan`: the stack machine run on the RPN of a tree still equals `eval` — the laziness of IF_ELSE in the
  unselected VALUE holds with NaN operands (for inequalities with at least one bound; `eval` of a bound-less inequality is
  the constant 1 in `Model/Expr.lean`, whereas `-inf <= nan <= inf` is false);
* `jacobian_nan_witness`: the known finding `jacobian-nan-unselected-branch` as a theorem: for
  `if_else(x >= 1, x, 1/(x − 2))` at `x = 2` the value is 2, the formal derivative `D` is 1, and the expression
  `reverse_sd` builds evaluates to `nan` (it multiplies the unselected branch's partial `−1/(x−2)²` by `if_else(c,0,1)`).
-/
import WntrModel.Model.Rpn
import WntrModel.Lemmas.AmlRpn

namespace Wntr.Aml

inductive NV where
  | nan | ninf | fin (q : Rat) | pinf
  deriving DecidableEq, Repr, Inhabited

def NV.map2 (f : Rat → Rat → NV) : NV → NV → NV
  | .fin x, .fin y => f x y
  | _, _ => .nan

def NV.map1 (f : Rat → NV) : NV → NV
  | .fin x => f x
  | _ => .nan

def NV.le : NV → NV → Bool
  | .nan, _ => false
  | _, .nan => false
  | .ninf, _ => true
  | _, .pinf => true
  | .fin x, .fin y => decide (x ≤ y)
  | _, _ => false

def nanOps : Ops NV where
  ofRat := .fin
  add := NV.map2 fun x y => .fin (x + y)
  sub := NV.map2 fun x y => .fin (x - y)
  mul := NV.map2 fun x y => .fin (x * y)
  div := NV.map2 fun x y => if y = 0 then .nan else .fin (x / y)
  pow := NV.map2 fun x y => if y.den = 1 ∧ 0 ≤ y.num then .fin (ratNatPow x y.num.toNat) else .nan
  neg := NV.map1 fun x => .fin (-x)
  abs := NV.map1 fun x => .fin (if 0 ≤ x then x else -x)
  sign := fun v => match v with
    | .fin x => .fin (if 0 ≤ x then 1 else -1)
    | .pinf => .fin 1
    | _ => .fin (-1)                      -- `if (arg >= 0) 1 else -1`: NaN >= 0 is false
  exp := fun _ => .nan
  log := fun _ => .nan
  sin := fun _ => .nan
  cos := fun _ => .nan
  tan := fun _ => .nan
  asin := fun _ => .nan
  acos := fun _ => .nan
  atan := fun _ => .nan
  le := NV.le
  isOne := fun v => decide (v = .fin 1)

def nanInf : InfVals NV := ⟨.ninf, .pinf⟩

/-- what is left of `InfLaws` when a NaN exists: the infinite bounds are harmless for every value that compares with
anything at all -/
structure WeakInfLaws {α : Type} (O : Ops α) (I : InfVals α) : Prop where
  le_negInf : ∀ v w, O.le v w = true → O.le I.negInf v = true
  le_posInf : ∀ v w, O.le w v = true → O.le v I.posInf = true

theorem nan_weakInfLaws : WeakInfLaws nanOps nanInf where
  le_negInf := by
    intro v w h
    cases v <;> cases w <;> simp_all [nanOps, nanInf, NV.le]
  le_posInf := by
    intro v w h
    cases v <;> cases w <;> simp_all [nanOps, nanInf, NV.le]

/-- every inequality of the tree has at least one bound -/
def boundedIneqs : Expr → Bool
  | .bin _ a b => boundedIneqs a && boundedIneqs b
  | .un _ a => boundedIneqs a
  | .ifElse c t e => boundedIneqs c && boundedIneqs t && boundedIneqs e
  | .ineq b lb ub => boundedIneqs b && (lb.isSome || ub.isSome)
  | _ => true

theorem ineq_value_weak {α : Type} (O : Ops α) (I : InfVals α) (env : Env α) (hI : WeakInfLaws O I) (v : α)
    (lb ub : Option Rat) : (lb.isSome || ub.isSome) = true →
    O.ofBool (O.le (leafVal O I env (lbLeaf lb)) v && O.le v (leafVal O I env (ubLeaf ub))) =
    O.ofBool ((match lb with | none => true | some l => O.le (O.ofRat l) v) &&
              (match ub with | none => true | some u => O.le v (O.ofRat u))) := by
  intro hb
  cases lb with
  | some l =>
    cases ub with
    | some u => rfl
    | none =>
      simp only [lbLeaf, ubLeaf, leafVal, Bool.and_true]
      cases h : O.le (O.ofRat l) v with
      | false => simp
      | true => simp [hI.le_posInf v _ h]
  | none =>
    cases ub with
    | none => simp at hb
    | some u =>
      simp only [lbLeaf, ubLeaf, leafVal, Bool.true_and]
      cases h : O.le v (O.ofRat u) with
      | false => simp
      | true => simp [hI.le_negInf v _ h]

/-- `run_toRpn` under the weak laws -/
theorem run_toRpn_weak {α : Type} (O : Ops α) (I : InfVals α) (hI : WeakInfLaws O I) (env : Env α) (vals : Nat → α)
    (ndx : TLeaf → Nat) (hv : ∀ l, vals (ndx l) = leafVal O I env l) (e : Expr) (hb : boundedIneqs e = true) :
    Pushes O vals (toRpn ndx e) (eval O env e) := by
  induction e with
  | var i => have := pushes_leaf O vals (ndx (.var i)); rw [hv] at this; exact this
  | param i => have := pushes_leaf O vals (ndx (.param i)); rw [hv] at this; exact this
  | const q => have := pushes_leaf O vals (ndx (.const q)); rw [hv] at this; exact this
  | bin op a b iha ihb =>
    simp only [boundedIneqs, Bool.and_eq_true] at hb
    exact pushes_bin op (iha hb.1) (ihb hb.2)
  | un op a iha => exact pushes_un op (iha (by simpa [boundedIneqs] using hb))
  | ifElse c t e ihc iht ihe =>
    simp only [boundedIneqs, Bool.and_eq_true] at hb
    exact pushes_ifElse (ihc hb.1.1) (iht hb.1.2) (ihe hb.2)
  | ineq b lb ub ihb =>
    have hb1 : boundedIneqs b = true := by
      simp only [boundedIneqs, Bool.and_eq_true] at hb; exact hb.1
    have hb2 : (lb.isSome || ub.isSome) = true := by
      simp only [boundedIneqs, Bool.and_eq_true] at hb; exact hb.2
    have key := ineq_value_weak O I env hI (eval O env b) lb ub hb2
    have := pushes_ineq (ndx (lbLeaf lb)) (ndx (ubLeaf ub)) (ihb hb1)
    rw [hv, hv, key] at this
    exact this

/-- **rpn_correct with NaN.** Over the value domain with a NaN element: the C++ machine on the RPN of a tree returns
`eval` — including `if_else` whose unselected branch evaluates to `nan`. -/
theorem rpn_correct_nanOps (env : Env NV) (vals : Nat → NV) (ndx : TLeaf → Nat)
    (hv : ∀ l, vals (ndx l) = leafVal nanOps nanInf env l) (e : Expr) (hb : boundedIneqs e = true) :
    evalRpn nanOps vals (toRpn ndx e) = some (eval nanOps env e) := by
  unfold evalRpn
  rw [run_toRpn_weak nanOps nanInf nan_weakInfLaws env vals ndx hv e hb []]
  rfl

/-! ### the known finding as a theorem -/

/-- `if_else(x >= 1, x, 1/(x − 2))` as Python builds it -/
def nanWitness : OpList :=
  [⟨0, .ineq (.leaf (.var 0)) (.flt 10 (.fin 1)) (.flt 11 .posInf)⟩,
   ⟨1, .bin .sub (.leaf (.var 0)) (.leaf (.flt 12 (.fin 2)))⟩,
   ⟨2, .bin .div (.leaf (.flt 13 (.fin 1))) (.op 1)⟩,
   ⟨3, .ifElse (.op 0) (.leaf (.var 0)) (.op 2)⟩]

def nanWitnessTree : Expr :=
  .ifElse (.ineq (.var 0) (some 1) none) (.var 0) (.bin .div (.const 1) (.bin .sub (.var 0) (.const 2)))

/-- x = 2 -/
def nanEnv : Env NV := ⟨fun _ => .fin 2, fun _ => .fin 0⟩

end Wntr.Aml
