/-
The clauses of `Inv` (model M3) in lookup form, and the simp set / tactic used for the per-operation proofs.
-/
import WntrModel.Lemmas.RegistryState

namespace Wntr.Registry

theorem OAll_iff {α : Type} (o : Option α) (P : α → Prop) : OAll o P ↔ ∀ a, o = some a → P a := Iff.rfl
theorem OAny_iff {α : Type} (o : Option α) (P : α → Prop) : OAny o P ↔ ∃ a, o = some a ∧ P a := Iff.rfl

namespace Clause

theorem typedNodeSound_iff (s : Reg) : typedNodeSound s ↔
    ∀ t ∈ nodeSets, ∀ k ∈ s.typed t, ∃ i, AL.get? s.nodes k = some i ∧ nodeSet i.kind = t := Iff.rfl

theorem typedNodeComplete_iff (s : Reg) : typedNodeComplete s ↔
    ∀ k i, AL.get? s.nodes k = some i → k ∈ s.typed (nodeSet i.kind) := AL.forall_iff _ _

theorem typedLinkSound_iff (s : Reg) : typedLinkSound s ↔
    ∀ t ∈ allLinkSets, ∀ k ∈ s.typed t, ∃ i, AL.get? s.links k = some i ∧ t ∈ linkSets i.kind := Iff.rfl

theorem typedLinkComplete_iff (s : Reg) : typedLinkComplete s ↔
    ∀ k i, AL.get? s.links k = some i → ∀ t ∈ linkSets i.kind, k ∈ s.typed t := AL.forall_iff _ _

theorem typedCurveSound_iff (s : Reg) : typedCurveSound s ↔ ∀ t ∈ curveSets, ∀ k ∈ s.typed t, k ∈ s.curves := Iff.rfl

theorem endsExist_iff (s : Reg) : endsExist s ↔
    ∀ k i, AL.get? s.links k = some i → (∃ a, AL.get? s.nodes i.start = some a) ∧ (∃ b, AL.get? s.nodes i.end_ = some b) := by
  unfold endsExist
  rw [AL.forall_iff]
  simp only [AL.has_eq, Option.isSome_iff_exists]

theorem usageNodeSound_iff (s : Reg) : usageNodeSound s ↔
    ∀ n u, u ∈ ulook (s.usage .node) n →
      (isLinkType u.2 = true ∧ ∃ i, AL.get? s.links u.1 = some i ∧ ltype i.kind = u.2 ∧ (i.start = n ∨ i.end_ = n)) ∨
      (u.2 = .source ∧ ∃ si, AL.get? s.sources u.1 = some si ∧ si.node = n) := uforall_iff _ _ _

theorem usageNodeLinks_iff (s : Reg) : usageNodeLinks s ↔
    ∀ k i, AL.get? s.links k = some i →
      (k, ltype i.kind) ∈ ulook (s.usage .node) i.start ∧ (k, ltype i.kind) ∈ ulook (s.usage .node) i.end_ :=
  AL.forall_iff _ _

theorem usageNodeSources_iff (s : Reg) : usageNodeSources s ↔
    ∀ k si, AL.get? s.sources k = some si → (k, UKind.source) ∈ ulook (s.usage .node) si.node := AL.forall_iff _ _

theorem usagePatSound_iff (s : Reg) : usagePatSound s ↔
    ∀ p u, u ∈ ulook (s.usage .pattern) p →
      (u.2 = .junction ∧ ∃ i, AL.get? s.nodes u.1 = some i ∧ i.kind = .junction) ∨
      (u.2 = .reservoir ∧ ∃ i, AL.get? s.nodes u.1 = some i ∧ i.kind = .reservoir ∧ i.pat = some p) ∨
      (u.2 = .pump ∧ ∃ i, AL.get? s.links u.1 = some i ∧ isPump i.kind = true ∧ i.pat = some p) ∨
      (u.2 = .source ∧ ∃ si, AL.get? s.sources u.1 = some si ∧ si.pat = some p) := uforall_iff _ _ _

theorem usagePatNodes_iff (s : Reg) : usagePatNodes s ↔
    ∀ k i, AL.get? s.nodes k = some i →
      (i.kind = .reservoir → ∀ p, i.pat = some p → (k, UKind.reservoir) ∈ ulook (s.usage .pattern) p) ∧
      (i.kind = .junction → ∀ d ∈ i.demands, ∀ p, d.1 = some p → (k, UKind.junction) ∈ ulook (s.usage .pattern) p) :=
  AL.forall_iff _ _

theorem usagePatLinks_iff (s : Reg) : usagePatLinks s ↔
    ∀ k i, AL.get? s.links k = some i → isPump i.kind = true → ∀ p, i.pat = some p →
      (k, UKind.pump) ∈ ulook (s.usage .pattern) p := AL.forall_iff _ _

theorem usagePatSources_iff (s : Reg) : usagePatSources s ↔
    ∀ k si, AL.get? s.sources k = some si → ∀ p, si.pat = some p → (k, UKind.source) ∈ ulook (s.usage .pattern) p :=
  AL.forall_iff _ _

theorem usageCurveSound_iff (s : Reg) : usageCurveSound s ↔
    ∀ c u, u ∈ ulook (s.usage .curve) c →
      (u.2 = .tank ∧ ∃ i, AL.get? s.nodes u.1 = some i ∧ i.kind = .tank ∧ i.curve = some c) ∨
      (u.2 = .pump ∧ ∃ i, AL.get? s.links u.1 = some i ∧ i.kind = .headPump ∧ i.curve = some c) ∨
      (u.2 = .valve ∧ ∃ i, AL.get? s.links u.1 = some i ∧ i.kind = .gpv ∧ i.curve = some c) := uforall_iff _ _ _

theorem usageCurveNodes_iff (s : Reg) : usageCurveNodes s ↔
    ∀ k i, AL.get? s.nodes k = some i → i.kind = .tank → ∀ c, i.curve = some c → (k, UKind.tank) ∈ ulook (s.usage .curve) c :=
  AL.forall_iff _ _

theorem usageCurveLinks_iff (s : Reg) : usageCurveLinks s ↔
    ∀ k i, AL.get? s.links k = some i →
      (i.kind = .headPump → ∀ c, i.curve = some c → (k, UKind.pump) ∈ ulook (s.usage .curve) c) ∧
      (i.kind = .gpv → ∀ c, i.curve = some c → (k, UKind.valve) ∈ ulook (s.usage .curve) c) := AL.forall_iff _ _

theorem usageObjSound_iff (s : Reg) : usageObjSound s ↔
    ∀ p u, u ∈ ulook (s.usage .patternObj) p → u.2 = .source ∧ ∃ si, AL.get? s.sources u.1 = some si ∧ si.pat = some p :=
  uforall_iff _ _ _

end Clause

set_option linter.unusedSimpArgs false

set_option maxRecDepth 4000 in
/-- normalise a goal / hypotheses about the state after a sequence of primitives into statements about the lookups of the
initial state -/
macro "reg_norm" : tactic => `(tactic| simp only [
  Clause.typedNodeSound_iff, Clause.typedNodeComplete_iff, Clause.typedLinkSound_iff, Clause.typedLinkComplete_iff,
  Clause.typedCurveSound_iff, Clause.endsExist_iff, Clause.usageNodeSound_iff, Clause.usageNodeLinks_iff, Clause.usageNodeSources_iff,
  Clause.usagePatSound_iff, Clause.usagePatNodes_iff, Clause.usagePatLinks_iff, Clause.usagePatSources_iff, Clause.usageCurveSound_iff,
  Clause.usageCurveNodes_iff, Clause.usageCurveLinks_iff, Clause.usageObjSound_iff,
  setUsage_nodes, setUsage_links, setUsage_patterns, setUsage_curves, setUsage_sources, setUsage_controls, setUsage_typed, setUsage_nextUid, setTyped_nodes, setTyped_links, setTyped_patterns, setTyped_curves, setTyped_sources, setTyped_controls, setTyped_usage, setTyped_nextUid, addUsage_nodes, addUsage_links, addUsage_patterns, addUsage_curves, addUsage_sources, addUsage_controls, addUsage_typed, addUsage_nextUid, addUsageO_nodes, addUsageO_links, addUsageO_patterns, addUsageO_curves, addUsageO_sources, addUsageO_controls, addUsageO_typed, addUsageO_nextUid, removeUsageT_nodes, removeUsageT_links, removeUsageT_patterns, removeUsageT_curves, removeUsageT_sources, removeUsageT_controls, removeUsageT_typed, removeUsageT_nextUid, popUsageKey_nodes, popUsageKey_links, popUsageKey_patterns, popUsageKey_curves, popUsageKey_sources, popUsageKey_controls, popUsageKey_typed, popUsageKey_nextUid, typedAdd_nodes, typedAdd_links, typedAdd_patterns, typedAdd_curves, typedAdd_sources, typedAdd_controls, typedAdd_usage, typedAdd_nextUid, typedDiscard_nodes, typedDiscard_links, typedDiscard_patterns, typedDiscard_curves, typedDiscard_sources, typedDiscard_controls, typedDiscard_usage, typedDiscard_nextUid, typedAddAll_nodes, typedAddAll_links, typedAddAll_patterns, typedAddAll_curves, typedAddAll_sources, typedAddAll_controls, typedAddAll_usage, typedAddAll_nextUid, typedDiscardAll_nodes, typedDiscardAll_links, typedDiscardAll_patterns, typedDiscardAll_curves, typedDiscardAll_sources, typedDiscardAll_controls, typedDiscardAll_usage, typedDiscardAll_nextUid, setNode_links, setNode_patterns, setNode_curves, setNode_sources, setNode_controls, setNode_usage, setNode_nextUid, setLink_nodes, setLink_patterns, setLink_curves, setLink_sources, setLink_controls, setLink_usage, setLink_nextUid, bumpUid_nodes, bumpUid_links, bumpUid_patterns, bumpUid_curves, bumpUid_sources, bumpUid_controls, bumpUid_usage, bumpUid_typed, dropControls_nodes, dropControls_links, dropControls_patterns, dropControls_curves, dropControls_sources, dropControls_usage, dropControls_typed, dropControls_nextUid, removeUsageO_nodes, removeUsageO_links, removeUsageO_patterns, removeUsageO_curves, removeUsageO_sources, removeUsageO_controls, removeUsageO_typed, removeUsageO_nextUid,
  setCurveTypeR_nodes, setCurveTypeR_links, setCurveTypeR_patterns, setCurveTypeR_curves, setCurveTypeR_sources, setCurveTypeR_controls, setCurveTypeR_usage, setCurveTypeR_nextUid, setCurveTypeOR_nodes, setCurveTypeOR_links, setCurveTypeOR_patterns, setCurveTypeOR_curves, setCurveTypeOR_sources, setCurveTypeOR_controls, setCurveTypeOR_usage, setCurveTypeOR_nextUid,
  removeUserAll_nodes, removeUserAll_links, removeUserAll_patterns, removeUserAll_curves, removeUserAll_sources, removeUserAll_controls, removeUserAll_typed, removeUserAll_nextUid, removeUserAllO_nodes, removeUserAllO_links, removeUserAllO_patterns, removeUserAllO_curves, removeUserAllO_sources, removeUserAllO_controls, removeUserAllO_typed, removeUserAllO_nextUid,
  releaseAll_nodes, releaseAll_links, releaseAll_patterns, releaseAll_curves, releaseAll_sources, releaseAll_controls, releaseAll_typed, releaseAll_nextUid,
  mem_releaseAll, mem_demandNames, mem_removeUserAll, mem_removeUserAllO, List.mem_append, List.mem_filter, List.any_eq_true, Bool.not_eq_true', Bool.not_eq_eq_eq_not, Bool.not_true, decide_eq_true_eq,
  setNode_nodes', setLink_links', bumpUid_nextUid, mem_setCurveTypeR, mem_setCurveTypeOR, user_eq_mk,
  mem_addUsage, mem_addUsageO, mem_removeUsageT, mem_removeUsageO, mem_popUsageKey, mem_typedAdd, mem_typedDiscard, mem_typedAddAll,
  mem_typedDiscardAll, mem_setNode_typed, mem_setLink_typed, AL.get?_set, AL.get?_del, OSet.mem_add, OSet.mem_discard,
  ite_some_eq_some, ite_none_eq_some, ite_eq_some_none, or_and_right, exists_or, and_assoc, exists_and_left, exists_eq_left',
  Option.some.injEq, reduceCtorEq, false_and, and_false, or_false, false_or, true_and, and_true, exists_false, not_false_eq_true, not_true_eq_false,
  Prod.mk.injEq, ne_eq, or_imp, forall_and, and_imp, forall_eq, forall_eq', forall_apply_eq_imp_iff,
  mem_nodeSets, mem_allLinkSets, mem_curveSets, fam_nodeSet, fam_curveSet,
  ltype_pipe, isPump_pipe, isValveKind_pipe, ltype_headPump, isPump_headPump, isValveKind_headPump, ltype_powerPump, isPump_powerPump, isValveKind_powerPump, ltype_prv, isPump_prv, isValveKind_prv, ltype_psv, isPump_psv, isValveKind_psv, ltype_pbv, isPump_pbv, isValveKind_pbv, ltype_tcv, isPump_tcv, isValveKind_tcv, ltype_fcv, isPump_fcv, isValveKind_fcv, ltype_gpv, isPump_gpv, isValveKind_gpv, linkSets_pipe, linkSets_headPump, linkSets_powerPump, linkSets_prv, linkSets_psv, linkSets_pbv, linkSets_tcv, linkSets_fcv, linkSets_gpv, isLinkType_pipe, isLinkType_pump, isLinkType_valve, isLinkType_source, isLinkType_junction, isLinkType_reservoir, isLinkType_tank, nodePatUser_junction, nodePatUser_reservoir, nodePatUser_tank, nodeSet_junction, nodeSet_tank, nodeSet_reservoir, curveSet_head, curveSet_headloss, curveSet_volume, curveSet_efficiency, fam_junctions, fam_tanks, fam_reservoirs, fam_pipes, fam_pumps, fam_headPumps, fam_powerPumps, fam_prvs, fam_psvs, fam_pbvs, fam_tcvs, fam_fcvs, fam_gpvs, fam_valves, fam_pumpCurves, fam_effCurves, fam_headlossCurves, fam_volCurves,
  List.mem_cons, List.mem_singleton, List.not_mem_nil] at *)

end Wntr.Registry
