/-
The clauses of `Inv` (model M3) in lookup form, and the simp set / tactic used for the per-operation proofs.
-/
import WntrModel.Lemmas.RegistryState

namespace Wntr.Registry

theorem OAll_iff {α : Type} (o : Option α) (P : α → Prop) : OAll o P ↔ ∀ a, o = some a → P a := Iff.rfl
theorem OAny_iff {α : Type} (o : Option α) (P : α → Prop) : OAny o P ↔ ∃ a, o = some a ∧ P a := Iff.rfl

namespace Clause

theorem typedNodeSound_iff (s : Reg) : typedNodeSound s ↔
    ∀ t ∈ nodeSets, ∀ k ∈ s.typed t, ∃ i, AL.get? s.nodes k = some i ∧ nodeSet i.kind = t := Iff.rfl

theorem typedNodeComplete_iff (s : Reg) : typedNodeComplete s ↔
    ∀ k i, AL.get? s.nodes k = some i → k ∈ s.typed (nodeSet i.kind) := AL.forall_iff _ _

theorem typedLinkSound_iff (s : Reg) : typedLinkSound s ↔
    ∀ t ∈ allLinkSets, ∀ k ∈ s.typed t, ∃ i, AL.get? s.links k = some i ∧ t ∈ linkSets i.kind := Iff.rfl

theorem typedLinkComplete_iff (s : Reg) : typedLinkComplete s ↔
    ∀ k i, AL.get? s.links k = some i → ∀ t ∈ linkSets i.kind, k ∈ s.typed t := AL.forall_iff _ _

theorem typedCurveSound_iff (s : Reg) : typedCurveSound s ↔ ∀ t ∈ curveSets, ∀ k ∈ s.typed t, k ∈ s.curves := Iff.rfl

theorem endsExist_iff (s : Reg) : endsExist s ↔
    ∀ k i, AL.get? s.links k = some i → (∃ a, AL.get? s.nodes i.start = some a) ∧ (∃ b, AL.get? s.nodes i.end_ = some b) := by
  unfold endsExist
  rw [AL.forall_iff]
  simp only [AL.has_eq, Option.isSome_iff_exists]

theorem usageNodeSound_iff (s : Reg) : usageNodeSound s ↔
    ∀ n u, u ∈ ulook (s.usage .node) n →
      (isLinkType u.2 = true ∧ ∃ i, AL.get? s.links u.1 = some i ∧ ltype i.kind = u.2 ∧ (i.start = n ∨ i.end_ = n)) ∨
      (u.2 = .source ∧ ∃ si, AL.get? s.sources u.1 = some si ∧ si.node = n) := uforall_iff _ _ _

theorem usageNodeLinks_iff (s : Reg) : usageNodeLinks s ↔
    ∀ k i, AL.get? s.links k = some i →
      (k, ltype i.kind) ∈ ulook (s.usage .node) i.start ∧ (k, ltype i.kind) ∈ ulook (s.usage .node) i.end_ :=
  AL.forall_iff _ _

theorem usageNodeSources_iff (s : Reg) : usageNodeSources s ↔
    ∀ k si, AL.get? s.sources k = some si → (k, UKind.source) ∈ ulook (s.usage .node) si.node := AL.forall_iff _ _

theorem usagePatSound_iff (s : Reg) : usagePatSound s ↔
    ∀ p u, u ∈ ulook (s.usage .pattern) p →
      ((u.2 = .junction ∨ u.2 = .reservoir) ∧
          ∃ i, AL.get? s.nodes u.1 = some i ∧ nodePatUser i.kind = some u.2 ∧ i.pat = some p) ∨
      (u.2 = .pump ∧ ∃ i, AL.get? s.links u.1 = some i ∧ isPump i.kind = true ∧ i.pat = some p) ∨
      (u.2 = .source ∧ ∃ si, AL.get? s.sources u.1 = some si ∧ si.pat = some p) := uforall_iff _ _ _

theorem usagePatNodes_iff (s : Reg) : usagePatNodes s ↔
    ∀ k i, AL.get? s.nodes k = some i → ∀ uk, nodePatUser i.kind = some uk → ∀ p, i.pat = some p →
      (k, uk) ∈ ulook (s.usage .pattern) p := AL.forall_iff _ _

theorem usagePatLinks_iff (s : Reg) : usagePatLinks s ↔
    ∀ k i, AL.get? s.links k = some i → isPump i.kind = true → ∀ p, i.pat = some p →
      (k, UKind.pump) ∈ ulook (s.usage .pattern) p := AL.forall_iff _ _

theorem usagePatSources_iff (s : Reg) : usagePatSources s ↔
    ∀ k si, AL.get? s.sources k = some si → ∀ p, si.pat = some p → (k, UKind.source) ∈ ulook (s.usage .pattern) p :=
  AL.forall_iff _ _

theorem usageCurveSound_iff (s : Reg) : usageCurveSound s ↔
    ∀ c u, u ∈ ulook (s.usage .curve) c →
      (u.2 = .tank ∧ ∃ i, AL.get? s.nodes u.1 = some i ∧ i.kind = .tank ∧ i.curve = some c) ∨
      (u.2 = .pump ∧ ∃ i, AL.get? s.links u.1 = some i ∧ i.kind = .headPump ∧ i.curve = some c) ∨
      (u.2 = .valve ∧ ∃ i, AL.get? s.links u.1 = some i ∧ i.kind = .gpv ∧ i.curve = some c) := uforall_iff _ _ _

theorem usageCurveNodes_iff (s : Reg) : usageCurveNodes s ↔
    ∀ k i, AL.get? s.nodes k = some i → i.kind = .tank → ∀ c, i.curve = some c → (k, UKind.tank) ∈ ulook (s.usage .curve) c :=
  AL.forall_iff _ _

theorem usageCurveLinks_iff (s : Reg) : usageCurveLinks s ↔
    ∀ k i, AL.get? s.links k = some i →
      (i.kind = .headPump → ∀ c, i.curve = some c → (k, UKind.pump) ∈ ulook (s.usage .curve) c) ∧
      (i.kind = .gpv → ∀ c, i.curve = some c → (k, UKind.valve) ∈ ulook (s.usage .curve) c) := AL.forall_iff _ _

theorem usageObjSound_iff (s : Reg) : usageObjSound s ↔
    ∀ p u, u ∈ ulook (s.usage .patternObj) p → u.2 = .source ∧ ∃ si, AL.get? s.sources u.1 = some si ∧ si.pat = some p :=
  uforall_iff _ _ _

end Clause
end Wntr.Registry
