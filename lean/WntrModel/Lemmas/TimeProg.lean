/- The programs regenerated from `SimTimeCondition.evaluate` / `TimeOfDayCondition.evaluate` (Gen/TimeConds.lean),
   interpreted (Model/TimeProg.lean), ARE the hand-written models of Model/Time.lean — for all inputs. -/
import WntrModel.Gen.TimeConds
import WntrModel.Lemmas.Time

namespace Wntr.TimeProg
open Wntr.Time Wntr.Gen.TimeConds

/-- `SimTimeCondition.evaluate` as it is in the source = `evalSimTime` (value and `_backtrack`), for every relation,
threshold, period `≥ 0` (`repeat=False` is 0, `True` is 86400) and times -/
theorem generated_simTime_is_model (c : SimTimeCond) (prev cur : Int) (hrep : 0 ≤ c.rep) :
    run c.rel simTimeEvaluate (simEnv c prev cur) none = evalSimTime c prev cur := by
  obtain ⟨rel, thr, rep⟩ := c
  simp only at hrep
  by_cases h1 : rep = 0
  · subst h1
    cases rel <;>
      simp [run, execBlock, execStmt, Expr.eval, Env.set, simEnv, b2i, evalSimTime, simTimeCmp, effThr, simTimeEvaluate] <;>
      grind
  · have hpos : rep > 0 := by omega
    by_cases h2 : cur > thr
    · cases rel <;>
        simp [run, execBlock, execStmt, Expr.eval, Env.set, simEnv, b2i, evalSimTime, simTimeCmp, effThr, simTimeEvaluate, h1, h2, hpos] <;>
        grind
    · cases rel <;>
        simp [run, execBlock, execStmt, Expr.eval, Env.set, simEnv, b2i, evalSimTime, simTimeCmp, effThr, simTimeEvaluate, h1, h2, hpos] <;>
        grind

/-- `TimeOfDayCondition.evaluate` as it is in the source = `evalTod`, for every relation, time of day, repeat flag,
first day and (shifted) times -/
theorem generated_tod_is_model (c : TodCond) (prev cur : Int) :
    run c.rel todEvaluate (todEnv c prev cur) none = evalTod c prev cur := by
  obtain ⟨rel, thr, rep, fd⟩ := c
  by_cases hday : cur / 86400 < fd
  · cases rep <;> cases rel <;>
      simp [run, execBlock, execStmt, Expr.eval, Env.set, todEnv, b2i, evalTod, todEvaluate, hday]
  · cases rep
    · by_cases hA : prev < thr + fd * 86400 <;> by_cases hB : thr + fd * 86400 ≤ cur <;> cases rel <;>
        simp [run, execBlock, execStmt, Expr.eval, Env.set, todEnv, b2i, evalTod, TodCond.last, todEvaluate, hday, hA, hB] <;>
        (try grind)
    · by_cases hA : prev < thr + 86400 * ((cur - thr) / 86400) <;>
      by_cases hB : thr + 86400 * ((cur - thr) / 86400) ≤ cur <;>
      by_cases hC : thr + 86400 * ((cur - thr) / 86400) ≥ cur / 86400 * 86400 <;>
      by_cases hD : thr + 86400 * ((cur - thr) / 86400) ≥ fd * 86400 <;>
      by_cases hE : prev < cur / 86400 * 86400 <;> cases rel <;>
        simp [run, execBlock, execStmt, Expr.eval, Env.set, todEnv, b2i, evalTod, TodCond.last, todEvaluate, hday, hA, hB, hC, hD, hE] <;>
        (try grind)

/-! ### the constructor: what period a `repeat` argument gives -/

/-- **a numeric `repeat` gives exactly that period whatever its Python type** (int, float, numpy integer / float) -/
theorem repeat_number_gives_period (r : Int) (k : NumKind) : normRepeat simTimeRepeatInit (.num r k) = r := by
  cases k <;> simp [normRepeat, simTimeRepeatInit, RepStmt.run, RepeatArg.value]

/-- `repeat=True` is once per 24 h; `False` and `None` mean no repeat -/
theorem repeat_true_is_daily : normRepeat simTimeRepeatInit .pyTrue = 86400 := by decide
theorem repeat_false_is_none : normRepeat simTimeRepeatInit .pyFalse = 0 ∧ normRepeat simTimeRepeatInit .pyNone = 0 := by decide

/-- both constructors read the threshold the same way (decimal-hours string, else `_parse_value`) -/
theorem threshold_init_shape : simTimeThresholdInit = .hoursStringTimes3600ElseParseValue ∧
    todThresholdInit = .hoursStringTimes3600ElseParseValue := by decide

end Wntr.TimeProg
