/-
Soundness of the polynomial normal form / row equivalence of `Model/LinkRows.lean` over ℝ:
`rowEquiv a b = true → ∀ env, eval realOps env a = eval realOps env b`.
-/
import WntrModel.Lemmas.LinkRowsReal

set_option linter.unusedSimpArgs false
set_option linter.unusedVariables false

namespace Wntr.LinkRows
open Wntr.Aml Wntr.Rows

section
variable (env : Env ℝ)

/-- value of a monomial: the product of its atoms -/
noncomputable def monoVal (m : Mono) : ℝ := (m.map (eval realOps env)).prod

/-- value of a polynomial -/
noncomputable def polyVal (p : Poly) : ℝ := (p.map fun x => (x.2 : ℝ) * monoVal env x.1).sum

theorem monoVal_append (a b : Mono) : monoVal env (a ++ b) = monoVal env a * monoVal env b := by
  simp [monoVal, List.map_append, List.prod_append]

theorem monoVal_perm {a b : Mono} (h : a.Perm b) : monoVal env a = monoVal env b :=
  (h.map _).prod_eq

@[simp] theorem polyVal_nil : polyVal env [] = 0 := rfl
@[simp] theorem polyVal_cons (x : Mono × Rat) (p : Poly) :
    polyVal env (x :: p) = (x.2 : ℝ) * monoVal env x.1 + polyVal env p := by simp [polyVal]

theorem polyVal_append (p q : Poly) : polyVal env (p ++ q) = polyVal env p + polyVal env q := by
  simp [polyVal, List.map_append, List.sum_append]

theorem polyVal_neg (p : Poly) : polyVal env (Poly.neg p) = -polyVal env p := by
  induction p with
  | nil => simp [Poly.neg]
  | cons x t ih =>
    have : Poly.neg (x :: t) = (x.1, -x.2) :: Poly.neg t := rfl
    rw [this, polyVal_cons, polyVal_cons, ih]; push_cast; ring

theorem polyVal_scaleMono (m : Mono) (c : Rat) (q : Poly) :
    polyVal env (q.map fun y => (m ++ y.1, c * y.2)) = (c : ℝ) * monoVal env m * polyVal env q := by
  induction q with
  | nil => simp
  | cons y t ih => rw [List.map_cons, polyVal_cons, polyVal_cons, ih, monoVal_append]; push_cast; ring

theorem polyVal_mul (p q : Poly) : polyVal env (Poly.mul p q) = polyVal env p * polyVal env q := by
  induction p with
  | nil => simp [Poly.mul]
  | cons x t ih =>
    have : Poly.mul (x :: t) q = (q.map fun y => (x.1 ++ y.1, x.2 * y.2)) ++ Poly.mul t q := by
      simp [Poly.mul, List.flatMap_cons]
    rw [this, polyVal_append, polyVal_scaleMono, ih, polyVal_cons]; ring

theorem polyVal_atom (e : Expr) : polyVal env [([e], 1)] = eval realOps env e := by
  simp [polyVal, monoVal]

theorem smallPow_spec {b : Expr} {n : Nat} (h : smallPow b = some n) : b = .const (n : Rat) ∧ (n = 1 ∨ n = 2 ∨ n = 3) := by
  cases b <;> simp only [smallPow] at h <;> try exact absurd h (by simp)
  rename_i q
  split_ifs at h with h1 h2 h3 <;> simp at h <;> subst h
  · exact ⟨by rw [h1]; rfl, Or.inl rfl⟩
  · exact ⟨by rw [h2]; rfl, Or.inr (Or.inl rfl)⟩
  · exact ⟨by rw [h3]; rfl, Or.inr (Or.inr rfl)⟩

/-- the polynomial of an expression evaluates like the expression -/
theorem toPoly_sound (e : Expr) : polyVal env (toPoly e) = eval realOps env e := by
  induction e with
  | var i => simp [toPoly, polyVal, monoVal, eval]
  | param i => simp [toPoly, polyVal, monoVal, eval]
  | const q => simp [toPoly, polyVal, monoVal, eval]
  | ifElse c t e _ _ _ => exact polyVal_atom env _
  | ineq b lb ub _ => exact polyVal_atom env _
  | un op a ih =>
    cases op <;> try exact polyVal_atom env _
    simp only [toPoly, polyVal_neg, ih, eval, Ops.un, realOps_neg]
  | bin op a b iha ihb =>
    cases op
    · simp only [toPoly, polyVal_append, iha, ihb, eval, Ops.bin, realOps_add]
    · simp only [toPoly, polyVal_append, polyVal_neg, iha, ihb, eval, Ops.bin, realOps_sub]; ring
    · simp only [toPoly, polyVal_mul, iha, ihb, eval, Ops.bin, realOps_mul]
    · exact polyVal_atom env _
    · simp only [toPoly]
      cases hs : smallPow b with
      | none => exact polyVal_atom env _
      | some n =>
        obtain ⟨hb, hn⟩ := smallPow_spec hs
        rcases hn with rfl | rfl | rfl
        · simp only [iha, hb, eval, Ops.bin, realOps_pow, realOps_ofRat]; simp
        · simp only [polyVal_mul, iha, hb, eval, Ops.bin, realOps_pow, realOps_ofRat]
          have : (((2 : ℕ) : Rat) : ℝ) = ((2 : ℚ) : ℝ) := by norm_num
          rw [this, rpow_two]; ring
        · simp only [polyVal_mul, iha, hb, eval, Ops.bin, realOps_pow, realOps_ofRat]
          have : (((3 : ℕ) : Rat) : ℝ) = ((3 : ℚ) : ℝ) := by norm_num
          rw [this, rpow_three]; ring

theorem polyVal_filter_split (p : Poly) (P : Mono × Rat → Bool) :
    polyVal env p = polyVal env (p.filter P) + polyVal env (p.filter fun y => !P y) := by
  induction p with
  | nil => simp
  | cons x t ih =>
    by_cases h : P x = true
    · simp only [List.filter_cons, h, if_true, Bool.not_true, Bool.false_eq_true, if_false, polyVal_cons, ih]; ring
    · have h' : P x = false := by simpa using h
      simp only [List.filter_cons, h', Bool.false_eq_true, if_false, Bool.not_false, if_true, polyVal_cons, ih]; ring

theorem sumC_cast (l : List Rat) : ((sumC l : Rat) : ℝ) = (l.map fun c => (c : ℝ)).sum := by
  induction l with
  | nil => simp [sumC]
  | cons x t ih => simp [sumC, ih]

theorem polyVal_same (m : Mono) (p : Poly) (h : ∀ y ∈ p, y.1.isPerm m = true) :
    polyVal env p = ((sumC (p.map (·.2)) : Rat) : ℝ) * monoVal env m := by
  induction p with
  | nil => simp [sumC]
  | cons y t ih =>
    have hy : y.1.Perm m := List.isPerm_iff.1 (h y (by simp))
    rw [polyVal_cons, ih (fun z hz => h z (by simp [hz])), monoVal_perm env hy]
    simp only [List.map_cons, sumC]; push_cast; ring

/-- a polynomial that `cancels` is identically zero -/
theorem cancels_sound (n : Nat) (p : Poly) (h : cancels n p = true) : polyVal env p = 0 := by
  induction n generalizing p with
  | zero =>
    cases p with
    | nil => rfl
    | cons x t => simp [cancels] at h
  | succ k ih =>
    cases p with
    | nil => rfl
    | cons x t =>
      simp only [cancels, Bool.and_eq_true, decide_eq_true_eq] at h
      obtain ⟨hc, hrest⟩ := h
      rw [polyVal_cons, polyVal_filter_split env t (fun y => y.1.isPerm x.1), ih _ hrest,
        polyVal_same env x.1 _ (fun y hy => (List.mem_filter.1 hy).2)]
      have hc' : ((x.2 + sumC ((t.filter fun y => y.1.isPerm x.1).map (·.2)) : Rat) : ℝ) = 0 := by rw [hc]; simp
      push_cast at hc'
      linear_combination (monoVal env x.1) * hc'

theorem polyEquiv_sound (a b : Expr) (h : polyEquiv a b = true) : eval realOps env a = eval realOps env b := by
  have := cancels_sound env _ _ h
  rw [polyVal_append, polyVal_neg, toPoly_sound, toPoly_sound] at this
  linarith

theorem condEquiv_sound (c1 c2 : Expr) (h : condEquiv c1 c2 = true) : eval realOps env c1 = eval realOps env c2 := by
  unfold condEquiv at h
  split at h
  · simp only [Bool.and_eq_true, decide_eq_true_eq] at h
    obtain ⟨⟨rfl, rfl⟩, hb⟩ := h
    simp only [eval, polyEquiv_sound env _ _ hb]
  · simp only [decide_eq_true_eq] at h; rw [h]

/-- **soundness of the semantic row comparison** -/
theorem rowEquiv_sound (a b : Expr) (h : rowEquiv a b = true) : eval realOps env a = eval realOps env b := by
  induction a generalizing b with
  | ifElse c1 t1 e1 _ iht ihe =>
    cases b with
    | ifElse c2 t2 e2 =>
      simp only [rowEquiv, Bool.and_eq_true] at h
      obtain ⟨⟨hc, ht⟩, he⟩ := h
      simp only [eval, condEquiv_sound env _ _ hc, iht _ ht, ihe _ he]
    | _ => exact polyEquiv_sound env _ _ (by simpa [rowEquiv] using h)
  | _ => exact polyEquiv_sound env _ _ (by simpa [rowEquiv] using h)

end

end Wntr.LinkRows
