/-
C16: the presolve contract discharged for worlds whose presolve controls are time conditions (SimTime / TimeOfDay, and
combinations) and whose rules sit on the rule clock -- the scheduler model M5 of C04/C10 (`Model/Sched.lean`, read-only)
plugged into the run loop.  The solver and the post-solve controls stay ARBITRARY (they may rewrite every controlled value);
they only cannot touch `_rule_iter`, which `run_sim` changes nowhere but in the presolve pass.
`Wntr.Sched.presolve_landed` (Lemmas/Sched.lean) gives `prev < t' ≤ cur` from `Sched.Inv`; this file shows that the run loop
keeps `Sched.Inv` (in the two shapes it takes before and after the presolve pass), so `Contract` is a theorem for these worlds.
-/
import WntrModel.Lemmas.RunLoop
import WntrModel.Lemmas.Sched

namespace Wntr.RunLoop

open Wntr.Sched (Vals)

variable {A RN RL : Type}

/-- where a presolve pass `s ↦ s'` leaves the clock and the rule clock (the part of `Wntr.Sched.Landed` the run loop needs) -/
structure Lands (scfg : Wntr.Sched.Cfg) (s s' : Wntr.Sched.St) : Prop where
  gt : s.prevTime < s'.simTime
  le : s'.simTime ≤ s.simTime
  iter_lo : s'.ruleIter * scfg.rule - scfg.rule ≤ s'.simTime
  iter_hi : s'.simTime < s'.ruleIter * scfg.rule
  rl : Wntr.Sched.RL scfg.rule s'.ruleIter s'.ruleLog

/-- the run-loop world over the scheduler state with presolve pass `P` (the C04 model, the interpreted generated program, or
the C04 loop over any due list); the solver and the post-solve controls are arbitrary over the controlled values and a hidden state `A` -/
def schedWorldP (P : Bool → Wntr.Sched.St → Wntr.Sched.St)
    (solveF : Vals × A → Nat → Bool → (Vals × A) × SolveOutcome) (postF : Vals × A → (Vals × A) × Bool)
    (nodeRowF : Wntr.Sched.St × A → RN) (linkRowF : Wntr.Sched.St × A → RL) : World (Wntr.Sched.St × A) RN RL where
  presolve := fun w t p first =>
    ((P first { w.1 with simTime := t, prevTime := p }, w.2), (P first { w.1 with simTime := t, prevTime := p }).simTime)
  solve := fun w n b => (({ w.1 with vals := (solveF (w.1.vals, w.2) n b).1.1 }, (solveF (w.1.vals, w.2) n b).1.2),
                         (solveF (w.1.vals, w.2) n b).2)
  post := fun w => (({ w.1 with vals := (postF (w.1.vals, w.2)).1.1 }, (postF (w.1.vals, w.2)).1.2), (postF (w.1.vals, w.2)).2)
  nodeRow := nodeRowF
  linkRow := linkRowF

/-- the world whose presolve pass is the hand-written C04 model -/
def schedWorld (scfg : Wntr.Sched.Cfg)
    (solveF : Vals × A → Nat → Bool → (Vals × A) × SolveOutcome) (postF : Vals × A → (Vals × A) × Bool)
    (nodeRowF : Wntr.Sched.St × A → RN) (linkRowF : Wntr.Sched.St × A → RL) : World (Wntr.Sched.St × A) RN RL :=
  schedWorldP (Wntr.Sched.presolve scfg) solveF postF nodeRowF linkRowF

variable (scfg : Wntr.Sched.Cfg) (P : Bool → Wntr.Sched.St → Wntr.Sched.St)
  (solveF : Vals × A → Nat → Bool → (Vals × A) × SolveOutcome) (postF : Vals × A → (Vals × A) × Bool)
  (nodeRowF : Wntr.Sched.St × A → RN) (linkRowF : Wntr.Sched.St × A → RL) (cfg : Cfg)

/-- `Sched.Inv` as it looks from the run loop: before the presolve pass of a step (`resolve = false`) the rule clock
brackets the previous accepted time, after it (`resolve = true`, or between the phases) it brackets the current time -/
structure J (s : St (Wntr.Sched.St × A) RN RL) : Prop where
  lt : s.prevTime < s.simTime
  rl : Wntr.Sched.RL scfg.rule s.w.1.ruleIter s.w.1.ruleLog
  fresh : s.resolve = false → s.prevTime < s.w.1.ruleIter * scfg.rule ∧ s.w.1.ruleIter * scfg.rule - scfg.rule ≤ s.prevTime + 1
  mid : s.resolve = true → s.simTime < s.w.1.ruleIter * scfg.rule ∧ s.w.1.ruleIter * scfg.rule - scfg.rule ≤ s.simTime

/-- between presolve and accept: the clock is bracketed by the rule clock -/
structure JM (s : St (Wntr.Sched.St × A) RN RL) : Prop where
  lt : s.prevTime < s.simTime
  rl : Wntr.Sched.RL scfg.rule s.w.1.ruleIter s.w.1.ruleLog
  hi : s.simTime < s.w.1.ruleIter * scfg.rule
  lo : s.w.1.ruleIter * scfg.rule - scfg.rule ≤ s.simTime

theorem J.inv {s : St (Wntr.Sched.St × A) RN RL} (j : J scfg s) (hr : s.resolve = false) :
    Wntr.Sched.Inv scfg { s.w.1 with simTime := s.simTime, prevTime := s.prevTime } :=
  ⟨j.lt, (j.fresh hr).1, (j.fresh hr).2, j.rl⟩

/-- the contract at one state -/
theorem presolveOK_of_J (hP : ∀ first s, Wntr.Sched.Inv scfg s → Lands scfg s (P first s))
    {s : St (Wntr.Sched.St × A) RN RL} (j : J scfg s) :
    PresolveOK (schedWorldP P solveF postF nodeRowF linkRowF) s := by
  intro _ hr
  have L := hP s.firstStep _ (j.inv scfg hr)
  exact ⟨L.gt, L.le⟩

theorem presolve_JM (hP : ∀ first s, Wntr.Sched.Inv scfg s → Lands scfg s (P first s))
    {s : St (Wntr.Sched.St × A) RN RL} (j : J scfg s) :
    JM scfg (presolvePhase (schedWorldP P solveF postF nodeRowF linkRowF) s) := by
  cases hr : s.resolve with
  | true =>
    rw [presolvePhase_resolve _ hr]
    exact ⟨j.lt, j.rl, (j.mid hr).1, (j.mid hr).2⟩
  | false =>
    rw [presolvePhase_fresh _ hr]
    have L := hP s.firstStep _ (j.inv scfg hr)
    exact ⟨L.gt, L.rl, L.iter_hi, L.iter_lo⟩

theorem solveCall_JM {s : St (Wntr.Sched.St × A) RN RL} (j : JM scfg s) (b : Bool) :
    JM scfg (solveCall (schedWorldP P solveF postF nodeRowF linkRowF) s b).1 :=
  ⟨j.lt, j.rl, j.hi, j.lo⟩

theorem solve_JM {s : St (Wntr.Sched.St × A) RN RL} (j : JM scfg s) :
    JM scfg (solvePhase (schedWorldP P solveF postF nodeRowF linkRowF) cfg s).1 := by
  have e : solvePhase (schedWorldP P solveF postF nodeRowF linkRowF) cfg s =
      if (!(solveCall (schedWorldP P solveF postF nodeRowF linkRowF) s false).2.ok && cfg.backup) = true then
        solveCall (schedWorldP P solveF postF nodeRowF linkRowF)
          (solveCall (schedWorldP P solveF postF nodeRowF linkRowF) s false).1 true
      else solveCall (schedWorldP P solveF postF nodeRowF linkRowF) s false := rfl
  rw [e]
  by_cases h : (!(solveCall (schedWorldP P solveF postF nodeRowF linkRowF) s false).2.ok && cfg.backup) = true
  · simp only [if_pos h]
    exact solveCall_JM scfg P solveF postF nodeRowF linkRowF (solveCall_JM scfg P solveF postF nodeRowF linkRowF j false) true
  · simp only [if_neg h]
    exact solveCall_JM scfg P solveF postF nodeRowF linkRowF j false

theorem accept_J (hH : 1 ≤ cfg.hyd) {s : St (Wntr.Sched.St × A) RN RL} (j : JM scfg s) (_hh : s.halt = none) :
    (acceptPhase (schedWorldP P solveF postF nodeRowF linkRowF) cfg s).halt ≠ none ∨
      J scfg (acceptPhase (schedWorldP P solveF postF nodeRowF linkRowF) cfg s) := by
  have hm1 := Int.emod_lt_of_pos (s.simTime + cfg.hyd) (by omega : 0 < cfg.hyd)
  have hlo := j.lo; have hhi := j.hi
  unfold acceptPhase
  simp only
  split
  · split
    · left; simp
    · split
      · left; simp
      · right
        exact ⟨by simp only; omega, j.rl, fun _ => ⟨by simp only; omega, by simp only; omega⟩, fun h => by simp at h⟩
  · split
    · left; simp
    · right
      exact ⟨by simp only; omega, j.rl, fun _ => ⟨by simp only; omega, by simp only; omega⟩, fun h => by simp at h⟩

theorem post_J (hH : 1 ≤ cfg.hyd) {s : St (Wntr.Sched.St × A) RN RL} (j : JM scfg s) (hh : s.halt = none) :
    (postPhase (schedWorldP P solveF postF nodeRowF linkRowF) cfg s).halt ≠ none ∨
      J scfg (postPhase (schedWorldP P solveF postF nodeRowF linkRowF) cfg s) := by
  unfold postPhase
  simp only
  split
  · split
    · left; simp
    · right
      exact ⟨j.lt, j.rl, fun h => by simp at h, fun _ => ⟨j.hi, j.lo⟩⟩
  · exact accept_J scfg P solveF postF nodeRowF linkRowF cfg hH
      (s := { s with w := ((schedWorldP P solveF postF nodeRowF linkRowF).post s.w).1 })
      ⟨j.lt, j.rl, j.hi, j.lo⟩ hh

/-- one pass keeps the scheduler invariant (or leaves the loop) -/
theorem step_J (hP : ∀ first s, Wntr.Sched.Inv scfg s → Lands scfg s (P first s)) (hH : 1 ≤ cfg.hyd) {s : St (Wntr.Sched.St × A) RN RL} (j : J scfg s) (hh : s.halt = none) :
    (step (schedWorldP P solveF postF nodeRowF linkRowF) cfg s).halt ≠ none ∨
      J scfg (step (schedWorldP P solveF postF nodeRowF linkRowF) cfg s) := by
  have j1 := presolve_JM scfg P solveF postF nodeRowF linkRowF hP j
  have j2 := solve_JM scfg P solveF postF nodeRowF linkRowF cfg j1
  have h2 : (solvePhase (schedWorldP P solveF postF nodeRowF linkRowF) cfg
      (presolvePhase (schedWorldP P solveF postF nodeRowF linkRowF) s)).1.halt = none := by
    obtain ⟨w', l, heq, _⟩ := solvePhase_spec (schedWorldP P solveF postF nodeRowF linkRowF) cfg
      (presolvePhase (schedWorldP P solveF postF nodeRowF linkRowF) s)
    rw [heq]
    cases hr : s.resolve with
    | true => rw [presolvePhase_resolve _ hr]; exact hh
    | false => rw [presolvePhase_fresh _ hr]; exact hh
  rw [step_running _ cfg hh]
  split
  · exact post_J scfg P solveF postF nodeRowF linkRowF cfg hH j2 h2
  · left; simp

/-- **the contract holds along every run of a scheduler world that starts from a state satisfying `Sched.Inv`** -/
theorem sched_contract (hP : ∀ first s, Wntr.Sched.Inv scfg s → Lands scfg s (P first s)) (hH : 1 ≤ cfg.hyd) (s0 : St (Wntr.Sched.St × A) RN RL)
    (h0 : s0.halt ≠ none ∨ J scfg s0) :
    Contract (schedWorldP P solveF postF nodeRowF linkRowF) cfg s0 := by
  have key : ∀ n, (iter (schedWorldP P solveF postF nodeRowF linkRowF) cfg n s0).halt ≠ none ∨
      J scfg (iter (schedWorldP P solveF postF nodeRowF linkRowF) cfg n s0) := by
    intro n
    induction n with
    | zero => exact h0
    | succ n ih =>
      rw [iter_succ']
      rcases ih with ih | ih
      · rw [step_of_halted _ cfg ih]; exact Or.inl ih
      · by_cases hh : (iter (schedWorldP P solveF postF nodeRowF linkRowF) cfg n s0).halt = none
        · exact step_J scfg P solveF postF nodeRowF linkRowF cfg hP hH ih hh
        · rw [step_of_halted _ cfg hh]; exact Or.inl hh
  intro n
  rcases key n with h | h
  · intro hn; exact absurd hn h
  · exact presolveOK_of_J scfg P solveF postF nodeRowF linkRowF hP h

/-! ### three presolve passes that land -/

/-- the hand-written C04 scheduler -/
theorem lands_presolve (hR : 0 < scfg.rule) (first : Bool) (s : Wntr.Sched.St) (inv : Wntr.Sched.Inv scfg s) :
    Lands scfg s (Wntr.Sched.presolve scfg first s) := by
  have L := Wntr.Sched.presolve_landed hR first inv
  exact ⟨L.gt, L.le, L.iter_lo, L.iter_hi, L.rl⟩

/-- the C04 loop over ANY due list that is sorted by decreasing backtrack with every backtrack in `[0, cur − prev)`
(`Wntr.Sched.LoopCtx`): time conditions, tank-level conditions (`Wntr.Tank.tank_backtrack_inside_step`), any mixture -/
theorem lands_loop (due : List Wntr.Sched.Due) (s : Wntr.Sched.St) (inv : Wntr.Sched.Inv scfg s)
    (ctx : Wntr.Sched.LoopCtx scfg due s.simTime s.prevTime) :
    Lands scfg s (Wntr.Sched.presolveLoop scfg s.vals due (Wntr.Sched.presolveFuel scfg due s) 0 s) := by
  have hinv : Wntr.Sched.LoopInv scfg due s.simTime s.prevTime 0 s := by
    refine ⟨rfl, rfl, inv.hi, by have := inv.lo; have := inv.lt; omega, ?_, inv.rl⟩
    intro d hd
    have := ctx.back_hi d (List.mem_of_mem_drop hd)
    have := inv.lo
    omega
  have hm : Wntr.Sched.loopMeasure scfg due s.simTime 0 s < Wntr.Sched.presolveFuel scfg due s := by
    simp only [Wntr.Sched.loopMeasure, Wntr.Sched.presolveFuel]; omega
  have L : Wntr.Sched.Landed scfg due s.vals s.simTime s.prevTime
      (Wntr.Sched.presolveLoop scfg s.vals due (Wntr.Sched.presolveFuel scfg due s) 0 s) :=
    Wntr.Sched.presolveLoop_rule scfg s.vals due (Wntr.Sched.LoopInv scfg due s.simTime s.prevTime)
      (Wntr.Sched.Landed scfg due s.vals s.simTime s.prevTime) (Wntr.Sched.loopMeasure scfg due s.simTime)
      (fun cnt s' h => Wntr.Sched.loopStep_spec ctx cnt s' h) _ 0 s hinv hm
  exact ⟨L.gt, L.le, L.iter_lo, L.iter_hi, L.rl⟩

end Wntr.RunLoop
