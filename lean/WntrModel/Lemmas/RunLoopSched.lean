/-
C16: the presolve contract discharged for worlds whose presolve controls are time conditions (SimTime / TimeOfDay, and
combinations) and whose rules sit on the rule clock -- the scheduler model M5 of C04/C10 (`Model/Sched.lean`, read-only)
plugged into the run loop.  The solver and the post-solve controls stay ARBITRARY (they may rewrite every controlled value);
they only cannot touch `_rule_iter`, which `run_sim` changes nowhere but in the presolve pass.
`Wntr.Sched.presolve_landed` (Lemmas/Sched.lean) gives `prev < t' ≤ cur` from `Sched.Inv`; this file shows that the run loop
keeps `Sched.Inv` (in the two shapes it takes before and after the presolve pass), so `Contract` is a theorem for these worlds.
-/
import WntrModel.Lemmas.RunLoop
import WntrModel.Lemmas.Sched

namespace Wntr.RunLoop

open Wntr.Sched (Vals)

variable {A RN RL : Type}

/-- the run-loop world of a scheduler configuration: presolve is the C04 model, the rest is arbitrary over the controlled
values and a hidden state `A` -/
def schedWorld (scfg : Wntr.Sched.Cfg)
    (solveF : Vals × A → Nat → Bool → (Vals × A) × SolveOutcome) (postF : Vals × A → (Vals × A) × Bool)
    (nodeRowF : Wntr.Sched.St × A → RN) (linkRowF : Wntr.Sched.St × A → RL) : World (Wntr.Sched.St × A) RN RL where
  presolve := fun w t p first =>
    ((Wntr.Sched.presolve scfg first { w.1 with simTime := t, prevTime := p }, w.2),
     (Wntr.Sched.presolve scfg first { w.1 with simTime := t, prevTime := p }).simTime)
  solve := fun w n b => (({ w.1 with vals := (solveF (w.1.vals, w.2) n b).1.1 }, (solveF (w.1.vals, w.2) n b).1.2),
                         (solveF (w.1.vals, w.2) n b).2)
  post := fun w => (({ w.1 with vals := (postF (w.1.vals, w.2)).1.1 }, (postF (w.1.vals, w.2)).1.2), (postF (w.1.vals, w.2)).2)
  nodeRow := nodeRowF
  linkRow := linkRowF

variable (scfg : Wntr.Sched.Cfg)
  (solveF : Vals × A → Nat → Bool → (Vals × A) × SolveOutcome) (postF : Vals × A → (Vals × A) × Bool)
  (nodeRowF : Wntr.Sched.St × A → RN) (linkRowF : Wntr.Sched.St × A → RL) (cfg : Cfg)

/-- `Sched.Inv` as it looks from the run loop: before the presolve pass of a step (`resolve = false`) the rule clock
brackets the previous accepted time, after it (`resolve = true`, or between the phases) it brackets the current time -/
structure J (s : St (Wntr.Sched.St × A) RN RL) : Prop where
  lt : s.prevTime < s.simTime
  rl : Wntr.Sched.RL scfg.rule s.w.1.ruleIter s.w.1.ruleLog
  fresh : s.resolve = false → s.prevTime < s.w.1.ruleIter * scfg.rule ∧ s.w.1.ruleIter * scfg.rule - scfg.rule ≤ s.prevTime + 1
  mid : s.resolve = true → s.simTime < s.w.1.ruleIter * scfg.rule ∧ s.w.1.ruleIter * scfg.rule - scfg.rule ≤ s.simTime

/-- between presolve and accept: the clock is bracketed by the rule clock -/
structure JM (s : St (Wntr.Sched.St × A) RN RL) : Prop where
  lt : s.prevTime < s.simTime
  rl : Wntr.Sched.RL scfg.rule s.w.1.ruleIter s.w.1.ruleLog
  hi : s.simTime < s.w.1.ruleIter * scfg.rule
  lo : s.w.1.ruleIter * scfg.rule - scfg.rule ≤ s.simTime

theorem J.inv {s : St (Wntr.Sched.St × A) RN RL} (j : J scfg s) (hr : s.resolve = false) :
    Wntr.Sched.Inv scfg { s.w.1 with simTime := s.simTime, prevTime := s.prevTime } :=
  ⟨j.lt, (j.fresh hr).1, (j.fresh hr).2, j.rl⟩

/-- the contract at one state -/
theorem presolveOK_of_J (hR : 0 < scfg.rule) {s : St (Wntr.Sched.St × A) RN RL} (j : J scfg s) :
    PresolveOK (schedWorld scfg solveF postF nodeRowF linkRowF) s := by
  intro _ hr
  have L := Wntr.Sched.presolve_landed hR s.firstStep (j.inv scfg hr)
  exact ⟨L.gt, L.le⟩

theorem presolve_JM (hR : 0 < scfg.rule) {s : St (Wntr.Sched.St × A) RN RL} (j : J scfg s) :
    JM scfg (presolvePhase (schedWorld scfg solveF postF nodeRowF linkRowF) s) := by
  cases hr : s.resolve with
  | true =>
    rw [presolvePhase_resolve _ hr]
    exact ⟨j.lt, j.rl, (j.mid hr).1, (j.mid hr).2⟩
  | false =>
    rw [presolvePhase_fresh _ hr]
    have L := Wntr.Sched.presolve_landed hR s.firstStep (j.inv scfg hr)
    exact ⟨L.gt, L.rl, L.iter_hi, L.iter_lo⟩

theorem solveCall_JM {s : St (Wntr.Sched.St × A) RN RL} (j : JM scfg s) (b : Bool) :
    JM scfg (solveCall (schedWorld scfg solveF postF nodeRowF linkRowF) s b).1 :=
  ⟨j.lt, j.rl, j.hi, j.lo⟩

theorem solve_JM {s : St (Wntr.Sched.St × A) RN RL} (j : JM scfg s) :
    JM scfg (solvePhase (schedWorld scfg solveF postF nodeRowF linkRowF) cfg s).1 := by
  have e : solvePhase (schedWorld scfg solveF postF nodeRowF linkRowF) cfg s =
      if (!(solveCall (schedWorld scfg solveF postF nodeRowF linkRowF) s false).2.ok && cfg.backup) = true then
        solveCall (schedWorld scfg solveF postF nodeRowF linkRowF)
          (solveCall (schedWorld scfg solveF postF nodeRowF linkRowF) s false).1 true
      else solveCall (schedWorld scfg solveF postF nodeRowF linkRowF) s false := rfl
  rw [e]
  by_cases h : (!(solveCall (schedWorld scfg solveF postF nodeRowF linkRowF) s false).2.ok && cfg.backup) = true
  · simp only [if_pos h]
    exact solveCall_JM scfg solveF postF nodeRowF linkRowF (solveCall_JM scfg solveF postF nodeRowF linkRowF j false) true
  · simp only [if_neg h]
    exact solveCall_JM scfg solveF postF nodeRowF linkRowF j false

theorem accept_J (hH : 1 ≤ cfg.hyd) {s : St (Wntr.Sched.St × A) RN RL} (j : JM scfg s) (_hh : s.halt = none) :
    (acceptPhase (schedWorld scfg solveF postF nodeRowF linkRowF) cfg s).halt ≠ none ∨
      J scfg (acceptPhase (schedWorld scfg solveF postF nodeRowF linkRowF) cfg s) := by
  have hm1 := Int.emod_lt_of_pos (s.simTime + cfg.hyd) (by omega : 0 < cfg.hyd)
  have hlo := j.lo; have hhi := j.hi
  unfold acceptPhase
  simp only
  split
  · split
    · left; simp
    · split
      · left; simp
      · right
        exact ⟨by simp only; omega, j.rl, fun _ => ⟨by simp only; omega, by simp only; omega⟩, fun h => by simp at h⟩
  · split
    · left; simp
    · right
      exact ⟨by simp only; omega, j.rl, fun _ => ⟨by simp only; omega, by simp only; omega⟩, fun h => by simp at h⟩

theorem post_J (hH : 1 ≤ cfg.hyd) {s : St (Wntr.Sched.St × A) RN RL} (j : JM scfg s) (hh : s.halt = none) :
    (postPhase (schedWorld scfg solveF postF nodeRowF linkRowF) cfg s).halt ≠ none ∨
      J scfg (postPhase (schedWorld scfg solveF postF nodeRowF linkRowF) cfg s) := by
  unfold postPhase
  simp only
  split
  · split
    · left; simp
    · right
      exact ⟨j.lt, j.rl, fun h => by simp at h, fun _ => ⟨j.hi, j.lo⟩⟩
  · exact accept_J scfg solveF postF nodeRowF linkRowF cfg hH
      (s := { s with w := ((schedWorld scfg solveF postF nodeRowF linkRowF).post s.w).1 })
      ⟨j.lt, j.rl, j.hi, j.lo⟩ hh

/-- one pass keeps the scheduler invariant (or leaves the loop) -/
theorem step_J (hR : 0 < scfg.rule) (hH : 1 ≤ cfg.hyd) {s : St (Wntr.Sched.St × A) RN RL} (j : J scfg s) (hh : s.halt = none) :
    (step (schedWorld scfg solveF postF nodeRowF linkRowF) cfg s).halt ≠ none ∨
      J scfg (step (schedWorld scfg solveF postF nodeRowF linkRowF) cfg s) := by
  have j1 := presolve_JM scfg solveF postF nodeRowF linkRowF hR j
  have j2 := solve_JM scfg solveF postF nodeRowF linkRowF cfg j1
  have h2 : (solvePhase (schedWorld scfg solveF postF nodeRowF linkRowF) cfg
      (presolvePhase (schedWorld scfg solveF postF nodeRowF linkRowF) s)).1.halt = none := by
    obtain ⟨w', l, heq, _⟩ := solvePhase_spec (schedWorld scfg solveF postF nodeRowF linkRowF) cfg
      (presolvePhase (schedWorld scfg solveF postF nodeRowF linkRowF) s)
    rw [heq]
    cases hr : s.resolve with
    | true => rw [presolvePhase_resolve _ hr]; exact hh
    | false => rw [presolvePhase_fresh _ hr]; exact hh
  rw [step_running _ cfg hh]
  split
  · exact post_J scfg solveF postF nodeRowF linkRowF cfg hH j2 h2
  · left; simp

/-- **the contract holds along every run of a scheduler world that starts from a state satisfying `Sched.Inv`** -/
theorem sched_contract (hR : 0 < scfg.rule) (hH : 1 ≤ cfg.hyd) (s0 : St (Wntr.Sched.St × A) RN RL)
    (h0 : s0.halt ≠ none ∨ J scfg s0) :
    Contract (schedWorld scfg solveF postF nodeRowF linkRowF) cfg s0 := by
  have key : ∀ n, (iter (schedWorld scfg solveF postF nodeRowF linkRowF) cfg n s0).halt ≠ none ∨
      J scfg (iter (schedWorld scfg solveF postF nodeRowF linkRowF) cfg n s0) := by
    intro n
    induction n with
    | zero => exact h0
    | succ n ih =>
      rw [iter_succ']
      rcases ih with ih | ih
      · rw [step_of_halted _ cfg ih]; exact Or.inl ih
      · by_cases hh : (iter (schedWorld scfg solveF postF nodeRowF linkRowF) cfg n s0).halt = none
        · exact step_J scfg solveF postF nodeRowF linkRowF cfg hR hH ih hh
        · rw [step_of_halted _ cfg hh]; exact Or.inl hh
  intro n
  rcases key n with h | h
  · intro hn; exact absurd hn h
  · exact presolveOK_of_J scfg solveF postF nodeRowF linkRowF hR h

end Wntr.RunLoop
