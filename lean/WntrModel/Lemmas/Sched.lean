/- Helper lemmas for M5 `Sched` (used by Props/C04, C10, C16): values, the two stable sorts, the groups of
   equal backtrack, one pass of the pre-solve loop as a step function, and the loop rules built on it. -/
import WntrModel.Model.Sched
import WntrModel.Lemmas.Time
import Mathlib.Tactic.Linarith
import Mathlib.Data.List.Induction
import Mathlib.Data.List.TakeWhile

namespace Wntr.Sched
open Wntr.Time

/-! ### values -/

theorem Vals.get_set_self (v : Vals) (k : Nat) (x : Int) : (Vals.set v k x).get k = x := by
  induction v with
  | nil => simp [Vals.set, Vals.get]
  | cons p rest ih =>
    obtain ⟨k', y⟩ := p
    unfold Vals.set
    by_cases h : (k' == k) = true
    · simp [h, Vals.get]
    · simp only [h, Bool.false_eq_true, if_false]
      simp only [Vals.get, List.find?, h] at ih ⊢
      exact ih

theorem Vals.get_set_other (v : Vals) (k k' : Nat) (x : Int) (hne : k' ≠ k) :
    (Vals.set v k x).get k' = Vals.get v k' := by
  induction v with
  | nil =>
    have : (k == k') = false := by simpa using (Ne.symm hne)
    simp [Vals.set, Vals.get, List.find?, this]
  | cons p rest ih =>
    obtain ⟨k1, y⟩ := p
    unfold Vals.set
    by_cases h : (k1 == k) = true
    · have hk : k1 = k := by simpa using h
      subst hk
      have h2 : (k1 == k') = false := by simpa using (Ne.symm hne)
      simp [Vals.get, List.find?, h2]
    · simp only [h, Bool.false_eq_true, if_false]
      by_cases h3 : (k1 == k') = true
      · simp [Vals.get, List.find?, h3]
      · simp only [Vals.get, List.find?, h3] at ih ⊢
        exact ih

/-- the value the action list leaves on key `k` (the last write wins), if it writes `k` at all -/
def actsWrite (k : Nat) : List Action → Option Int
  | [] => none
  | a :: as => match actsWrite k as with
    | some x => some x
    | none => if a.key = k then some a.value else none

theorem runActions_get (as : List Action) (v : Vals) (k : Nat) :
    (runActions v as).get k = (actsWrite k as).getD (v.get k) := by
  induction as generalizing v with
  | nil => simp [runActions, actsWrite]
  | cons a as ih =>
    have ih' := ih (v.set a.key a.value)
    simp only [runActions, List.foldl_cons] at ih' ⊢
    rw [ih']
    simp only [actsWrite]
    cases h : actsWrite k as with
    | some x => simp
    | none =>
      by_cases hk : a.key = k
      · subst hk; simp [Vals.get_set_self]
      · simp [hk, Vals.get_set_other v a.key k a.value (Ne.symm hk)]

/-- the action list of the branch a due control runs -/
def Due.acts (d : Due) : List Action :=
  match d.which with
  | .thenB => d.ctl.thenA
  | .elseB => d.ctl.elseA

theorem Due.run_eq (d : Due) (v : Vals) : d.run v = runActions v d.acts := by
  unfold Due.run Due.acts; cases d.which <;> rfl

/-- what a due control leaves on key `k` -/
def Due.writes (k : Nat) (d : Due) : Option Int := actsWrite k d.acts

theorem Due.run_get (d : Due) (v : Vals) (k : Nat) : (d.run v).get k = (d.writes k).getD (v.get k) := by
  rw [Due.run_eq, runActions_get]; rfl

/-- the last control of the list that writes `k` -/
def lastWriter (k : Nat) : List Due → Option Due
  | [] => none
  | d :: ds => match lastWriter k ds with
    | some w => some w
    | none => if (d.writes k).isSome then some d else none

theorem lastWriter_append (k : Nat) (a b : List Due) :
    lastWriter k (a ++ b) = (lastWriter k b).or (lastWriter k a) := by
  induction a with
  | nil => simp [lastWriter]
  | cons d ds ih =>
    simp only [List.cons_append, lastWriter, ih]
    cases lastWriter k b <;> simp

theorem lastWriter_some {k : Nat} {l : List Due} {w : Due} (h : lastWriter k l = some w) :
    w ∈ l ∧ (w.writes k).isSome := by
  induction l with
  | nil => simp [lastWriter] at h
  | cons d ds ih =>
    simp only [lastWriter] at h
    cases h2 : lastWriter k ds with
    | some w' =>
      rw [h2] at h; simp only [Option.some.injEq] at h; subst h
      exact ⟨List.mem_cons_of_mem _ (ih h2).1, (ih h2).2⟩
    | none =>
      rw [h2] at h
      by_cases hd : (d.writes k).isSome
      · simp only [hd, if_true, Option.some.injEq] at h; subst h; exact ⟨List.mem_cons_self, hd⟩
      · simp [hd] at h

theorem lastWriter_none {k : Nat} {l : List Due} (h : lastWriter k l = none) :
    ∀ d ∈ l, d.writes k = none := by
  induction l with
  | nil => simp
  | cons d ds ih =>
    simp only [lastWriter] at h
    cases h2 : lastWriter k ds with
    | some w' => rw [h2] at h; simp at h
    | none =>
      rw [h2] at h
      intro x hx
      rcases List.mem_cons.1 hx with rfl | hx
      · by_cases hd : (x.writes k).isSome
        · simp [hd] at h
        · simpa using hd
      · exact ih h2 x hx

/-- running a list of due controls in order leaves on `k` what its last writer writes -/
theorem foldl_run_get (l : List Due) (v : Vals) (k : Nat) :
    (l.foldl (fun v d => d.run v) v).get k =
      match lastWriter k l with
      | some w => (w.writes k).getD 0
      | none => v.get k := by
  induction l generalizing v with
  | nil => simp [lastWriter]
  | cons d ds ih =>
    simp only [List.foldl_cons, lastWriter]
    rw [ih]
    cases h2 : lastWriter k ds with
    | some w => simp
    | none =>
      simp only [Due.run_get]
      cases hd : d.writes k <;> simp [hd]

/-- frame: a key no control of the list writes keeps its value -/
theorem foldl_run_frame (l : List Due) (v : Vals) (k : Nat) (h : ∀ d ∈ l, d.writes k = none) :
    (l.foldl (fun v d => d.run v) v).get k = v.get k := by
  induction l generalizing v with
  | nil => rfl
  | cons d ds ih =>
    simp only [List.foldl_cons]
    rw [ih _ (fun x hx => h x (List.mem_cons_of_mem _ hx)), Due.run_get, h d List.mem_cons_self]
    rfl

/-! ### the stable insertion sort -/

section SortSec
variable (le : Due → Due → Bool)

theorem insertBy_eq (x : Due) (l : List Due) :
    insertBy le x l = l.takeWhile (fun y => le y x) ++ x :: l.dropWhile (fun y => le y x) := by
  induction l with
  | nil => simp [insertBy]
  | cons y ys ih =>
    unfold insertBy
    by_cases h : le y x = true
    · simp [h, List.takeWhile, List.dropWhile, ih]
    · simp [h, List.takeWhile, List.dropWhile]

theorem sortBy_nil : sortBy le [] = [] := rfl

theorem insertBy_cons (x y : Due) (ys : List Due) :
    insertBy le x (y :: ys) = if le y x then y :: insertBy le x ys else x :: y :: ys := rfl

theorem sortBy_snoc (l : List Due) (x : Due) : sortBy le (l ++ [x]) = insertBy le x (sortBy le l) := by
  simp [sortBy, List.foldl_append]

theorem mem_insertBy {x y : Due} {l : List Due} : y ∈ insertBy le x l ↔ y = x ∨ y ∈ l := by
  rw [insertBy_eq]
  constructor
  · intro h
    rcases List.mem_append.1 h with h | h
    · exact Or.inr ((List.takeWhile_sublist _).subset h)
    · rcases List.mem_cons.1 h with h | h
      · exact Or.inl h
      · exact Or.inr ((List.dropWhile_sublist _).subset h)
  · intro h
    rcases h with rfl | h
    · simp
    · have : y ∈ l.takeWhile (fun y => le y x) ++ l.dropWhile (fun y => le y x) := by
        rw [List.takeWhile_append_dropWhile]; exact h
      rcases List.mem_append.1 this with h | h
      · exact List.mem_append_left _ h
      · exact List.mem_append_right _ (List.mem_cons_of_mem _ h)

theorem mem_sortBy {y : Due} {l : List Due} : y ∈ sortBy le l ↔ y ∈ l := by
  induction l using List.reverseRecOn with
  | nil => simp [sortBy]
  | append_singleton l x ih =>
    rw [sortBy_snoc, mem_insertBy, ih]
    simp [or_comm]

theorem length_insertBy (x : Due) (l : List Due) : (insertBy le x l).length = l.length + 1 := by
  induction l with
  | nil => simp [insertBy]
  | cons y ys ih => unfold insertBy; split <;> simp [ih]

theorem length_sortBy (l : List Due) : (sortBy le l).length = l.length := by
  induction l using List.reverseRecOn with
  | nil => simp [sortBy]
  | append_singleton l x ih => rw [sortBy_snoc, length_insertBy, ih]; simp

variable (htot : ∀ a b, le a b = true ∨ le b a = true) (htr : ∀ a b c, le a b = true → le b c = true → le a c = true)
include htot htr

theorem sorted_insertBy (x : Due) (l : List Due) (h : l.Pairwise (fun a b => le a b = true)) :
    (insertBy le x l).Pairwise (fun a b => le a b = true) := by
  induction l with
  | nil => simp [insertBy]
  | cons y ys ih =>
    unfold insertBy
    rw [List.pairwise_cons] at h
    by_cases hyx : le y x = true
    · simp only [hyx, if_true, List.pairwise_cons]
      refine ⟨?_, ih h.2⟩
      intro z hz
      rcases (mem_insertBy le).1 hz with rfl | hz
      · exact hyx
      · exact h.1 z hz
    · simp only [hyx, Bool.false_eq_true, if_false, List.pairwise_cons]
      have hxy : le x y = true := (htot x y).resolve_right hyx
      refine ⟨?_, h.1, h.2⟩
      intro z hz
      rcases List.mem_cons.1 hz with rfl | hz
      · exact hxy
      · exact htr _ _ _ hxy (h.1 z hz)

theorem sorted_sortBy (l : List Due) : (sortBy le l).Pairwise (fun a b => le a b = true) := by
  induction l using List.reverseRecOn with
  | nil => simp [sortBy]
  | append_singleton l x ih => rw [sortBy_snoc]; exact sorted_insertBy le htot htr x _ ih

omit htot htr in
theorem insertBy_front (x : Due) (l : List Due) (h : ∀ z ∈ l, le z x = false) : insertBy le x l = x :: l := by
  cases l with
  | nil => rfl
  | cons y ys => unfold insertBy; simp [h y List.mem_cons_self]

omit htot in
/-- filtering commutes with inserting into a sorted list -/
theorem filter_insertBy (p : Due → Bool) (x : Due) (l : List Due) (hs : l.Pairwise (fun a b => le a b = true)) :
    (insertBy le x l).filter p = if p x then insertBy le x (l.filter p) else l.filter p := by
  induction l with
  | nil => by_cases hx : p x = true <;> simp [insertBy, List.filter, hx]
  | cons y ys ih =>
    rw [List.pairwise_cons] at hs
    have ih := ih hs.2
    rw [insertBy_cons]
    by_cases hyx : le y x = true
    · rw [if_pos hyx]
      by_cases hy : p y = true
      · rw [List.filter_cons_of_pos hy, List.filter_cons_of_pos hy, ih]
        by_cases hx : p x = true
        · rw [if_pos hx, if_pos hx, insertBy_cons, if_pos hyx]
        · rw [if_neg hx, if_neg hx]
      · rw [List.filter_cons_of_neg hy, List.filter_cons_of_neg hy, ih]
    · rw [if_neg hyx]
      by_cases hx : p x = true
      · rw [if_pos hx, List.filter_cons_of_pos hx]
        by_cases hy : p y = true
        · rw [List.filter_cons_of_pos hy, insertBy_cons, if_neg hyx]
        · rw [List.filter_cons_of_neg hy]
          -- x goes in front of the filtered tail: every element of ys is behind y, hence behind x
          rw [insertBy_front]
          intro z hz
          have hz' : z ∈ ys := (List.mem_filter.1 hz).1
          cases hzx : le z x with
          | false => rfl
          | true => exact absurd (htr _ _ _ (hs.1 z hz') hzx) hyx
      · rw [if_neg hx, List.filter_cons_of_neg hx]

/-- **stability**: the sort keeps the relative order inside every class picked out by a predicate -/
theorem filter_sortBy (p : Due → Bool) (l : List Due) : (sortBy le l).filter p = sortBy le (l.filter p) := by
  induction l using List.reverseRecOn with
  | nil => simp [sortBy]
  | append_singleton l x ih =>
    rw [sortBy_snoc, filter_insertBy le htr p x _ (sorted_sortBy le htot htr l), ih, List.filter_append]
    by_cases hx : p x = true
    · simp [hx, List.filter, sortBy_snoc]
    · simp [hx, List.filter]

end SortSec

/-! ### the two sort keys of the simulator -/

/-- `.sort(key=priority)` -/
def prioLe (a b : Due) : Bool := decide (a.ctl.prio ≤ b.ctl.prio)
/-- `.sort(key=backtrack, reverse=True)` -/
def backGe (a b : Due) : Bool := decide (a.back ≥ b.back)

theorem sortDue_eq (l : List Due) : sortDue l = sortBy backGe (sortBy prioLe l) := rfl

theorem prioLe_total (a b : Due) : prioLe a b = true ∨ prioLe b a = true := by
  simp only [prioLe, decide_eq_true_eq]; omega
theorem prioLe_trans (a b c : Due) : prioLe a b = true → prioLe b c = true → prioLe a c = true := by
  simp only [prioLe, decide_eq_true_eq]; omega
theorem backGe_total (a b : Due) : backGe a b = true ∨ backGe b a = true := by
  simp only [backGe, decide_eq_true_eq]; omega
theorem backGe_trans (a b c : Due) : backGe a b = true → backGe b c = true → backGe a c = true := by
  simp only [backGe, decide_eq_true_eq]; omega

theorem mem_sortDue {d : Due} {l : List Due} : d ∈ sortDue l ↔ d ∈ l := by
  rw [sortDue_eq, mem_sortBy, mem_sortBy]

theorem length_sortDue (l : List Due) : (sortDue l).length = l.length := by
  rw [sortDue_eq, length_sortBy, length_sortBy]

/-- the due list is in the time order of the instants: backtracks descending -/
theorem sortDue_sorted (l : List Due) : (sortDue l).Pairwise (fun a b => b.back ≤ a.back) := by
  have h := sorted_sortBy backGe backGe_total backGe_trans (sortBy prioLe l)
  rw [sortDue_eq]
  exact h.imp (fun {a b} hab => by simpa [backGe] using hab)

/-- in a sorted list everything behind the insertion point is strictly behind `x` -/
theorem dropWhile_not_le (le : Due → Due → Bool)
    (htr : ∀ a b c, le a b = true → le b c = true → le a c = true) (x : Due) (l : List Due)
    (hs : l.Pairwise (fun a b => le a b = true)) : ∀ z ∈ l.dropWhile (fun y => le y x), le z x = false := by
  induction l with
  | nil => simp
  | cons y ys ih =>
    rw [List.pairwise_cons] at hs
    by_cases hyx : le y x = true
    · rw [List.dropWhile_cons_of_pos (by simpa using hyx)]; exact ih hs.2
    · rw [List.dropWhile_cons_of_neg (by simpa using hyx)]
      intro z hz
      rcases List.mem_cons.1 hz with rfl | hz
      · simpa using hyx
      · cases hzx : le z x with
        | false => rfl
        | true => exact absurd (htr _ _ _ (hs.1 z hz) hzx) hyx

theorem sortBy_id (le : Due → Due → Bool) (l : List Due) (h : ∀ a ∈ l, ∀ b ∈ l, le a b = true) : sortBy le l = l := by
  induction l using List.reverseRecOn with
  | nil => rfl
  | append_singleton l x ih =>
    rw [sortBy_snoc, ih (fun a ha b hb => h a (List.mem_append_left _ ha) b (List.mem_append_left _ hb)), insertBy_eq]
    have hall : ∀ y ∈ l, (fun y => le y x) y = true := fun y hy => h y (List.mem_append_left _ hy) x (by simp)
    rw [List.takeWhile_eq_self_iff.2 hall, List.dropWhile_eq_nil_iff.2 hall]

/-- **same instant ⇒ priority order, stable**: the controls of the due list that share a backtrack `b` appear
in ascending priority, equal priorities in registration order -/
theorem sortDue_group (l : List Due) (b : Int) :
    (sortDue l).filter (fun d => d.back == b) = sortBy prioLe (l.filter (fun d => d.back == b)) := by
  rw [sortDue_eq, filter_sortBy backGe backGe_total backGe_trans, filter_sortBy prioLe prioLe_total prioLe_trans]
  apply sortBy_id
  intro a ha c hc
  have ha' := (List.mem_filter.1 ((mem_sortBy prioLe).1 ha)).2
  have hc' := (List.mem_filter.1 ((mem_sortBy prioLe).1 hc)).2
  simp only [beq_iff_eq] at ha' hc'
  simp [backGe, ha', hc']

/-! ### who wins: highest priority, ties to the later registration -/

def winStep (k : Nat) (best : Option Due) (d : Due) : Option Due :=
  if (d.writes k).isSome then
    match best with
    | some b => if b.ctl.prio ≤ d.ctl.prio then some d else some b
    | none => some d
  else best

/-- specification of the outcome on key `k`, over the list in REGISTRATION order: the writer with the highest
priority, the latest registered among equals -/
def winner (k : Nat) (l : List Due) : Option Due := l.foldl (winStep k) none

theorem winner_snoc (k : Nat) (l : List Due) (x : Due) : winner k (l ++ [x]) = winStep k (winner k l) x := by
  simp [winner, List.foldl_append]

theorem lastWriter_sortBy_prio (k : Nat) (l : List Due) : lastWriter k (sortBy prioLe l) = winner k l := by
  induction l using List.reverseRecOn with
  | nil => rfl
  | append_singleton l x ih =>
    have hS := sorted_sortBy prioLe prioLe_total prioLe_trans l
    have hdrop := dropWhile_not_le prioLe prioLe_trans x _ hS
    have htake : ∀ z ∈ (sortBy prioLe l).takeWhile (fun y => prioLe y x), prioLe z x = true :=
      fun z hz => List.mem_takeWhile_imp (p := fun y => prioLe y x) hz
    have hsplit : lastWriter k (sortBy prioLe l) =
        (lastWriter k ((sortBy prioLe l).dropWhile (fun y => prioLe y x))).or
          (lastWriter k ((sortBy prioLe l).takeWhile (fun y => prioLe y x))) := by
      rw [← lastWriter_append, List.takeWhile_append_dropWhile]
    rw [sortBy_snoc, insertBy_eq, lastWriter_append, winner_snoc, ← ih]
    generalize (sortBy prioLe l).dropWhile (fun y => prioLe y x) = D at *
    generalize (sortBy prioLe l).takeWhile (fun y => prioLe y x) = T at *
    rw [hsplit]
    simp only [lastWriter, winStep]
    by_cases hx : (x.writes k).isSome
    · simp only [hx, if_true]
      cases hD : lastWriter k D with
      | some w =>
        have hw := hdrop w (lastWriter_some hD).1
        simp only [prioLe, decide_eq_false_iff_not] at hw
        simp [hw]
      | none =>
        cases hT : lastWriter k T with
        | some b =>
          have hb := htake b (lastWriter_some hT).1
          simp only [prioLe, decide_eq_true_eq] at hb
          simp [hb]
        | none => simp
    · simp only [hx, Bool.false_eq_true, if_false]
      cases hD : lastWriter k D <;> simp

theorem winner_none {k : Nat} {l : List Due} (h : winner k l = none) : ∀ d ∈ l, d.writes k = none := by
  rw [← lastWriter_sortBy_prio] at h
  intro d hd
  exact lastWriter_none h d ((mem_sortBy prioLe).2 hd)

/-- the winner is a writer of `k`, no writer has a higher priority, and every writer registered after it has a
strictly lower priority -/
theorem winner_spec {k : Nat} {l : List Due} {w : Due} (h : winner k l = some w) :
    ∃ l1 l2, l = l1 ++ w :: l2 ∧ (w.writes k).isSome ∧
      (∀ d ∈ l1, (d.writes k).isSome → d.ctl.prio ≤ w.ctl.prio) ∧
      (∀ d ∈ l2, (d.writes k).isSome → d.ctl.prio < w.ctl.prio) := by
  induction l using List.reverseRecOn generalizing w with
  | nil => simp [winner] at h
  | append_singleton l x ih =>
    rw [winner_snoc] at h
    unfold winStep at h
    by_cases hx : (x.writes k).isSome
    · simp only [hx, if_true] at h
      cases hb : winner k l with
      | none =>
        rw [hb] at h; simp only [Option.some.injEq] at h; subst h
        refine ⟨l, [], rfl, hx, ?_, by simp⟩
        intro d hd hdw
        have := winner_none hb d hd
        simp [this] at hdw
      | some b =>
        rw [hb] at h
        obtain ⟨l1, l2, hl, hbw, h1, h2⟩ := ih hb
        by_cases hp : b.ctl.prio ≤ x.ctl.prio
        · simp only [hp, if_true, Option.some.injEq] at h; subst h
          refine ⟨l, [], rfl, hx, ?_, by simp⟩
          intro d hd hdw
          rw [hl] at hd
          rcases List.mem_append.1 hd with hd | hd
          · exact le_trans (h1 d hd hdw) hp
          · rcases List.mem_cons.1 hd with rfl | hd
            · exact hp
            · exact le_trans (le_of_lt (h2 d hd hdw)) hp
        · simp only [hp, if_false, Option.some.injEq] at h; subst h
          refine ⟨l1, l2 ++ [x], by simp [hl], hbw, h1, ?_⟩
          intro d hd hdw
          rcases List.mem_append.1 hd with hd | hd
          · exact h2 d hd hdw
          · simp only [List.mem_singleton] at hd; subst hd; omega
    · simp only [hx, Bool.false_eq_true, if_false] at h
      obtain ⟨l1, l2, hl, hbw, h1, h2⟩ := ih h
      refine ⟨l1, l2 ++ [x], by simp [hl], hbw, h1, ?_⟩
      intro d hd hdw
      rcases List.mem_append.1 hd with hd | hd
      · exact h2 d hd hdw
      · simp only [List.mem_singleton] at hd; subst hd; exact absurd hdw hx

/-! ### conditions report backtracks inside the step -/

theorem Cond.eval_back (c : Cond) (sc prev cur : Int) (h : prev < cur) :
    ∃ b, (c.eval sc prev cur).2 = some b ∧ 0 ≤ b ∧ b < cur - prev := by
  cases c with
  | sim c => exact simTime_backtrack_bounds c prev cur h
  | tod c =>
    obtain ⟨b, hb, h0, h1⟩ := tod_backtrack_bounds c (prev + sc) (cur + sc) (by omega)
    exact ⟨b, hb, h0, by omega⟩
  | and a b => exact ⟨0, rfl, le_refl _, by omega⟩
  | or a b => exact ⟨0, rfl, le_refl _, by omega⟩

/-- everything `ControlChecker.check` returns is a registered control with a backtrack inside the step -/
theorem check_mem {sc prev cur : Int} {cs : List Ctl} {d : Due} (h : prev < cur) (hd : d ∈ check sc prev cur cs) :
    d.ctl ∈ cs ∧ 0 ≤ d.back ∧ d.back < cur - prev := by
  unfold check at hd
  obtain ⟨c, hc, hcd⟩ := List.mem_filterMap.1 hd
  obtain ⟨b, hb, h0, h1⟩ := Cond.eval_back c.cond sc prev cur h
  rcases hev : c.cond.eval sc prev cur with ⟨v, ob⟩
  rw [hev] at hcd hb
  simp only at hb; subst hb
  simp only at hcd
  split at hcd
  · simp only [Option.some.injEq] at hcd; subst hcd; exact ⟨hc, h0, h1⟩
  · split at hcd
    · simp only [Option.some.injEq] at hcd; subst hcd; exact ⟨hc, h0, h1⟩
    · simp at hcd

/-! ### `evalRulesAt`, `runRules`, `runGroup` -/

@[simp] theorem evalRulesAt_simTime (cfg : Cfg) (r : Int) (s : St) : (evalRulesAt cfg r s).simTime = r := rfl
@[simp] theorem evalRulesAt_prevTime (cfg : Cfg) (r : Int) (s : St) : (evalRulesAt cfg r s).prevTime = s.prevTime := rfl
@[simp] theorem evalRulesAt_ruleIter (cfg : Cfg) (r : Int) (s : St) : (evalRulesAt cfg r s).ruleIter = s.ruleIter + 1 := rfl
@[simp] theorem evalRulesAt_ruleLog (cfg : Cfg) (r : Int) (s : St) : (evalRulesAt cfg r s).ruleLog = s.ruleLog ++ [r] := rfl

/-- no action list of the control writes key `k` -/
def Ctl.silentOn (k : Nat) (c : Ctl) : Prop := actsWrite k c.thenA = none ∧ actsWrite k c.elseA = none

theorem Due.writes_none_of_silent {k : Nat} {d : Due} (h : d.ctl.silentOn k) : d.writes k = none := by
  unfold Due.writes Due.acts; cases d.which
  · exact h.1
  · exact h.2

theorem check_ctl_mem {sc prev cur : Int} {cs : List Ctl} {d : Due} (hd : d ∈ check sc prev cur cs) : d.ctl ∈ cs := by
  unfold check at hd
  obtain ⟨c, hc, hcd⟩ := List.mem_filterMap.1 hd
  rcases hev : c.cond.eval sc prev cur with ⟨v, ob⟩
  rw [hev] at hcd
  simp only at hcd
  split at hcd
  · simp only [Option.some.injEq] at hcd; subst hcd; exact hc
  · split at hcd
    · simp only [Option.some.injEq] at hcd; subst hcd; exact hc
    · simp at hcd

theorem evalRulesAt_frame (cfg : Cfg) (r : Int) (s : St) (k : Nat)
    (h : ∀ c ∈ cfg.rules, c.silentOn k) : (evalRulesAt cfg r s).vals.get k = s.vals.get k := by
  unfold evalRulesAt runRules
  simp only
  apply foldl_run_frame
  intro d hd
  exact Due.writes_none_of_silent (h _ (check_ctl_mem ((mem_sortBy _).1 hd)))

theorem runGroup_cnt_le (due : List Due) (cnt : Nat) (b : Int) (v : Vals) (fuel : Nat) :
    cnt ≤ (runGroup due cnt b v fuel).2 := by
  fun_induction runGroup due cnt b v fuel <;> (simp_all; try omega)

theorem runGroup_cnt_lt (due : List Due) (cnt : Nat) (d : Due) (v : Vals) (fuel : Nat) (h : due[cnt]? = some d) :
    cnt < (runGroup due cnt d.back v (fuel + 1)).2 := by
  unfold runGroup
  simp only [h, beq_self_eq_true, if_true]
  have := runGroup_cnt_le due (cnt + 1) d.back (d.run v) fuel
  omega

theorem runGroup_frame (due : List Due) (cnt : Nat) (b : Int) (v : Vals) (fuel : Nat) (k : Nat)
    (h : ∀ d ∈ due, d.writes k = none) : (runGroup due cnt b v fuel).1.get k = v.get k := by
  fun_induction runGroup due cnt b v fuel with
  | case1 => rfl
  | case2 cnt v fuel d hd hb ih =>
    rw [ih, Due.run_get, h d (List.mem_of_getElem? hd)]; rfl
  | case3 => rfl
  | case4 => rfl

/-! ### one pass of the `while` loop as a step function -/

inductive StepRes where
  | done (s : St)
  | cont (cnt : Nat) (s : St)

/-- the body of the `while` loop of `_compute_next_timestep_and_run_presolve_controls_and_rules`: `done` = the loop
is left (condition false, or `break`), `cont` = next iteration -/
def loopStep (cfg : Cfg) (ref : Vals) (due : List Due) (cnt : Nat) (s : St) : StepRes :=
  if cnt < due.length ∨ s.ruleIter * cfg.rule ≤ s.simTime then
    match due[cnt]? with
    | none =>
      let s1 := evalRulesAt cfg (s.ruleIter * cfg.rule) s
      if changed ref s1.vals then .done s1 else .cont cnt { s1 with simTime := s.simTime }
    | some d =>
      if s.simTime - d.back < s.ruleIter * cfg.rule then
        let r := runGroup due cnt d.back s.vals (due.length + 1)
        if changed ref r.1 then .done { s with vals := r.1, simTime := s.simTime - d.back }
        else .cont r.2 { s with vals := r.1 }
      else if s.simTime - d.back = s.ruleIter * cfg.rule then
        let s1 := evalRulesAt cfg (s.simTime - d.back) s
        let r := runGroup due cnt d.back s1.vals (due.length + 1)
        if changed ref r.1 then .done { s1 with vals := r.1 }
        else .cont r.2 { s1 with vals := r.1, simTime := s1.simTime + d.back }
      else
        let s1 := evalRulesAt cfg (s.ruleIter * cfg.rule) s
        if changed ref s1.vals then .done s1 else .cont cnt { s1 with simTime := s.simTime }
  else .done s

theorem presolveLoop_zero (cfg : Cfg) (ref : Vals) (due : List Due) (cnt : Nat) (s : St) :
    presolveLoop cfg ref due 0 cnt s = s := rfl

theorem presolveLoop_succ (cfg : Cfg) (ref : Vals) (due : List Due) (fuel cnt : Nat) (s : St) :
    presolveLoop cfg ref due (fuel + 1) cnt s =
      match loopStep cfg ref due cnt s with
      | .done s' => s'
      | .cont c s' => presolveLoop cfg ref due fuel c s' := by
  rw [presolveLoop, loopStep]
  by_cases hc : cnt < due.length ∨ s.ruleIter * cfg.rule ≤ s.simTime
  · rw [if_pos hc, if_pos hc]
    cases hd : due[cnt]? with
    | none =>
      simp only
      by_cases hch : changed ref (evalRulesAt cfg (s.ruleIter * cfg.rule) s).vals = true
      · rw [if_pos hch, if_pos hch]
      · rw [if_neg hch, if_neg hch]
    | some d =>
      simp only
      by_cases h1 : s.simTime - d.back < s.ruleIter * cfg.rule
      · rw [if_pos h1, if_pos h1]
        by_cases hch : changed ref (runGroup due cnt d.back s.vals (due.length + 1)).1 = true
        · rw [if_pos hch, if_pos hch]
        · rw [if_neg hch, if_neg hch]
      · rw [if_neg h1, if_neg h1]
        by_cases h2 : s.simTime - d.back = s.ruleIter * cfg.rule
        · rw [if_pos h2, if_pos h2]
          by_cases hch : changed ref (runGroup due cnt d.back (evalRulesAt cfg (s.simTime - d.back) s).vals (due.length + 1)).1 = true
          · rw [if_pos hch, if_pos hch]
          · rw [if_neg hch, if_neg hch]
        · rw [if_neg h2, if_neg h2]
          by_cases hch : changed ref (evalRulesAt cfg (s.ruleIter * cfg.rule) s).vals = true
          · rw [if_pos hch, if_pos hch]
          · rw [if_neg hch, if_neg hch]
  · rw [if_neg hc, if_neg hc]

/-- **loop rule (total)**: an invariant `P` with a measure `μ` that every `cont` step decreases carries to the
result of the fuelled loop whenever the fuel exceeds the measure — so the loop ended by itself -/
theorem presolveLoop_rule (cfg : Cfg) (ref : Vals) (due : List Due) (P : Nat → St → Prop) (Q : St → Prop)
    (μ : Nat → St → Nat)
    (hstep : ∀ cnt s, P cnt s → match loopStep cfg ref due cnt s with
      | .done s' => Q s'
      | .cont c s' => P c s' ∧ μ c s' < μ cnt s) :
    ∀ fuel cnt s, P cnt s → μ cnt s < fuel → Q (presolveLoop cfg ref due fuel cnt s) := by
  intro fuel
  induction fuel with
  | zero => intro cnt s _ h; omega
  | succ n ih =>
    intro cnt s hP hμ
    rw [presolveLoop_succ]
    have := hstep cnt s hP
    cases hl : loopStep cfg ref due cnt s with
    | done s' => rw [hl] at this; exact this
    | cont c s' => rw [hl] at this; exact ih c s' this.1 (by omega)

/-- **fuel is irrelevant** above the measure: two runs with enough fuel give the same state -/
theorem presolveLoop_fuel (cfg : Cfg) (ref : Vals) (due : List Due) (P : Nat → St → Prop) (μ : Nat → St → Nat)
    (hstep : ∀ cnt s, P cnt s → match loopStep cfg ref due cnt s with
      | .done _ => True
      | .cont c s' => P c s' ∧ μ c s' < μ cnt s) :
    ∀ n m cnt s, P cnt s → μ cnt s < n → μ cnt s < m →
      presolveLoop cfg ref due n cnt s = presolveLoop cfg ref due m cnt s := by
  intro n
  induction n with
  | zero => intro m cnt s _ h; omega
  | succ n ih =>
    intro m cnt s hP hn hm
    cases m with
    | zero => omega
    | succ m =>
      rw [presolveLoop_succ, presolveLoop_succ]
      have := hstep cnt s hP
      cases hl : loopStep cfg ref due cnt s with
      | done s' => rfl
      | cont c s' => rw [hl] at this; exact ih m c s' this.1 (by omega) (by omega)

/-- **loop rule (state invariant)**: a predicate kept by every step holds of the result, whatever the fuel -/
theorem presolveLoop_keeps (cfg : Cfg) (ref : Vals) (due : List Due) (I : St → Prop)
    (hstep : ∀ cnt s, I s → match loopStep cfg ref due cnt s with
      | .done s' => I s'
      | .cont _ s' => I s') :
    ∀ fuel cnt s, I s → I (presolveLoop cfg ref due fuel cnt s) := by
  intro fuel
  induction fuel with
  | zero => intro cnt s h; exact h
  | succ n ih =>
    intro cnt s hI
    rw [presolveLoop_succ]
    have := hstep cnt s hI
    cases hl : loopStep cfg ref due cnt s with
    | done s' => rw [hl] at this; exact this
    | cont c s' => rw [hl] at this; exact ih c s' this

/-! ### the master invariant of the pre-solve loop -/

/-- well-formed rule log: entries are `k * rule` with `1 ≤ k < it`, strictly increasing -/
def RL (rule it : Int) (log : List Int) : Prop :=
  1 ≤ it ∧ (∀ r ∈ log, ∃ k : Int, 1 ≤ k ∧ k < it ∧ r = k * rule) ∧ log.Pairwise (· < ·)

theorem RL_snoc {rule it : Int} {log : List Int} (hr : 0 < rule) (h : RL rule it log) :
    RL rule (it + 1) (log ++ [it * rule]) := by
  obtain ⟨h1, h2, h3⟩ := h
  refine ⟨by omega, ?_, ?_⟩
  · intro r hr'
    rcases List.mem_append.1 hr' with hr' | hr'
    · obtain ⟨k, hk1, hk2, hk3⟩ := h2 r hr'
      exact ⟨k, hk1, by omega, hk3⟩
    · simp only [List.mem_singleton] at hr'
      exact ⟨it, h1, by omega, hr'⟩
  · rw [List.pairwise_append]
    refine ⟨h3, List.pairwise_singleton _ _, ?_⟩
    intro a ha b hb
    simp only [List.mem_singleton] at hb
    obtain ⟨k, _, hk2, hk3⟩ := h2 a ha
    rw [hb, hk3]
    exact Int.mul_lt_mul_of_pos_right hk2 hr

/-- what is fixed during one call of the loop -/
structure LoopCtx (cfg : Cfg) (due : List Due) (cur prev : Int) : Prop where
  rule_pos : 0 < cfg.rule
  lt : prev < cur
  sorted : due.Pairwise (fun a b => b.back ≤ a.back)
  back_lo : ∀ d ∈ due, 0 ≤ d.back
  back_hi : ∀ d ∈ due, d.back < cur - prev

structure LoopInv (cfg : Cfg) (due : List Due) (cur prev : Int) (cnt : Nat) (s : St) : Prop where
  sim_eq : s.simTime = cur
  prev_eq : s.prevTime = prev
  hi : prev < s.ruleIter * cfg.rule
  lo_cur : s.ruleIter * cfg.rule - cfg.rule ≤ cur
  lo_due : ∀ d ∈ due.drop cnt, s.ruleIter * cfg.rule - cfg.rule ≤ cur - d.back
  rl : RL cfg.rule s.ruleIter s.ruleLog

/-- where the loop may leave the clock, and in what state -/
structure Landed (cfg : Cfg) (due : List Due) (ref : Vals) (cur prev : Int) (s' : St) : Prop where
  prev_eq : s'.prevTime = prev
  gt : prev < s'.simTime
  le : s'.simTime ≤ cur
  iter_lo : s'.ruleIter * cfg.rule - cfg.rule ≤ s'.simTime
  iter_hi : s'.simTime < s'.ruleIter * cfg.rule
  rl : RL cfg.rule s'.ruleIter s'.ruleLog
  kind : s'.simTime = cur ∨ (∃ d ∈ due, s'.simTime = cur - d.back) ∨
    (s'.simTime = s'.ruleIter * cfg.rule - cfg.rule ∧ s'.simTime ∈ s'.ruleLog)
  chg : s'.simTime = cur ∨ changed ref s'.vals = true

def loopMeasure (cfg : Cfg) (due : List Due) (cur : Int) (cnt : Nat) (s : St) : Nat :=
  (due.length - cnt) + (cur / cfg.rule - s.ruleIter + 1).toNat

theorem drop_of_getElem? {due : List Due} {cnt : Nat} {d : Due} (h : due[cnt]? = some d) :
    due.drop cnt = d :: due.drop (cnt + 1) := by
  obtain ⟨hlt, hget⟩ := List.getElem?_eq_some_iff.1 h
  rw [List.drop_eq_getElem_cons hlt, hget]

theorem mem_drop_mono {due : List Due} {a b : Nat} (hab : a ≤ b) {d : Due} (h : d ∈ due.drop b) : d ∈ due.drop a := by
  have : due.drop b = (due.drop a).drop (b - a) := by rw [List.drop_drop]; congr 1; omega
  rw [this] at h
  exact List.mem_of_mem_drop h

theorem sorted_drop_le {due : List Due} (hs : due.Pairwise (fun a b => b.back ≤ a.back)) {cnt : Nat} {d : Due}
    (h : due[cnt]? = some d) : ∀ d' ∈ due.drop cnt, d'.back ≤ d.back := by
  have hp := hs.sublist (List.drop_sublist cnt due)
  rw [drop_of_getElem? h, List.pairwise_cons] at hp
  intro d' hd'
  rw [drop_of_getElem? h] at hd'
  rcases List.mem_cons.1 hd' with rfl | hd'
  · exact le_refl _
  · exact hp.1 d' hd'

section Master
variable {cfg : Cfg} {ref : Vals} {due : List Due} {cur prev : Int}

/-- the loop lands on a rule timestep because the rules changed something -/
theorem landed_rule (ctx : LoopCtx cfg due cur prev) {cnt : Nat} {s : St} (inv : LoopInv cfg due cur prev cnt s)
    (hle : s.ruleIter * cfg.rule ≤ cur)
    (hch : changed ref (evalRulesAt cfg (s.ruleIter * cfg.rule) s).vals = true) :
    Landed cfg due ref cur prev (evalRulesAt cfg (s.ruleIter * cfg.rule) s) := by
  have hR := ctx.rule_pos
  refine ⟨by simp [inv.prev_eq], by simp; exact inv.hi, by simp; exact hle, ?_, ?_, ?_, ?_, Or.inr hch⟩
  · simp only [evalRulesAt_ruleIter, evalRulesAt_simTime, add_one_mul]; omega
  · simp only [evalRulesAt_ruleIter, evalRulesAt_simTime, add_one_mul]; omega
  · simp only [evalRulesAt_ruleIter, evalRulesAt_ruleLog]; exact RL_snoc hR inv.rl
  · refine Or.inr (Or.inr ⟨?_, ?_⟩)
    · simp only [evalRulesAt_ruleIter, evalRulesAt_simTime, add_one_mul]; omega
    · simp

/-- the rules at the next rule timestep changed nothing: the clock goes back, the iterator stays advanced -/
theorem inv_rule (ctx : LoopCtx cfg due cur prev) {cnt : Nat} {s : St} (inv : LoopInv cfg due cur prev cnt s)
    (hle : s.ruleIter * cfg.rule ≤ cur)
    (hdue : ∀ d ∈ due.drop cnt, s.ruleIter * cfg.rule ≤ cur - d.back) (v : Vals) :
    LoopInv cfg due cur prev cnt
        { simTime := s.simTime, prevTime := s.prevTime, ruleIter := s.ruleIter + 1, vals := v,
          ruleLog := s.ruleLog ++ [s.ruleIter * cfg.rule] } ∧
      loopMeasure cfg due cur cnt
        { simTime := s.simTime, prevTime := s.prevTime, ruleIter := s.ruleIter + 1, vals := v,
          ruleLog := s.ruleLog ++ [s.ruleIter * cfg.rule] } < loopMeasure cfg due cur cnt s := by
  have hR := ctx.rule_pos
  have hK : s.ruleIter ≤ cur / cfg.rule := Int.le_ediv_of_mul_le hR hle
  refine ⟨⟨inv.sim_eq, inv.prev_eq, ?_, ?_, ?_, RL_snoc hR inv.rl⟩, ?_⟩
  · simp only [add_one_mul]; have := inv.hi; omega
  · simp only [add_one_mul]; omega
  · intro d hd; simp only [add_one_mul]; have := hdue d hd; omega
  · simp only [loopMeasure]; omega

theorem loopStep_spec (ctx : LoopCtx cfg due cur prev) (cnt : Nat) (s : St) (inv : LoopInv cfg due cur prev cnt s) :
    match loopStep cfg ref due cnt s with
    | .done s' => Landed cfg due ref cur prev s'
    | .cont c s' => LoopInv cfg due cur prev c s' ∧ loopMeasure cfg due cur c s' < loopMeasure cfg due cur cnt s := by
  have hR := ctx.rule_pos
  have hsim := inv.sim_eq
  unfold loopStep
  by_cases hc : cnt < due.length ∨ s.ruleIter * cfg.rule ≤ s.simTime
  · rw [if_pos hc]
    cases hd : due[cnt]? with
    | none =>
      have hlen : due.length ≤ cnt := List.getElem?_eq_none_iff.1 hd
      have hle : s.ruleIter * cfg.rule ≤ cur := by
        rcases hc with h | h
        · omega
        · omega
      have hnil : due.drop cnt = [] := List.drop_eq_nil_of_le hlen
      simp only
      by_cases hch : changed ref (evalRulesAt cfg (s.ruleIter * cfg.rule) s).vals = true
      · rw [if_pos hch]; exact landed_rule ctx inv hle hch
      · rw [if_neg hch]
        exact inv_rule ctx inv hle (by rw [hnil]; simp) _
    | some d =>
      have hmem : d ∈ due := List.mem_of_getElem? hd
      have hdrop : d ∈ due.drop cnt := by rw [drop_of_getElem? hd]; exact List.mem_cons_self
      have hb0 := ctx.back_lo d hmem
      have hb1 := ctx.back_hi d hmem
      have hsorted := sorted_drop_le ctx.sorted hd
      have hlt : cnt < due.length := (List.getElem?_eq_some_iff.1 hd).1
      simp only
      by_cases h1 : s.simTime - d.back < s.ruleIter * cfg.rule
      · rw [if_pos h1]
        have hcnt := runGroup_cnt_lt due cnt d s.vals due.length hd
        by_cases hch : changed ref (runGroup due cnt d.back s.vals (due.length + 1)).1 = true
        · rw [if_pos hch]
          have hlo := inv.lo_due d hdrop
          exact ⟨inv.prev_eq, by simp only; omega, by simp only; omega, by simp only; omega, by simp only; omega,
            inv.rl, Or.inr (Or.inl ⟨d, hmem, by simp only; omega⟩), Or.inr hch⟩
        · rw [if_neg hch]
          refine ⟨⟨inv.sim_eq, inv.prev_eq, inv.hi, inv.lo_cur, ?_, inv.rl⟩, ?_⟩
          · intro d' hd'; exact inv.lo_due d' (mem_drop_mono (le_of_lt hcnt) hd')
          · simp only [loopMeasure]; omega
      · rw [if_neg h1]
        by_cases h2 : s.simTime - d.back = s.ruleIter * cfg.rule
        · rw [if_pos h2]
          have hcnt := runGroup_cnt_lt due cnt d (evalRulesAt cfg (s.simTime - d.back) s).vals due.length hd
          have hK : s.ruleIter ≤ cur / cfg.rule := Int.le_ediv_of_mul_le hR (by omega)
          by_cases hch : changed ref (runGroup due cnt d.back (evalRulesAt cfg (s.simTime - d.back) s).vals (due.length + 1)).1 = true
          · rw [if_pos hch]
            refine ⟨by simp [inv.prev_eq], by simp only [evalRulesAt_simTime]; omega, by simp only [evalRulesAt_simTime]; omega,
              ?_, ?_, ?_, ?_, Or.inr hch⟩
            · simp only [evalRulesAt_ruleIter, evalRulesAt_simTime, add_one_mul]; omega
            · simp only [evalRulesAt_ruleIter, evalRulesAt_simTime, add_one_mul]; omega
            · simp only [evalRulesAt_ruleIter, evalRulesAt_ruleLog]; rw [h2]; exact RL_snoc hR inv.rl
            · exact Or.inr (Or.inl ⟨d, hmem, by simp only [evalRulesAt_simTime]; omega⟩)
          · rw [if_neg hch]
            refine ⟨⟨by simp only [evalRulesAt_simTime]; omega, by simp [inv.prev_eq], ?_, ?_, ?_, ?_⟩, ?_⟩
            · simp only [evalRulesAt_ruleIter, add_one_mul]; have := inv.hi; omega
            · simp only [evalRulesAt_ruleIter, add_one_mul]; omega
            · intro d' hd'
              have := hsorted d' (mem_drop_mono (le_of_lt hcnt) hd')
              simp only [evalRulesAt_ruleIter, add_one_mul]; omega
            · simp only [evalRulesAt_ruleIter, evalRulesAt_ruleLog]; rw [h2]; exact RL_snoc hR inv.rl
            · simp only [loopMeasure, evalRulesAt_ruleIter]; omega
        · rw [if_neg h2]
          have hle : s.ruleIter * cfg.rule ≤ cur := by omega
          by_cases hch : changed ref (evalRulesAt cfg (s.ruleIter * cfg.rule) s).vals = true
          · rw [if_pos hch]; exact landed_rule ctx inv hle hch
          · rw [if_neg hch]
            refine inv_rule ctx inv hle ?_ _
            intro d' hd'
            have := hsorted d' hd'
            omega
  · rw [if_neg hc]
    have hlen : due.length ≤ cnt := by omega
    have := inv.lo_cur
    exact ⟨inv.prev_eq, by have := ctx.lt; omega, by omega, by omega, by omega, inv.rl, Or.inl hsim, Or.inl hsim⟩

end Master

/-! ### `presolve`, `stepOnce`, `runLoop` -/

/-- invariant of the simulator state at the entry of a pass of the `while True` loop of `run_sim` -/
structure Inv (cfg : Cfg) (s : St) : Prop where
  lt : s.prevTime < s.simTime
  hi : s.prevTime < s.ruleIter * cfg.rule
  lo : s.ruleIter * cfg.rule - cfg.rule ≤ s.prevTime + 1
  rl : RL cfg.rule s.ruleIter s.ruleLog

/-- the list `presolve_controls_to_run` after the two sorts (and the first-step override) -/
def presolveDue (cfg : Cfg) (first : Bool) (s : St) : List Due :=
  if first then (sortDue (check cfg.startClock s.prevTime s.simTime cfg.presolve)).map (fun d => { d with back := 0 })
  else sortDue (check cfg.startClock s.prevTime s.simTime cfg.presolve)

theorem presolve_eq (cfg : Cfg) (first : Bool) (s : St) :
    presolve cfg first s =
      presolveLoop cfg s.vals (presolveDue cfg first s) (presolveFuel cfg (presolveDue cfg first s) s) 0 s := rfl

theorem pairwise_of_all {α : Type} (R : α → α → Prop) (l : List α) (h : ∀ a ∈ l, ∀ b ∈ l, R a b) : l.Pairwise R := by
  induction l with
  | nil => exact List.Pairwise.nil
  | cons x xs ih =>
    rw [List.pairwise_cons]
    exact ⟨fun b hb => h x List.mem_cons_self b (List.mem_cons_of_mem _ hb),
      ih (fun a ha b hb => h a (List.mem_cons_of_mem _ ha) b (List.mem_cons_of_mem _ hb))⟩

theorem presolveDue_mem {cfg : Cfg} {first : Bool} {s : St} {d : Due} (hlt : s.prevTime < s.simTime)
    (hd : d ∈ presolveDue cfg first s) :
    d.ctl ∈ cfg.presolve ∧ 0 ≤ d.back ∧ d.back < s.simTime - s.prevTime ∧ (first = true → d.back = 0) := by
  unfold presolveDue at hd
  cases first with
  | true =>
    simp only [if_true, List.mem_map] at hd
    obtain ⟨d0, hd0, rfl⟩ := hd
    have := check_mem hlt (mem_sortDue.1 hd0)
    exact ⟨this.1, le_refl _, by simp only; omega, fun _ => rfl⟩
  | false =>
    simp only [Bool.false_eq_true, if_false] at hd
    have := check_mem hlt (mem_sortDue.1 hd)
    exact ⟨this.1, this.2.1, this.2.2, fun h => by simp at h⟩

theorem presolveDue_ctx {cfg : Cfg} (hR : 0 < cfg.rule) (first : Bool) {s : St} (hlt : s.prevTime < s.simTime) :
    LoopCtx cfg (presolveDue cfg first s) s.simTime s.prevTime := by
  refine ⟨hR, hlt, ?_, fun d hd => (presolveDue_mem hlt hd).2.1, fun d hd => (presolveDue_mem hlt hd).2.2.1⟩
  cases first with
  | true =>
    apply pairwise_of_all
    intro a ha b hb
    rw [(presolveDue_mem hlt ha).2.2.2 rfl, (presolveDue_mem hlt hb).2.2.2 rfl]
  | false => exact sortDue_sorted _

theorem presolve_loopInv {cfg : Cfg} (first : Bool) {s : St} (inv : Inv cfg s) :
    LoopInv cfg (presolveDue cfg first s) s.simTime s.prevTime 0 s := by
  refine ⟨rfl, rfl, inv.hi, by have := inv.lo; have := inv.lt; omega, ?_, inv.rl⟩
  intro d hd
  have := (presolveDue_mem inv.lt (List.mem_of_mem_drop hd)).2.2.1
  have := inv.lo
  omega

theorem presolve_measure (cfg : Cfg) (first : Bool) (s : St) :
    loopMeasure cfg (presolveDue cfg first s) s.simTime 0 s < presolveFuel cfg (presolveDue cfg first s) s := by
  simp only [loopMeasure, presolveFuel]; omega

/-- **where `presolve` leaves the clock** (all configurations): strictly after the previous accepted time, not after
the tentative time, on the tentative time or a due instant or a rule timestep, a partial step only if something
changed; afterwards `_rule_iter` is exactly `time // rule_timestep + 1` -/
theorem presolve_landed {cfg : Cfg} (hR : 0 < cfg.rule) (first : Bool) {s : St} (inv : Inv cfg s) :
    Landed cfg (presolveDue cfg first s) s.vals s.simTime s.prevTime (presolve cfg first s) := by
  rw [presolve_eq]
  exact presolveLoop_rule cfg s.vals _ (LoopInv cfg _ s.simTime s.prevTime) (Landed cfg _ s.vals s.simTime s.prevTime)
    (loopMeasure cfg _ s.simTime) (fun cnt s' h => loopStep_spec (presolveDue_ctx hR first inv.lt) cnt s' h)
    _ 0 s (presolve_loopInv first inv) (presolve_measure cfg first s)

/-- **fuel sufficiency of the pre-solve loop**: with `presolveFuel` or any larger amount the result is the same,
i.e. the loop is left through its own condition or a `break`, never because the fuel ran out -/
theorem presolve_fuel_irrelevant {cfg : Cfg} (hR : 0 < cfg.rule) (first : Bool) {s : St} (inv : Inv cfg s) (extra : Nat) :
    presolveLoop cfg s.vals (presolveDue cfg first s) (presolveFuel cfg (presolveDue cfg first s) s + extra) 0 s =
      presolve cfg first s := by
  rw [presolve_eq]
  refine presolveLoop_fuel cfg s.vals _ (LoopInv cfg _ s.simTime s.prevTime) (loopMeasure cfg _ s.simTime) ?_ _ _ 0 s
    (presolve_loopInv first inv) (by have := presolve_measure cfg first s; omega) (presolve_measure cfg first s)
  intro cnt s' h
  have := loopStep_spec (ref := s.vals) (presolveDue_ctx hR first inv.lt) cnt s' h
  cases hl : loopStep cfg s.vals (presolveDue cfg first s) cnt s' with
  | done _ => trivial
  | cont c s'' => rw [hl] at this; exact this

theorem ruleIter_eq_div {rule it t : Int} (hR : 0 < rule) (h1 : it * rule - rule ≤ t) (h2 : t < it * rule) :
    it = t / rule + 1 := by
  have ha : it - 1 ≤ t / rule := Int.le_ediv_of_mul_le hR (by rw [sub_one_mul]; exact h1)
  have hb : t / rule < it := Int.ediv_lt_of_lt_mul hR h2
  omega

/-- the state after one pass: the invariant again, in its strong form -/
structure Stepped (cfg : Cfg) (s s' : St) : Prop where
  inv : Inv cfg s'
  prev_gt : s.prevTime < s'.prevTime
  prev_le : s'.prevTime ≤ s.simTime
  iter : s'.ruleIter = s'.prevTime / cfg.rule + 1
  sim_gt : s'.prevTime < s'.simTime
  sim_le : s'.simTime ≤ s'.prevTime + cfg.hyd
  grid : s'.simTime % cfg.hyd = 0

theorem stepOnce_fst (cfg : Cfg) (first : Bool) (s : St) :
    (stepOnce cfg first s).1 =
      { (presolve cfg first s) with prevTime := (presolve cfg first s).simTime,
                                     simTime := (presolve cfg first s).simTime + cfg.hyd - ((presolve cfg first s).simTime + cfg.hyd) % cfg.hyd } := rfl

theorem stepOnce_snd (cfg : Cfg) (first : Bool) (s : St) :
    (stepOnce cfg first s).2 =
      if reportNow cfg (presolve cfg first s).simTime then some ⟨(presolve cfg first s).simTime, (presolve cfg first s).vals⟩
      else none := rfl

theorem stepOnce_stepped {cfg : Cfg} (hR : 0 < cfg.rule) (hH : 0 < cfg.hyd) (first : Bool) {s : St} (inv : Inv cfg s) :
    Stepped cfg s (stepOnce cfg first s).1 := by
  have L := presolve_landed hR first inv
  rw [stepOnce_fst]
  generalize presolve cfg first s = p at L
  have hm0 := Int.emod_nonneg (p.simTime + cfg.hyd) (by omega : cfg.hyd ≠ 0)
  have hm1 := Int.emod_lt_of_pos (p.simTime + cfg.hyd) hH
  have hgt := L.gt; have hle := L.le; have h1 := L.iter_lo; have h2 := L.iter_hi
  refine ⟨⟨by simp only; omega, by simp only; omega, by simp only; omega, L.rl⟩, by simp only; omega, by simp only; omega,
    ruleIter_eq_div hR h1 h2, by simp only; omega, by simp only; omega, ?_⟩
  simp only
  have hx : p.simTime + cfg.hyd - (p.simTime + cfg.hyd) % cfg.hyd = cfg.hyd * ((p.simTime + cfg.hyd) / cfg.hyd) := by
    have := Int.emod_def (p.simTime + cfg.hyd) cfg.hyd; omega
  rw [hx, Int.mul_emod_right]

/-- a row is written with the accepted time of the pass -/
theorem stepOnce_row {cfg : Cfg} {first : Bool} {s : St} {r : Row} (h : (stepOnce cfg first s).2 = some r) :
    r.time = (stepOnce cfg first s).1.prevTime := by
  rw [stepOnce_snd] at h
  split at h
  · simp only [Option.some.injEq] at h; subst h; rfl
  · simp at h

theorem runLoop_zero (cfg : Cfg) (first : Bool) (s : St) (log : List Row) : runLoop cfg 0 first s log = (s, log) := rfl

theorem runLoop_succ (cfg : Cfg) (n : Nat) (first : Bool) (s : St) (log : List Row) :
    runLoop cfg (n + 1) first s log =
      if (stepOnce cfg first s).1.simTime > cfg.duration then
        ((stepOnce cfg first s).1, log ++ (stepOnce cfg first s).2.toList)
      else runLoop cfg n false (stepOnce cfg first s).1 (log ++ (stepOnce cfg first s).2.toList) := by
  rw [runLoop]
  cases h : (stepOnce cfg first s).2 <;> simp [h]

/-- measure of the outer loop: the accepted time strictly increases and stays `≤ duration` while the loop goes on -/
def runMeasure (cfg : Cfg) (s : St) : Nat := (cfg.duration - s.prevTime).toNat

/-- **loop rule for `run_sim`** -/
theorem runLoop_rule {cfg : Cfg} (hR : 0 < cfg.rule) (hH : 0 < cfg.hyd) (J : St → List Row → Prop)
    (hstep : ∀ first s log, Inv cfg s → J s log → J (stepOnce cfg first s).1 (log ++ (stepOnce cfg first s).2.toList)) :
    ∀ n first s log, Inv cfg s → J s log →
      Inv cfg (runLoop cfg n first s log).1 ∧ J (runLoop cfg n first s log).1 (runLoop cfg n first s log).2 := by
  intro n
  induction n with
  | zero => intro first s log hi hj; exact ⟨hi, hj⟩
  | succ n ih =>
    intro first s log hi hj
    rw [runLoop_succ]
    have hs := stepOnce_stepped hR hH first hi
    split
    · exact ⟨hs.inv, hstep first s log hi hj⟩
    · exact ih false _ _ hs.inv (hstep first s log hi hj)

/-- **fuel sufficiency of the outer loop**: above `runMeasure` the fuel does not matter -/
theorem runLoop_fuel {cfg : Cfg} (hR : 0 < cfg.rule) (hH : 0 < cfg.hyd) :
    ∀ n m first s log, Inv cfg s → runMeasure cfg s < n → runMeasure cfg s < m →
      runLoop cfg n first s log = runLoop cfg m first s log := by
  intro n
  induction n with
  | zero => intro m first s log _ h; omega
  | succ n ih =>
    intro m first s log hi hn hm
    cases m with
    | zero => omega
    | succ m =>
      rw [runLoop_succ, runLoop_succ]
      have hs := stepOnce_stepped hR hH first hi
      split
      · rfl
      · rename_i hnot
        have h1 := hs.prev_gt; have h2 := hs.sim_gt
        have hdec : runMeasure cfg (stepOnce cfg first s).1 < runMeasure cfg s := by
          simp only [runMeasure] at *; omega
        exact ih m false _ _ hs.inv (by omega) (by omega)

/-! ### frame: keys nobody writes -/

def StepRes.state : StepRes → St
  | .done s => s
  | .cont _ s => s

theorem loopStep_frame (cfg : Cfg) (ref : Vals) (due : List Due) (k : Nat) (x : Int)
    (hd : ∀ d ∈ due, d.writes k = none) (hr : ∀ c ∈ cfg.rules, c.silentOn k) (cnt : Nat) (s : St)
    (h : s.vals.get k = x) : (loopStep cfg ref due cnt s).state.vals.get k = x := by
  unfold loopStep
  split
  · split
    · simp only; split <;> simp only [StepRes.state, evalRulesAt_frame cfg _ s k hr, h]
    · simp only
      split
      · split <;> simp only [StepRes.state, runGroup_frame due _ _ _ _ k hd, h]
      · split
        · split <;> simp only [StepRes.state, runGroup_frame due _ _ _ _ k hd, evalRulesAt_frame cfg _ s k hr, h]
        · split <;> simp only [StepRes.state, evalRulesAt_frame cfg _ s k hr, h]
  · exact h

/-- **a key that no control due in this pass and no rule writes keeps its value through `presolve`** -/
theorem presolve_frame (cfg : Cfg) (first : Bool) (s : St) (k : Nat)
    (hd : ∀ d ∈ presolveDue cfg first s, d.writes k = none) (hr : ∀ c ∈ cfg.rules, c.silentOn k) :
    (presolve cfg first s).vals.get k = s.vals.get k := by
  rw [presolve_eq]
  exact presolveLoop_keeps cfg s.vals _ (fun s' => s'.vals.get k = s.vals.get k)
    (fun cnt s' h => by
      have := loopStep_frame cfg s.vals _ k _ hd hr cnt s' h
      cases hl : loopStep cfg s.vals (presolveDue cfg first s) cnt s' <;> (rw [hl] at this; exact this)) _ 0 s rfl

theorem presolveDue_ctl_mem {cfg : Cfg} {first : Bool} {s : St} {d : Due} (hd : d ∈ presolveDue cfg first s) :
    ∃ d0 ∈ check cfg.startClock s.prevTime s.simTime cfg.presolve, d.ctl = d0.ctl ∧ d.which = d0.which := by
  unfold presolveDue at hd
  cases first with
  | true =>
    simp only [if_true, List.mem_map] at hd
    obtain ⟨d0, hd0, rfl⟩ := hd
    exact ⟨d0, mem_sortDue.1 hd0, rfl, rfl⟩
  | false =>
    simp only [Bool.false_eq_true, if_false] at hd
    exact ⟨d, mem_sortDue.1 hd, rfl, rfl⟩

/-- corollary: a key no registered control or rule can write is never changed by `presolve` -/
theorem presolve_frame_static (cfg : Cfg) (first : Bool) (s : St) (k : Nat)
    (hp : ∀ c ∈ cfg.presolve, c.silentOn k) (hr : ∀ c ∈ cfg.rules, c.silentOn k) :
    (presolve cfg first s).vals.get k = s.vals.get k := by
  apply presolve_frame cfg first s k _ hr
  intro d hd
  obtain ⟨d0, hd0, hc, _⟩ := presolveDue_ctl_mem hd
  exact Due.writes_none_of_silent (hc ▸ hp _ (check_ctl_mem hd0))

/-! ### the state `run_sim` starts from -/

/-- the state `runSim` builds before its loop -/
def startState (cfg : Cfg) (simTime prevTime : Int) (vals : Vals) : St :=
  let first := simTime == 0
  let prev := if first then -1 else prevTime
  { simTime, prevTime := prev, ruleIter := initRuleIter cfg first prev, vals, ruleLog := [] }

/-- the model was already simulated up to the duration: `run_sim` has nothing left to do -/
def NothingLeft (cfg : Cfg) (simTime : Int) : Prop := (simTime == 0) = false ∧ simTime > cfg.duration

instance (cfg : Cfg) (simTime : Int) : Decidable (NothingLeft cfg simTime) := by unfold NothingLeft; infer_instance

theorem runSim_def (cfg : Cfg) (simTime prevTime : Int) (vals : Vals) :
    runSim cfg simTime prevTime vals =
      if NothingLeft cfg simTime then (startState cfg simTime prevTime vals, [])
      else runLoop cfg (runFuel cfg (startState cfg simTime prevTime vals).prevTime) (simTime == 0)
        (startState cfg simTime prevTime vals) [] := rfl

theorem runSim_done {cfg : Cfg} {simTime : Int} (prevTime : Int) (vals : Vals) (h : NothingLeft cfg simTime) :
    runSim cfg simTime prevTime vals = (startState cfg simTime prevTime vals, []) := by
  rw [runSim_def, if_pos h]

theorem runSim_eq {cfg : Cfg} {simTime : Int} (prevTime : Int) (vals : Vals) (h : ¬ NothingLeft cfg simTime) :
    runSim cfg simTime prevTime vals =
      runLoop cfg (runFuel cfg (startState cfg simTime prevTime vals).prevTime) (simTime == 0)
        (startState cfg simTime prevTime vals) [] := by
  rw [runSim_def, if_neg h]

theorem not_nothingLeft_of_le {cfg : Cfg} {simTime : Int} (h : simTime = 0 ∨ simTime ≤ cfg.duration) :
    ¬ NothingLeft cfg simTime := by
  rintro ⟨h1, h2⟩
  rcases h with h | h
  · subst h; simp at h1
  · omega

/-- a legitimate start: a fresh model (`sim_time = 0`) or one left by an earlier run (`0 ≤ prev < sim_time`) -/
def StartOK (simTime prevTime : Int) : Prop := simTime = 0 ∨ (0 ≤ prevTime ∧ prevTime < simTime)

theorem startState_inv {cfg : Cfg} (hR : 0 < cfg.rule) {simTime prevTime : Int} (vals : Vals)
    (h : StartOK simTime prevTime) : Inv cfg (startState cfg simTime prevTime vals) := by
  unfold startState
  by_cases h0 : simTime = 0
  · subst h0
    simp only [beq_self_eq_true, if_true, initRuleIter]
    exact ⟨by simp only; omega, by simp only; omega, by simp only; omega, ⟨le_refl _, by simp, List.Pairwise.nil⟩⟩
  · have hb : (simTime == 0) = false := by simpa using h0
    rcases h with h | ⟨hp0, hp1⟩
    · exact absurd h h0
    · simp only [hb, Bool.false_eq_true, if_false, initRuleIter]
      have h1 := Int.lt_ediv_add_one_mul_self prevTime hR
      have h2 := Int.ediv_mul_le prevTime (by omega : cfg.rule ≠ 0)
      have h3 : 0 ≤ prevTime / cfg.rule := Int.ediv_nonneg hp0 (le_of_lt hR)
      refine ⟨hp1, h1, ?_, ⟨by simp only; omega, by simp, List.Pairwise.nil⟩⟩
      simp only [add_one_mul]; omega

/-- what holds of the state after at least one pass of the loop -/
structure Ran (cfg : Cfg) (s : St) : Prop where
  inv : Inv cfg s
  iter : s.ruleIter = s.prevTime / cfg.rule + 1
  sim_le : s.simTime ≤ s.prevTime + cfg.hyd
  grid : s.simTime % cfg.hyd = 0

theorem Stepped.ran {cfg : Cfg} {s s' : St} (h : Stepped cfg s s') : Ran cfg s' := ⟨h.inv, h.iter, h.sim_le, h.grid⟩

theorem runLoop_ran {cfg : Cfg} (hR : 0 < cfg.rule) (hH : 0 < cfg.hyd) (n : Nat) (first : Bool) (s : St) (log : List Row)
    (hi : Inv cfg s) : Ran cfg (runLoop cfg (n + 1) first s log).1 := by
  rw [runLoop_succ]
  have hs := stepOnce_stepped hR hH first hi
  split
  · exact hs.ran
  · have := runLoop_rule hR hH (fun s _ => Ran cfg s)
      (fun f s' l hi' _ => (stepOnce_stepped hR hH f hi').ran) n false _ (log ++ (stepOnce cfg first s).2.toList) hs.inv hs.ran
    exact this.2

/-- the rule log of a state after a pass: on the positive rule grid, increasing, not after the accepted time -/
theorem Ran.ruleLog_le {cfg : Cfg} (hR : 0 < cfg.rule) {s : St} (h : Ran cfg s) : ∀ r ∈ s.ruleLog, r ≤ s.prevTime := by
  intro r hr
  obtain ⟨k, _, hk2, hk3⟩ := h.inv.rl.2.1 r hr
  have h2 := Int.ediv_mul_le s.prevTime (by omega : cfg.rule ≠ 0)
  have h3 : k * cfg.rule ≤ (s.prevTime / cfg.rule) * cfg.rule :=
    Int.mul_le_mul_of_nonneg_right (by have := h.iter; omega) (le_of_lt hR)
  omega

end Wntr.Sched
