/-
Soundness over ℝ of the semantic row comparison of `Model/RowsNorm.lean`:
`rowSem a b = true → ∀ env, eval realOps env a = eval realOps env b`.
-/
import WntrModel.Model.RowsNorm
import WntrModel.Lemmas.RowsReal
import Mathlib.Algebra.BigOperators.Group.List.Basic
import Mathlib.Tactic.LinearCombination

set_option linter.unusedSimpArgs false
set_option linter.unusedVariables false

namespace Wntr.Rows.Norm
open Wntr.Aml Wntr.Rows

section
variable (env : Env ℝ)

/-- an atom comparison is sound when accepted pairs evaluate alike -/
def Sound (eq : Expr → Expr → Bool) : Prop := ∀ a b, eq a b = true → eval realOps env a = eval realOps env b

noncomputable def monoVal (m : Mono) : ℝ := (m.map (eval realOps env)).prod
noncomputable def polyVal (p : Poly) : ℝ := (p.map fun x => (x.2 : ℝ) * monoVal env x.1).sum

theorem monoVal_nil : monoVal env [] = 1 := by simp [monoVal]
theorem monoVal_cons (x : Expr) (m : Mono) : monoVal env (x :: m) = eval realOps env x * monoVal env m := by
  simp [monoVal]
theorem monoVal_append (a b : Mono) : monoVal env (a ++ b) = monoVal env a * monoVal env b := by
  simp [monoVal, List.map_append, List.prod_append]

@[simp] theorem polyVal_nil : polyVal env [] = 0 := rfl
@[simp] theorem polyVal_cons (x : Mono × Rat) (p : Poly) :
    polyVal env (x :: p) = (x.2 : ℝ) * monoVal env x.1 + polyVal env p := by simp [polyVal]

theorem polyVal_append (p q : Poly) : polyVal env (p ++ q) = polyVal env p + polyVal env q := by
  simp [polyVal, List.map_append, List.sum_append]

theorem polyVal_neg (p : Poly) : polyVal env (Poly.neg p) = -polyVal env p := by
  induction p with
  | nil => simp [Poly.neg]
  | cons x t ih =>
    have : Poly.neg (x :: t) = (x.1, -x.2) :: Poly.neg t := rfl
    rw [this, polyVal_cons, polyVal_cons, ih]; push_cast; ring

theorem polyVal_scaleMono (m : Mono) (c : Rat) (q : Poly) :
    polyVal env (q.map fun y => (m ++ y.1, c * y.2)) = (c : ℝ) * monoVal env m * polyVal env q := by
  induction q with
  | nil => simp
  | cons y t ih => rw [List.map_cons, polyVal_cons, polyVal_cons, ih, monoVal_append]; push_cast; ring

theorem polyVal_mul (p q : Poly) : polyVal env (Poly.mul p q) = polyVal env p * polyVal env q := by
  induction p with
  | nil => simp [Poly.mul]
  | cons x t ih =>
    have : Poly.mul (x :: t) q = (q.map fun y => (x.1 ++ y.1, x.2 * y.2)) ++ Poly.mul t q := by
      simp [Poly.mul, List.flatMap_cons]
    rw [this, polyVal_append, polyVal_scaleMono, ih, polyVal_cons]; ring

theorem polyVal_atom (e : Expr) : polyVal env [([e], 1)] = eval realOps env e := by
  simp [polyVal, monoVal]

theorem smallPow_spec {b : Expr} {n : Nat} (h : smallPow b = some n) : b = .const (n : Rat) ∧ (n = 1 ∨ n = 2 ∨ n = 3) := by
  cases b <;> simp only [smallPow] at h <;> try exact absurd h (by simp)
  rename_i q
  split_ifs at h with h1 h2 h3 <;> simp at h <;> subst h
  · exact ⟨by rw [h1]; rfl, Or.inl rfl⟩
  · exact ⟨by rw [h2]; rfl, Or.inr (Or.inl rfl)⟩
  · exact ⟨by rw [h3]; rfl, Or.inr (Or.inr rfl)⟩

/-- the polynomial of an expression evaluates like the expression -/
theorem toPoly_sound (e : Expr) : polyVal env (toPoly e) = eval realOps env e := by
  induction e with
  | var i => simp [toPoly, polyVal, monoVal, eval]
  | param i => simp [toPoly, polyVal, monoVal, eval]
  | const q => simp [toPoly, polyVal, monoVal, eval]
  | ifElse c t e _ _ _ => exact polyVal_atom env _
  | ineq b lb ub _ => exact polyVal_atom env _
  | un op a ih =>
    cases op <;> try exact polyVal_atom env _
    simp only [toPoly, polyVal_neg, ih, eval, Ops.un, realOps_neg]
  | bin op a b iha ihb =>
    cases op
    · simp only [toPoly, polyVal_append, iha, ihb, eval, Ops.bin, realOps_add]
    · simp only [toPoly, polyVal_append, polyVal_neg, iha, ihb, eval, Ops.bin, realOps_sub]; ring
    · simp only [toPoly, polyVal_mul, iha, ihb, eval, Ops.bin, realOps_mul]
    · exact polyVal_atom env _
    · simp only [toPoly]
      cases hs : smallPow b with
      | none => exact polyVal_atom env _
      | some n =>
        obtain ⟨hb, hn⟩ := smallPow_spec hs
        rcases hn with rfl | rfl | rfl
        · simp only [iha, hb, eval, Ops.bin, realOps_pow, realOps_ofRat]; simp
        · simp only [polyVal_mul, iha, hb, eval, Ops.bin, realOps_pow, realOps_ofRat]
          have : (((2 : ℕ) : Rat) : ℝ) = ((2 : ℚ) : ℝ) := by norm_num
          rw [this, rpow_two]; ring
        · simp only [polyVal_mul, iha, hb, eval, Ops.bin, realOps_pow, realOps_ofRat]
          have : (((3 : ℕ) : Rat) : ℝ) = ((3 : ℚ) : ℝ) := by norm_num
          rw [this, rpow_three]; ring

variable {eq : Expr → Expr → Bool}

theorem removeBy_sound (hs : Sound env eq) (x : Expr) :
    ∀ (ys ys' : List Expr), removeBy eq x ys = some ys' → monoVal env ys = eval realOps env x * monoVal env ys' := by
  intro ys
  induction ys with
  | nil => intro ys' h; simp [removeBy] at h
  | cons y t ih =>
    intro ys' h
    simp only [removeBy] at h
    by_cases hxy : eq x y = true
    · simp only [hxy, if_true, Option.some.injEq] at h
      subst h
      rw [monoVal_cons, hs x y hxy]
    · simp only [hxy, Bool.false_eq_true, if_false, Option.map_eq_some_iff] at h
      obtain ⟨r, hr, rfl⟩ := h
      rw [monoVal_cons, monoVal_cons, ih r hr]; ring

theorem permBy_sound (hs : Sound env eq) :
    ∀ (xs ys : List Expr), permBy eq xs ys = true → monoVal env xs = monoVal env ys := by
  intro xs
  induction xs with
  | nil =>
    intro ys h
    cases ys with
    | nil => rfl
    | cons y t => simp [permBy] at h
  | cons x t ih =>
    intro ys h
    simp only [permBy] at h
    cases hr : removeBy eq x ys with
    | none => simp [hr] at h
    | some ys' =>
      simp only [hr] at h
      rw [monoVal_cons, removeBy_sound env hs x ys ys' hr, ih ys' h]

theorem polyVal_filter_split (p : Poly) (P : Mono × Rat → Bool) :
    polyVal env p = polyVal env (p.filter P) + polyVal env (p.filter fun y => !P y) := by
  induction p with
  | nil => simp
  | cons x t ih =>
    by_cases h : P x = true
    · simp only [List.filter_cons, h, if_true, Bool.not_true, Bool.false_eq_true, if_false, polyVal_cons, ih]; ring
    · have h' : P x = false := by simpa using h
      simp only [List.filter_cons, h', Bool.false_eq_true, if_false, Bool.not_false, if_true, polyVal_cons, ih]; ring

theorem sumC_cast (l : List Rat) : ((sumC l : Rat) : ℝ) = (l.map fun c => (c : ℝ)).sum := by
  induction l with
  | nil => simp [sumC]
  | cons x t ih => simp [sumC, ih]

theorem polyVal_same (hs : Sound env eq) (m : Mono) (p : Poly) (h : ∀ y ∈ p, permBy eq y.1 m = true) :
    polyVal env p = ((sumC (p.map (·.2)) : Rat) : ℝ) * monoVal env m := by
  induction p with
  | nil => simp [sumC]
  | cons y t ih =>
    have hy := permBy_sound env hs _ _ (h y (by simp))
    rw [polyVal_cons, ih (fun z hz => h z (by simp [hz])), hy]
    simp only [List.map_cons, sumC]; push_cast; ring

/-- a polynomial that `cancelsBy` is identically zero -/
theorem cancelsBy_sound (hs : Sound env eq) (n : Nat) (p : Poly) (h : cancelsBy eq n p = true) : polyVal env p = 0 := by
  induction n generalizing p with
  | zero =>
    cases p with
    | nil => rfl
    | cons x t => simp [cancelsBy] at h
  | succ k ih =>
    cases p with
    | nil => rfl
    | cons x t =>
      simp only [cancelsBy, Bool.and_eq_true, decide_eq_true_eq] at h
      obtain ⟨hc, hrest⟩ := h
      rw [polyVal_cons, polyVal_filter_split env t (fun y => permBy eq y.1 x.1), ih _ hrest,
        polyVal_same env hs x.1 _ (fun y hy => (List.mem_filter.1 hy).2)]
      have hc' : ((x.2 + sumC ((t.filter fun y => permBy eq y.1 x.1).map (·.2)) : Rat) : ℝ) = 0 := by rw [hc]; simp
      push_cast at hc'
      linear_combination (monoVal env x.1) * hc'

theorem polyEqBy_sound (hs : Sound env eq) (a b : Expr) (h : polyEqBy eq a b = true) :
    eval realOps env a = eval realOps env b := by
  have := cancelsBy_sound env hs _ _ h
  rw [polyVal_append, polyVal_neg, toPoly_sound, toPoly_sound] at this
  linarith

theorem atomStep_sound (hs : Sound env eq) : Sound env (atomStep eq) := by
  intro a b h
  cases a <;> cases b <;> simp only [atomStep, Bool.and_eq_true, decide_eq_true_eq, Bool.false_eq_true] at h
  · obtain ⟨⟨rfl, h1⟩, h2⟩ := h
    simp only [eval, polyEqBy_sound env hs _ _ h1, polyEqBy_sound env hs _ _ h2]
  · obtain ⟨rfl, h1⟩ := h
    simp only [eval, polyEqBy_sound env hs _ _ h1]

theorem atomEq_sound (n : Nat) : Sound env (atomEq n) := by
  induction n with
  | zero => intro a b h; simp only [atomEq, decide_eq_true_eq] at h; rw [h]
  | succ k ih =>
    intro a b h
    simp only [atomEq, Bool.or_eq_true, decide_eq_true_eq] at h
    rcases h with h | h
    · rw [h]
    · exact atomStep_sound env ih a b h

theorem condEq_sound (hs : Sound env eq) (c1 c2 : Expr) (h : condEq eq c1 c2 = true) :
    eval realOps env c1 = eval realOps env c2 := by
  unfold condEq at h
  split at h
  · rename_i b1 l1 u1 b2 l2 u2
    simp only [Bool.or_eq_true, Bool.and_eq_true, decide_eq_true_eq] at h
    rcases h with ⟨⟨rfl, rfl⟩, hb⟩ | h
    · simp only [eval, polyEqBy_sound env hs _ _ hb]
    · split at h
      · have := polyEqBy_sound env hs _ _ h
        simp only [eval, Ops.bin, realOps_sub, realOps_ofRat] at this
        rename_i v1 v2
        have hiff : (eval realOps env b1 ≤ (v1 : ℝ)) ↔ (eval realOps env b2 ≤ (v2 : ℝ)) := by
          constructor <;> intro hh <;> linarith
        simp only [eval, realOps_le, realOps_ofRat, Bool.true_and, hiff]
      · exact absurd h (by simp)
  · simp only [decide_eq_true_eq] at h; rw [h]

/-- **soundness of the semantic row comparison** (any sound atom comparison) -/
theorem rowEq_sound (hs : Sound env eq) (a b : Expr) (h : rowEq eq a b = true) :
    eval realOps env a = eval realOps env b := by
  induction a generalizing b with
  | ifElse c1 t1 e1 _ iht ihe =>
    cases b with
    | ifElse c2 t2 e2 =>
      simp only [rowEq, Bool.and_eq_true] at h
      obtain ⟨⟨hc, ht⟩, he⟩ := h
      simp only [eval, condEq_sound env hs _ _ hc, iht _ ht, ihe _ he]
    | _ => exact polyEqBy_sound env hs _ _ (by simpa [rowEq] using h)
  | _ => exact polyEqBy_sound env hs _ _ (by simpa [rowEq] using h)

/-- **`rowSem` is sound**: an accepted pair of rows has the same residual at every point -/
theorem rowSem_sound (a b : Expr) (h : rowSem a b = true) : eval realOps env a = eval realOps env b :=
  rowEq_sound env (atomEq_sound env atomFuel) a b h

end

end Wntr.Rows.Norm
