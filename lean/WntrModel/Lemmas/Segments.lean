/-
Lemmas for C18: the valve-cut incidence graph (specification), the contract of `connected_components`, and the facts about the
labelling of `Model/Segments.lean` that the partition theorem needs.
-/
import WntrModel.Model.Segments
import Mathlib.Logic.Relation

namespace Wntr.Segments

inductive Vtx
  | node (u : Nat)
  | link (k : Nat)

/-- link `k` and node `u` are joined without passing a valve -/
def IncNL (i : Inp) (k u : Nat) : Prop :=
  k < i.nl ∧ (u = (i.ends k).1 ∨ u = (i.ends k).2) ∧ i.hasValve k u = false

def Inc (i : Inp) : Vtx → Vtx → Prop
  | .node u, .link k => IncNL i k u
  | .link k, .node u => IncNL i k u
  | _, _ => False

def SameSeg (i : Inp) : Vtx → Vtx → Prop := Relation.ReflTransGen (Inc i)

def InG (i : Inp) : Vtx → Prop
  | .node u => u < i.n
  | .link k => k < i.nl

def label (i : Inp) (comp : Nat → Nat) : Vtx → Nat
  | .node u => i.nodeLabel comp u
  | .link k => i.linkLabel comp k

/-- adjacency in the graph from which `valve_segments` removed every valved link -/
def UAdj (i : Inp) (u v : Nat) : Prop :=
  ∃ k, k < i.nl ∧ i.valved k = false ∧ (i.ends k = (u, v) ∨ i.ends k = (v, u))

/-- contract of `networkx.connected_components` (as the index of each node's component in the returned list) -/
def CompOk (i : Inp) (comp : Nat → Nat) : Prop :=
  ∀ u v, u < i.n → v < i.n → (comp u = comp v ↔ Relation.ReflTransGen (UAdj i) u v)

/-! ### helper facts -/

theorem inc_symm (i : Inp) : ∀ a b, Inc i a b → Inc i b a := by
  intro a b h
  cases a <;> cases b <;> first | exact h | cases h

theorem sameSeg_symm {i : Inp} {a b : Vtx} (h : SameSeg i a b) : SameSeg i b a := by
  induction h with
  | refl => exact Relation.ReflTransGen.refl
  | tail _ hs ih => exact Relation.ReflTransGen.head (inc_symm i _ _ hs) ih

theorem countBelow_succ (p : Nat → Bool) (k : Nat) :
    ((List.range (k + 1)).filter p).length = ((List.range k).filter p).length + (if p k then 1 else 0) := by
  rw [List.range_succ, List.filter_append, List.length_append]
  by_cases h : p k <;> simp [h]

theorem countBelow_mono (p : Nat → Bool) {k k' : Nat} (h : k ≤ k') :
    ((List.range k).filter p).length ≤ ((List.range k').filter p).length := by
  induction h with
  | refl => exact Nat.le_refl _
  | step _ ih => rw [countBelow_succ]; omega

theorem countBelow_lt (p : Nat → Bool) {k k' : Nat} (h : k < k') (hp : p k = true) :
    ((List.range k).filter p).length + 1 ≤ ((List.range k').filter p).length := by
  have h1 := countBelow_succ p k
  rw [hp] at h1
  have h2 : ((List.range (k + 1)).filter p).length ≤ ((List.range k').filter p).length :=
    countBelow_mono p (Nat.succ_le_of_lt h)
  simp only [if_true] at h1
  omega

theorem isoLabel_le (i : Inp) {k : Nat} (hk : k < i.nl) (hi : i.isolated k = true) : i.isoLabel k ≤ i.numIso := by
  unfold Inp.isoLabel Inp.numIso
  exact countBelow_lt i.isolated hk hi

theorem isoLabel_inj (i : Inp) {k k' : Nat} (hi : i.isolated k = true) (hi' : i.isolated k' = true)
    (h : i.isoLabel k = i.isoLabel k') : k = k' := by
  unfold Inp.isoLabel at h
  rcases Nat.lt_trichotomy k k' with hlt | heq | hgt
  · have := countBelow_lt i.isolated hlt hi; omega
  · exact heq
  · have := countBelow_lt i.isolated hgt hi'; omega

theorem nodeLabel_gt (i : Inp) (comp : Nat → Nat) (u : Nat) : i.numIso < i.nodeLabel comp u := by
  unfold Inp.nodeLabel; omega

theorem nodeLabel_eq_iff (i : Inp) (comp : Nat → Nat) (u v : Nat) : i.nodeLabel comp u = i.nodeLabel comp v ↔ comp u = comp v := by
  unfold Inp.nodeLabel; omega

/-- what validity gives for link `k` -/
theorem valid_ends {i : Inp} (hv : i.valid = true) {k : Nat} (hk : k < i.nl) :
    (i.ends k).1 ≠ (i.ends k).2 ∧ (i.ends k).1 < i.n ∧ (i.ends k).2 < i.n := by
  unfold Inp.valid at hv
  rw [Bool.and_eq_true, List.all_eq_true] at hv
  have hm : i.ends k ∈ i.links := by
    unfold Inp.ends
    simp [List.getD_eq_getElem?_getD, List.getElem?_eq_getElem (show k < i.links.length from hk)]
  have := hv.1 _ hm
  simp only [Bool.and_eq_true, bne_iff_ne, ne_eq, decide_eq_true_eq] at this
  exact ⟨this.1.1, this.1.2, this.2⟩

theorem valid_rows {i : Inp} (hv : i.valid = true) {k x : Nat} (h : (k, x) ∈ i.layer) :
    k < i.nl ∧ (x = (i.ends k).1 ∨ x = (i.ends k).2) := by
  unfold Inp.valid at hv
  rw [Bool.and_eq_true, List.all_eq_true, List.all_eq_true] at hv
  have := hv.2 _ h
  simpa using this

theorem hasValve_iff (i : Inp) (k u : Nat) : i.hasValve k u = true ↔ (k, u) ∈ i.layer := by
  unfold Inp.hasValve
  rw [List.any_eq_true]
  constructor
  · rintro ⟨x, hx, he⟩
    have : x = (k, u) := by simpa using he
    rw [← this]; exact hx
  · intro h; exact ⟨(k, u), h, by simp⟩

/-- a link without any valve row is unvalved at both ends, and conversely (valid layers) -/
theorem valved_false_iff {i : Inp} (hv : i.valid = true) (k : Nat) :
    i.valved k = false ↔ i.hasValve k (i.ends k).1 = false ∧ i.hasValve k (i.ends k).2 = false := by
  constructor
  · intro h
    have hno : ∀ x, (k, x) ∉ i.layer := by
      intro x hx
      have : i.valved k = true := by
        unfold Inp.valved; rw [List.any_eq_true]; exact ⟨(k, x), hx, by simp⟩
      rw [h] at this; cases this
    constructor
    · cases hh : i.hasValve k (i.ends k).1 with
      | false => rfl
      | true => exact absurd ((hasValve_iff i k _).mp hh) (hno _)
    · cases hh : i.hasValve k (i.ends k).2 with
      | false => rfl
      | true => exact absurd ((hasValve_iff i k _).mp hh) (hno _)
  · rintro ⟨h1, h2⟩
    cases hh : i.valved k with
    | false => rfl
    | true =>
      unfold Inp.valved at hh
      rw [List.any_eq_true] at hh
      obtain ⟨⟨k', x⟩, hx, he⟩ := hh
      have hk : k' = k := by simpa using he
      subst hk
      rcases (valid_rows hv hx).2 with e | e
      · rw [e] at hx; rw [(hasValve_iff i k' _).mpr hx] at h1; cases h1
      · rw [e] at hx; rw [(hasValve_iff i k' _).mpr hx] at h2; cases h2

/-- one incidence step keeps the label -/
theorem incNL_label {i : Inp} {comp : Nat → Nat} (hv : i.valid = true) (hc : CompOk i comp) {k u : Nat} (h : IncNL i k u) :
    i.nodeLabel comp u = i.linkLabel comp k := by
  obtain ⟨hk, hu, hval⟩ := h
  obtain ⟨_, l1, l2⟩ := valid_ends hv hk
  have hniso : i.isolated k = false := by
    unfold Inp.isolated
    rcases hu with e | e <;> rw [e] at hval <;> simp [hval]
  unfold Inp.linkLabel
  rw [hniso]
  simp only [Bool.false_eq_true, if_false]
  unfold Inp.anchor
  by_cases h1 : i.hasValve k (i.ends k).1 = true
  · rw [if_pos h1]
    rcases hu with e | e
    · rw [e, h1] at hval; cases hval
    · rw [e]
  · rw [if_neg h1]
    rcases hu with e | e
    · rw [e]
    · rw [e]
      have h1' : i.hasValve k (i.ends k).1 = false := by
        cases hh : i.hasValve k (i.ends k).1 with
        | false => rfl
        | true => exact absurd hh h1
      rw [e] at hval
      have hunv := (valved_false_iff hv k).mpr ⟨h1', hval⟩
      rw [nodeLabel_eq_iff]
      apply (hc _ _ l2 l1).mpr
      exact Relation.ReflTransGen.single ⟨k, hk, hunv, Or.inr rfl⟩

/-- a non-isolated link is joined to its anchor node and carries that node's label -/
theorem anchor_spec {i : Inp} (hv : i.valid = true) {k : Nat} (hk : k < i.nl) (hniso : i.isolated k = false) (comp : Nat → Nat) :
    IncNL i k (i.anchor k) ∧ i.anchor k < i.n ∧ i.linkLabel comp k = i.nodeLabel comp (i.anchor k) := by
  obtain ⟨_, l1, l2⟩ := valid_ends hv hk
  refine ⟨?_, ?_, ?_⟩
  · unfold Inp.anchor
    by_cases h1 : i.hasValve k (i.ends k).1 = true
    · rw [if_pos h1]
      refine ⟨hk, Or.inr rfl, ?_⟩
      unfold Inp.isolated at hniso
      rw [h1] at hniso
      simpa using hniso
    · rw [if_neg h1]
      refine ⟨hk, Or.inl rfl, ?_⟩
      cases hh : i.hasValve k (i.ends k).1 with
      | false => rfl
      | true => exact absurd hh h1
  · unfold Inp.anchor; split <;> assumption
  · unfold Inp.linkLabel; rw [hniso]; simp

/-- unvalved connectivity of nodes lifts to the incidence graph -/
theorem uadj_sameSeg {i : Inp} (hv : i.valid = true) {u v : Nat} (h : Relation.ReflTransGen (UAdj i) u v) :
    SameSeg i (.node u) (.node v) := by
  induction h with
  | refl => exact Relation.ReflTransGen.refl
  | tail _ hs ih =>
    obtain ⟨k, hk, hunv, he⟩ := hs
    obtain ⟨h1, h2⟩ := (valved_false_iff hv k).mp hunv
    rename_i b c _
    have hb : IncNL i k b := by
      rcases he with e | e
      · exact ⟨hk, Or.inl (by rw [e]), by rw [show b = (i.ends k).1 by rw [e]]; exact h1⟩
      · exact ⟨hk, Or.inr (by rw [e]), by rw [show b = (i.ends k).2 by rw [e]]; exact h2⟩
    have hc' : IncNL i k c := by
      rcases he with e | e
      · exact ⟨hk, Or.inr (by rw [e]), by rw [show c = (i.ends k).2 by rw [e]]; exact h2⟩
      · exact ⟨hk, Or.inl (by rw [e]), by rw [show c = (i.ends k).1 by rw [e]]; exact h1⟩
    exact (ih.tail (show Inc i (.node b) (.link k) from hb)).tail (show Inc i (.link k) (.node c) from hc')

/-- every vertex is either an isolated link (own label ≤ numIso) or joined to a node carrying its label -/
theorem vertex_cases {i : Inp} (hv : i.valid = true) (comp : Nat → Nat) (a : Vtx) (ha : InG i a) :
    (∃ k, a = .link k ∧ k < i.nl ∧ i.isolated k = true ∧ label i comp a = i.isoLabel k) ∨
    (∃ w, w < i.n ∧ SameSeg i a (.node w) ∧ label i comp a = i.nodeLabel comp w) := by
  cases a with
  | node u => right; exact ⟨u, ha, Relation.ReflTransGen.refl, rfl⟩
  | link k =>
    cases hiso : i.isolated k with
    | true =>
      left
      refine ⟨k, rfl, ha, hiso, ?_⟩
      show i.linkLabel comp k = i.isoLabel k
      unfold Inp.linkLabel; rw [hiso]; simp
    | false =>
      right
      obtain ⟨h1, h2, h3⟩ := anchor_spec hv ha hiso comp
      exact ⟨i.anchor k, h2, Relation.ReflTransGen.single (show Inc i (.link k) (.node (i.anchor k)) from h1), h3⟩

end Wntr.Segments
