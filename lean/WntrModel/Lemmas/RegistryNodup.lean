/-
`Clause.nodup` (no name is listed twice in any name list or typed set) and "no usage record is keyed by a Pattern object"
are preserved by the successful branch of every repaired operation.
-/
import WntrModel.Lemmas.RegistryOps

namespace Wntr.Registry
set_option linter.unusedSimpArgs false
set_option linter.unusedVariables false

/-- every typed set lists a name at most once -/
def TypedNodup (s : Reg) : Prop := ∀ t, (s.typed t).Nodup

theorem nodup_iff (s : Reg) : Clause.nodup s ↔
    (AL.keys s.nodes).Nodup ∧ (AL.keys s.links).Nodup ∧ s.patterns.Nodup ∧ s.curves.Nodup ∧ (AL.keys s.sources).Nodup ∧
      TypedNodup s := by
  unfold Clause.nodup TypedNodup
  constructor
  · rintro ⟨a, b, c, d, e, f⟩; exact ⟨a, b, c, d, e, fun t => f t (mem_allTSets t)⟩
  · rintro ⟨a, b, c, d, e, f⟩; exact ⟨a, b, c, d, e, fun t _ => f t⟩

theorem nodup_typed_typedAdd (s : Reg) (t t' : TSet) (k : Name) (h : (s.typed t').Nodup) : ((typedAdd s t k).typed t').Nodup := by
  unfold typedAdd
  rw [setTyped_typed]
  split
  · rename_i ht; subst ht; exact OSet.nodup_add _ _ h
  · exact h

theorem nodup_typed_typedDiscard (s : Reg) (t t' : TSet) (k : Name) (h : (s.typed t').Nodup) :
    ((typedDiscard s t k).typed t').Nodup := by
  unfold typedDiscard
  rw [setTyped_typed]
  split
  · rename_i ht; subst ht; exact OSet.nodup_discard _ _ h
  · exact h

theorem nodup_typed_typedAddAll (s : Reg) (ts : List TSet) (t' : TSet) (k : Name) (h : (s.typed t').Nodup) :
    ((typedAddAll s ts k).typed t').Nodup := by
  induction ts generalizing s with
  | nil => exact h
  | cons t ts ih => exact ih _ (nodup_typed_typedAdd s t t' k h)

theorem nodup_typed_typedDiscardAll (s : Reg) (ts : List TSet) (t' : TSet) (k : Name) (h : (s.typed t').Nodup) :
    ((typedDiscardAll s ts k).typed t').Nodup := by
  induction ts generalizing s with
  | nil => exact h
  | cons t ts ih => exact ih _ (nodup_typed_typedDiscard s t t' k h)

theorem nodup_typed_setNode (s : Reg) (k : Name) (i : NodeInfo) (t' : TSet) (h : (s.typed t').Nodup) :
    ((setNode s k i).typed t').Nodup := by
  unfold setNode; exact nodup_typed_typedAdd _ _ _ _ h

theorem nodup_typed_setLink (s : Reg) (k : Name) (i : LinkInfo) (t' : TSet) (h : (s.typed t').Nodup) :
    ((setLink s k i).typed t').Nodup := by
  unfold setLink; exact nodup_typed_typedAddAll _ _ _ _ h

theorem nodup_typed_setCurveTypeR (s : Reg) (k : Name) (t : CurveType) (t' : TSet) (h : (s.typed t').Nodup) :
    ((setCurveType repaired s k t).typed t').Nodup := by
  rw [setCurveType_repaired]; split
  · exact nodup_typed_typedAdd _ _ _ _ h
  · exact h

theorem nodup_typed_setCurveTypeOR (s : Reg) (k : Option Name) (t : CurveType) (t' : TSet) (h : (s.typed t').Nodup) :
    ((setCurveType? repaired s k t).typed t').Nodup := by
  cases k with
  | none => exact h
  | some c => exact nodup_typed_setCurveTypeR _ _ _ _ h

/-- close `TypedNodup (prim (prim ... s))` from `h6 : TypedNodup s` -/
macro "typed_nodup" h:ident : tactic => `(tactic| (
  intro t
  repeat (first
    | exact $h t
    | apply nodup_typed_typedAdd
    | apply nodup_typed_typedDiscard
    | apply nodup_typed_typedAddAll
    | apply nodup_typed_typedDiscardAll
    | apply nodup_typed_setNode
    | apply nodup_typed_setLink
    | apply nodup_typed_setCurveTypeR
    | apply nodup_typed_setCurveTypeOR
    | simp only [addUsage_typed, addUsageO_typed, removeUsageT_typed, removeUsageO_typed, popUsageKey_typed, setUsage_typed,
        bumpUid_typed, dropControls_typed, removeUserAll_typed, removeUserAllO_typed, releaseAll_typed])))

/-- `Clause.nodup` of a state built from `s` by the primitives, from `Clause.nodup s` -/
macro "reg_nodup" h:ident : tactic => `(tactic| (
  rw [nodup_iff] at *
  obtain ⟨h1, h2, h3, h4, h5, h6⟩ := $h
  refine ⟨?_, ?_, ?_, ?_, ?_, ?_⟩
  iterate 5 (first
    | (reg_norm; first
        | assumption
        | exact AL.nodup_keys_set _ _ _ ‹_›
        | exact AL.nodup_keys_del _ _ ‹_›
        | exact OSet.nodup_add _ _ ‹_›
        | exact OSet.nodup_discard _ _ ‹_›)
    | assumption
    | exact AL.nodup_keys_set _ _ _ ‹_›
    | exact AL.nodup_keys_del _ _ ‹_›
    | exact OSet.nodup_add _ _ ‹_›
    | exact OSet.nodup_discard _ _ ‹_›)
  typed_nodup h6))

/-! ### every operation -/

theorem addJunctionR_nodup (s : Reg) (n : Name) (p : Option Name) (h : Clause.nodup s) : Clause.nodup (addJunctionR s n p) := by
  unfold addJunctionR; reg_nodup h
theorem addTankR_nodup (s : Reg) (n : Name) (c : Option Name) (h : Clause.nodup s) : Clause.nodup (addTankR s n c) := by
  unfold addTankR; reg_nodup h
theorem addReservoirR_nodup (s : Reg) (n : Name) (p : Option Name) (h : Clause.nodup s) : Clause.nodup (addReservoirR s n p) := by
  unfold addReservoirR; reg_nodup h
theorem addPipeR_nodup (s : Reg) (n a b : Name) (h : Clause.nodup s) : Clause.nodup (addPipeR s n a b) := by
  unfold addPipeR; reg_nodup h
theorem addPumpR_nodup (s : Reg) (n a b : Name) (spec : PumpSpec) (pat : Option Name) (h : Clause.nodup s) :
    Clause.nodup (addPumpR s n a b spec pat) := by
  unfold addPumpR; cases spec <;> simp only [] <;> reg_nodup h
theorem addValveR_nodup (s : Reg) (n a b : Name) (kind : LinkKind) (curve : Option Name) (h : Clause.nodup s) :
    Clause.nodup (addValveR s n a b kind curve) := by
  unfold addValveR; reg_nodup h
theorem addPatternR_nodup (s : Reg) (n : Name) (hn : n ∉ s.patterns) (h : Clause.nodup s) : Clause.nodup (addPatternR s n) := by
  unfold addPatternR
  rw [nodup_iff] at *
  obtain ⟨h1, h2, h3, h4, h5, h6⟩ := h
  exact ⟨h1, h2, List.Nodup.append h3 (List.nodup_singleton n) (by simpa using hn), h4, h5, h6⟩
theorem addCurveR_nodup (s : Reg) (n : Name) (t : Option CurveType) (h : Clause.nodup s) : Clause.nodup (addCurveR s n t) := by
  unfold addCurveR; cases t <;> simp only [] <;> reg_nodup h
theorem addSourceR_nodup (s : Reg) (n node : Name) (pat : Option Name) (h : Clause.nodup s) :
    Clause.nodup (addSourceR s n node pat) := by
  unfold addSourceR; reg_nodup h
theorem addDemandR_nodup (s : Reg) (n : Name) (p : Option Name) (i : NodeInfo) (h : Clause.nodup s) : Clause.nodup (addDemandR s n p i) := by
  unfold addDemandR; reg_nodup h
theorem delDemandR_nodup (s : Reg) (n : Name) (idx : Nat) (i : NodeInfo) (h : Clause.nodup s) : Clause.nodup (delDemandR s n idx i) := by
  unfold delDemandR; reg_nodup h
theorem removeFireR_nodup (s : Reg) (n p : Name) (i : NodeInfo) (h : Clause.nodup s) : Clause.nodup (removeFireR s n p i) := by
  unfold removeFireR; reg_nodup h
theorem addFireR_nodup (s : Reg) (n p : Name) (i : NodeInfo) (hp : p ∉ s.patterns) (h : Clause.nodup s) : Clause.nodup (addFireR s n p i) := by
  unfold addFireR
  rw [nodup_iff] at *
  obtain ⟨h1, h2, h3, h4, h5, h6⟩ := h
  refine ⟨AL.nodup_keys_set _ _ _ h1, h2, List.Nodup.append h3 (List.nodup_singleton p) (by simpa using hp), h4, h5, ?_⟩
  typed_nodup h6
theorem setSourceNodeR_nodup (s : Reg) (n node : Name) (si : SourceInfo) (h : Clause.nodup s) : Clause.nodup (setSourceNodeR s n node si) := by
  unfold setSourceNodeR; reg_nodup h
theorem assignDemandR_nodup (s : Reg) (n p : Name) (i : NodeInfo) (hp : p ∉ s.patterns) (h : Clause.nodup s) : Clause.nodup (assignDemandR s n p i) := by
  unfold assignDemandR
  rw [nodup_iff] at *
  obtain ⟨h1, h2, h3, h4, h5, h6⟩ := h
  refine ⟨?_, ?_, ?_, ?_, ?_, ?_⟩
  · reg_norm; exact AL.nodup_keys_set _ _ _ h1
  · reg_norm; exact h2
  · reg_norm; exact List.Nodup.append h3 (List.nodup_singleton p) (by simpa using hp)
  · reg_norm; exact h4
  · reg_norm; exact h5
  · typed_nodup h6
theorem clearDemandsR_nodup (s : Reg) (n : Name) (i : NodeInfo) (h : Clause.nodup s) : Clause.nodup (clearDemandsR s n i) := by
  unfold clearDemandsR; reg_nodup h
theorem renameSourceR_nodup (s : Reg) (old new : Name) (si : SourceInfo) (h : Clause.nodup s) : Clause.nodup (renameSourceR s old new si) := by
  unfold renameSourceR
  rw [nodup_iff] at *
  obtain ⟨h1, h2, h3, h4, h5, h6⟩ := h
  refine ⟨?_, ?_, ?_, ?_, AL.nodup_keys_set _ _ _ (AL.nodup_keys_del _ _ h5), ?_⟩
  · reg_norm; exact h1
  · reg_norm; exact h2
  · reg_norm; exact h3
  · reg_norm; exact h4
  · typed_nodup h6
theorem insertDemandR_nodup (s : Reg) (n : Name) (idx : Nat) (pat : Option Name) (i : NodeInfo) (h : Clause.nodup s) : Clause.nodup (insertDemandR s n idx pat i) := by
  unfold insertDemandR; reg_nodup h
theorem delNodeR_nodup (s : Reg) (key : Name) (i : NodeInfo) (h : Clause.nodup s) : Clause.nodup (delNodeR s key i) := by
  unfold delNodeR; reg_nodup h
theorem delLinkR_nodup (s : Reg) (key : Name) (i : LinkInfo) (h : Clause.nodup s) : Clause.nodup (delLinkR s key i) := by
  unfold delLinkR; reg_nodup h
theorem removePatternR_nodup (s : Reg) (n : Name) (h : Clause.nodup s) : Clause.nodup (removePatternR s n) := by
  unfold removePatternR; reg_nodup h
theorem removeCurveR_nodup (s : Reg) (n : Name) (h : Clause.nodup s) : Clause.nodup (removeCurveR s n) := by
  unfold removeCurveR; reg_nodup h
theorem removeSourceR_nodup (s : Reg) (n : Name) (si : SourceInfo) (h : Clause.nodup s) : Clause.nodup (removeSourceR s n si) := by
  unfold removeSourceR; reg_nodup h
theorem setEndNodeR_nodup (s : Reg) (l n : Name) (isStart : Bool) (i : LinkInfo) (h : Clause.nodup s) :
    Clause.nodup (setEndNodeR s l n isStart i) := by
  unfold setEndNodeR; reg_nodup h
theorem setSpeedPatternR_nodup (s : Reg) (l : Name) (pat : Option Name) (i : LinkInfo) (h : Clause.nodup s) :
    Clause.nodup (setSpeedPatternR s l pat i) := by
  unfold setSpeedPatternR; reg_nodup h
theorem setPumpCurveR_nodup (s : Reg) (l c : Name) (i : LinkInfo) (h : Clause.nodup s) : Clause.nodup (setPumpCurveR s l c i) := by
  unfold setPumpCurveR; reg_nodup h
theorem setHeadlossCurveR_nodup (s : Reg) (l c : Name) (i : LinkInfo) (h : Clause.nodup s) :
    Clause.nodup (setHeadlossCurveR s l c i) := by
  unfold setHeadlossCurveR; reg_nodup h
theorem setHeadPatternR_nodup (s : Reg) (n : Name) (pat : Option Name) (i : NodeInfo) (h : Clause.nodup s) :
    Clause.nodup (setHeadPatternR s n pat i) := by
  unfold setHeadPatternR; reg_nodup h
theorem setVolCurveR_nodup (s : Reg) (n : Name) (curve : Option Name) (i : NodeInfo) (h : Clause.nodup s) :
    Clause.nodup (setVolCurveR s n curve i) := by
  unfold setVolCurveR; reg_nodup h

/-! ### no operation of the repaired code writes a usage record keyed by a Pattern object -/

theorem addUsage_usage_ne (s : Reg) (r r' : RegId) (k : Name) (u : User) (h : r' ≠ r) : (addUsage s r k u).usage r' = s.usage r' := by
  unfold addUsage; rw [setUsage_usage, if_neg h]
theorem addUsageO_usage_ne (s : Reg) (r r' : RegId) (k : Option Name) (u : User) (h : r' ≠ r) :
    (addUsage? s r k u).usage r' = s.usage r' := by
  cases k with
  | none => rfl
  | some k => exact addUsage_usage_ne s r r' k u h
theorem removeUsageT_usage_ne (s : Reg) (r r' : RegId) (k : Name) (u : User) (h : r' ≠ r) :
    (removeUsageT s r k u).usage r' = s.usage r' := by
  unfold removeUsageT; split <;> rw [setUsage_usage, if_neg h]
theorem removeUsageO_usage_ne (s : Reg) (r r' : RegId) (k : Option Name) (u : User) (h : r' ≠ r) :
    (removeUsageO s r k u).usage r' = s.usage r' := by
  cases k with
  | none => rfl
  | some k => exact removeUsageT_usage_ne s r r' k u h
theorem popUsageKey_usage_ne (s : Reg) (r r' : RegId) (k : Name) (h : r' ≠ r) : (popUsageKey s r k).usage r' = s.usage r' := by
  unfold popUsageKey; rw [setUsage_usage, if_neg h]

theorem releaseAll_usage_ne (s : Reg) (r r' : RegId) (ks : List Name) (u : User) (h : r' ≠ r) :
    (releaseAll s r ks u).usage r' = s.usage r' := by
  unfold releaseAll
  exact foldl_removeUsageT_frame (fun x => x.usage r') (fun a k => removeUsageT_usage_ne a r r' k u h) _ s

theorem removeUserAll_usage_ne (s : Reg) (r r' : RegId) (u : User) (h : r' ≠ r) : (removeUserAll s r u).usage r' = s.usage r' := by
  unfold removeUserAll
  exact foldl_removeUsageT_frame (fun x => x.usage r') (fun a k => removeUsageT_usage_ne a r r' k u h) _ s
theorem removeUserAllO_usage_ne (s : Reg) (r r' : RegId) (u : Option User) (h : r' ≠ r) :
    (removeUserAllO s r u).usage r' = s.usage r' := by
  cases u with
  | none => rfl
  | some u => exact removeUserAll_usage_ne s r r' u h

macro "reg_obj" : tactic => `(tactic| simp (disch := decide) only [addUsage_usage_ne, addUsageO_usage_ne, removeUsageT_usage_ne,
  removeUsageO_usage_ne, popUsageKey_usage_ne, removeUserAll_usage_ne, removeUserAllO_usage_ne, releaseAll_usage_ne, typedAdd_usage, typedDiscard_usage, typedAddAll_usage, typedDiscardAll_usage,
  setNode_usage, setLink_usage, bumpUid_usage, dropControls_usage, setCurveTypeR_usage, setCurveTypeOR_usage])

theorem addJunctionR_obj (s : Reg) (n : Name) (p : Option Name) : (addJunctionR s n p).usage .patternObj = s.usage .patternObj := by
  unfold addJunctionR; reg_obj
theorem addTankR_obj (s : Reg) (n : Name) (c : Option Name) : (addTankR s n c).usage .patternObj = s.usage .patternObj := by
  unfold addTankR; reg_obj
theorem addReservoirR_obj (s : Reg) (n : Name) (p : Option Name) : (addReservoirR s n p).usage .patternObj = s.usage .patternObj := by
  unfold addReservoirR; reg_obj
theorem addPipeR_obj (s : Reg) (n a b : Name) : (addPipeR s n a b).usage .patternObj = s.usage .patternObj := by
  unfold addPipeR; reg_obj
theorem addPumpR_obj (s : Reg) (n a b : Name) (spec : PumpSpec) (pat : Option Name) : (addPumpR s n a b spec pat).usage .patternObj = s.usage .patternObj := by
  unfold addPumpR; cases spec <;> simp only [] <;> reg_obj
theorem addValveR_obj (s : Reg) (n a b : Name) (kind : LinkKind) (curve : Option Name) : (addValveR s n a b kind curve).usage .patternObj = s.usage .patternObj := by
  unfold addValveR; reg_obj
theorem addPatternR_obj (s : Reg) (n : Name) : (addPatternR s n).usage .patternObj = s.usage .patternObj := by
  unfold addPatternR; reg_obj
theorem addCurveR_obj (s : Reg) (n : Name) (t : Option CurveType) : (addCurveR s n t).usage .patternObj = s.usage .patternObj := by
  unfold addCurveR; cases t <;> simp only [] <;> reg_obj
theorem addSourceR_obj (s : Reg) (n node : Name) (pat : Option Name) : (addSourceR s n node pat).usage .patternObj = s.usage .patternObj := by
  unfold addSourceR; reg_obj
theorem addDemandR_obj (s : Reg) (n : Name) (p : Option Name) (i : NodeInfo) : (addDemandR s n p i).usage .patternObj = s.usage .patternObj := by
  unfold addDemandR; reg_obj
theorem delDemandR_obj (s : Reg) (n : Name) (idx : Nat) (i : NodeInfo) : (delDemandR s n idx i).usage .patternObj = s.usage .patternObj := by
  unfold delDemandR; reg_obj
theorem addFireR_obj (s : Reg) (n p : Name) (i : NodeInfo) : (addFireR s n p i).usage .patternObj = s.usage .patternObj := by
  unfold addFireR; reg_obj
theorem removeFireR_obj (s : Reg) (n p : Name) (i : NodeInfo) : (removeFireR s n p i).usage .patternObj = s.usage .patternObj := by
  unfold removeFireR; reg_obj
theorem setSourceNodeR_obj (s : Reg) (n node : Name) (si : SourceInfo) : (setSourceNodeR s n node si).usage .patternObj = s.usage .patternObj := by
  unfold setSourceNodeR; reg_obj
theorem assignDemandR_obj (s : Reg) (n p : Name) (i : NodeInfo) : (assignDemandR s n p i).usage .patternObj = s.usage .patternObj := by
  unfold assignDemandR; reg_obj
theorem clearDemandsR_obj (s : Reg) (n : Name) (i : NodeInfo) : (clearDemandsR s n i).usage .patternObj = s.usage .patternObj := by
  unfold clearDemandsR; reg_obj
theorem renameSourceR_obj (s : Reg) (old new : Name) (si : SourceInfo) : (renameSourceR s old new si).usage .patternObj = s.usage .patternObj := by
  unfold renameSourceR; reg_obj
theorem insertDemandR_obj (s : Reg) (n : Name) (idx : Nat) (pat : Option Name) (i : NodeInfo) : (insertDemandR s n idx pat i).usage .patternObj = s.usage .patternObj := by
  unfold insertDemandR; reg_obj
theorem delNodeR_obj (s : Reg) (key : Name) (i : NodeInfo) : (delNodeR s key i).usage .patternObj = s.usage .patternObj := by
  unfold delNodeR; reg_obj
theorem delLinkR_obj (s : Reg) (key : Name) (i : LinkInfo) : (delLinkR s key i).usage .patternObj = s.usage .patternObj := by
  unfold delLinkR; reg_obj
theorem removePatternR_obj (s : Reg) (n : Name) : (removePatternR s n).usage .patternObj = s.usage .patternObj := by
  unfold removePatternR; reg_obj
theorem removeCurveR_obj (s : Reg) (n : Name) : (removeCurveR s n).usage .patternObj = s.usage .patternObj := by
  unfold removeCurveR; reg_obj
theorem removeSourceR_obj (s : Reg) (n : Name) (si : SourceInfo) : (removeSourceR s n si).usage .patternObj = s.usage .patternObj := by
  unfold removeSourceR; reg_obj
theorem setEndNodeR_obj (s : Reg) (l n : Name) (isStart : Bool) (i : LinkInfo) : (setEndNodeR s l n isStart i).usage .patternObj = s.usage .patternObj := by
  unfold setEndNodeR; reg_obj
theorem setSpeedPatternR_obj (s : Reg) (l : Name) (pat : Option Name) (i : LinkInfo) : (setSpeedPatternR s l pat i).usage .patternObj = s.usage .patternObj := by
  unfold setSpeedPatternR; reg_obj
theorem setPumpCurveR_obj (s : Reg) (l c : Name) (i : LinkInfo) : (setPumpCurveR s l c i).usage .patternObj = s.usage .patternObj := by
  unfold setPumpCurveR; reg_obj
theorem setHeadlossCurveR_obj (s : Reg) (l c : Name) (i : LinkInfo) : (setHeadlossCurveR s l c i).usage .patternObj = s.usage .patternObj := by
  unfold setHeadlossCurveR; reg_obj
theorem setHeadPatternR_obj (s : Reg) (n : Name) (pat : Option Name) (i : NodeInfo) : (setHeadPatternR s n pat i).usage .patternObj = s.usage .patternObj := by
  unfold setHeadPatternR; reg_obj
theorem setVolCurveR_obj (s : Reg) (n : Name) (curve : Option Name) (i : NodeInfo) : (setVolCurveR s n curve i).usage .patternObj = s.usage .patternObj := by
  unfold setVolCurveR; reg_obj

/-! ### usage records are sets (the `OrderedSet`s of the code): no user is recorded twice -/

def UsageNodup (s : Reg) : Prop := ∀ r k, (ulook (s.usage r) k).Nodup

theorem nodup_ulook_addUsage (s : Reg) (r r' : RegId) (k k' : Name) (u : User) (h : (ulook (s.usage r') k').Nodup) :
    (ulook ((addUsage s r k u).usage r') k').Nodup := by
  unfold addUsage
  rw [setUsage_usage]
  by_cases hr : r' = r
  · subst hr
    simp only [if_true, ulook_set, users_eq]
    by_cases hk : k = k'
    · subst hk; simp only [if_true]; exact OSet.nodup_add _ _ h
    · simp only [hk, if_false]; exact h
  · simp only [hr, if_false]; exact h

theorem nodup_ulook_addUsageO (s : Reg) (r r' : RegId) (k : Option Name) (k' : Name) (u : User)
    (h : (ulook (s.usage r') k').Nodup) : (ulook ((addUsage? s r k u).usage r') k').Nodup := by
  cases k with
  | none => exact h
  | some k => exact nodup_ulook_addUsage s r r' k k' u h

theorem nodup_ulook_removeUsageT (s : Reg) (r r' : RegId) (k k' : Name) (u : User) (h : (ulook (s.usage r') k').Nodup) :
    (ulook ((removeUsageT s r k u).usage r') k').Nodup := by
  rw [ulook_removeUsageT]
  split
  · rename_i hc; obtain ⟨hr, hk⟩ := hc; subst hr; subst hk; exact OSet.nodup_discard _ _ h
  · exact h

theorem nodup_ulook_removeUsageO (s : Reg) (r r' : RegId) (k : Option Name) (k' : Name) (u : User)
    (h : (ulook (s.usage r') k').Nodup) : (ulook ((removeUsageO s r k u).usage r') k').Nodup := by
  cases k with
  | none => exact h
  | some k => exact nodup_ulook_removeUsageT s r r' k k' u h

theorem nodup_ulook_popUsageKey (s : Reg) (r r' : RegId) (k k' : Name) (h : (ulook (s.usage r') k').Nodup) :
    (ulook ((popUsageKey s r k).usage r') k').Nodup := by
  unfold popUsageKey
  rw [setUsage_usage]
  by_cases hr : r' = r
  · subst hr
    simp only [if_true, ulook_del]
    split
    · exact List.nodup_nil
    · exact h
  · simp only [hr, if_false]; exact h

theorem nodup_ulook_foldl_removeUsageT (l : List Name) (s : Reg) (r r' : RegId) (k' : Name) (u : User)
    (h : (ulook (s.usage r') k').Nodup) : (ulook ((l.foldl (fun acc k => removeUsageT acc r k u) s).usage r') k').Nodup := by
  induction l generalizing s with
  | nil => exact h
  | cons k t ih => exact ih _ (nodup_ulook_removeUsageT s r r' k k' u h)

theorem nodup_ulook_removeUserAllO (s : Reg) (r r' : RegId) (k' : Name) (u : Option User)
    (h : (ulook (s.usage r') k').Nodup) : (ulook ((removeUserAllO s r u).usage r') k').Nodup := by
  cases u with
  | none => exact h
  | some u => exact nodup_ulook_foldl_removeUsageT _ s r r' k' u h

theorem nodup_ulook_releaseAll (s : Reg) (r r' : RegId) (ks : List Name) (k' : Name) (u : User)
    (h : (ulook (s.usage r') k').Nodup) : (ulook ((releaseAll s r ks u).usage r') k').Nodup := by
  unfold releaseAll; exact nodup_ulook_foldl_removeUsageT ks s r r' k' u h

/-- close `UsageNodup (prim (prim ... s))` from `h : UsageNodup s` -/
macro "usage_nodup" h:ident : tactic => `(tactic| (
  intro r k
  repeat (first
    | apply nodup_ulook_addUsage
    | apply nodup_ulook_addUsageO
    | apply nodup_ulook_removeUsageT
    | apply nodup_ulook_removeUsageO
    | apply nodup_ulook_popUsageKey
    | apply nodup_ulook_removeUserAllO
    | apply nodup_ulook_releaseAll
    | simp only [typedAdd_usage, typedDiscard_usage, typedAddAll_usage, typedDiscardAll_usage,
        setNode_usage, setLink_usage, bumpUid_usage, dropControls_usage, setCurveTypeR_usage, setCurveTypeOR_usage]
    | exact $h r k)))

section
attribute [local irreducible] addUsage addUsage? removeUsageT removeUsageO popUsageKey removeUserAllO removeUserAll releaseAll typedDiscardAll typedAddAll typedAdd
  typedDiscard setLink setNode setCurveType setCurveType? bumpUid dropControls

theorem addJunctionR_usageNodup (s : Reg) (n : Name) (p : Option Name) (h : UsageNodup s) : UsageNodup (addJunctionR s n p) := by
  unfold addJunctionR; usage_nodup h
theorem addTankR_usageNodup (s : Reg) (n : Name) (c : Option Name) (h : UsageNodup s) : UsageNodup (addTankR s n c) := by
  unfold addTankR; usage_nodup h
theorem addReservoirR_usageNodup (s : Reg) (n : Name) (p : Option Name) (h : UsageNodup s) : UsageNodup (addReservoirR s n p) := by
  unfold addReservoirR; usage_nodup h
theorem addPipeR_usageNodup (s : Reg) (n a b : Name) (h : UsageNodup s) : UsageNodup (addPipeR s n a b) := by
  unfold addPipeR; usage_nodup h
theorem addPumpR_usageNodup (s : Reg) (n a b : Name) (spec : PumpSpec) (pat : Option Name) (h : UsageNodup s) : UsageNodup (addPumpR s n a b spec pat) := by
  unfold addPumpR; cases spec <;> simp only [] <;> usage_nodup h
theorem addValveR_usageNodup (s : Reg) (n a b : Name) (kind : LinkKind) (curve : Option Name) (h : UsageNodup s) : UsageNodup (addValveR s n a b kind curve) := by
  unfold addValveR; usage_nodup h
theorem addPatternR_usageNodup (s : Reg) (n : Name) (h : UsageNodup s) : UsageNodup (addPatternR s n) := by
  unfold addPatternR; usage_nodup h
theorem addCurveR_usageNodup (s : Reg) (n : Name) (t : Option CurveType) (h : UsageNodup s) : UsageNodup (addCurveR s n t) := by
  unfold addCurveR; cases t <;> simp only [] <;> usage_nodup h
theorem addSourceR_usageNodup (s : Reg) (n node : Name) (pat : Option Name) (h : UsageNodup s) : UsageNodup (addSourceR s n node pat) := by
  unfold addSourceR; usage_nodup h
theorem addDemandR_usageNodup (s : Reg) (n : Name) (p : Option Name) (i : NodeInfo) (h : UsageNodup s) : UsageNodup (addDemandR s n p i) := by
  unfold addDemandR; usage_nodup h
theorem delDemandR_usageNodup (s : Reg) (n : Name) (idx : Nat) (i : NodeInfo) (h : UsageNodup s) : UsageNodup (delDemandR s n idx i) := by
  unfold delDemandR; usage_nodup h
theorem addFireR_usageNodup (s : Reg) (n p : Name) (i : NodeInfo) (h : UsageNodup s) : UsageNodup (addFireR s n p i) := by
  unfold addFireR; usage_nodup h
theorem removeFireR_usageNodup (s : Reg) (n p : Name) (i : NodeInfo) (h : UsageNodup s) : UsageNodup (removeFireR s n p i) := by
  unfold removeFireR; usage_nodup h
theorem setSourceNodeR_usageNodup (s : Reg) (n node : Name) (si : SourceInfo) (h : UsageNodup s) : UsageNodup (setSourceNodeR s n node si) := by
  unfold setSourceNodeR; usage_nodup h
theorem assignDemandR_usageNodup (s : Reg) (n p : Name) (i : NodeInfo) (h : UsageNodup s) : UsageNodup (assignDemandR s n p i) := by
  unfold assignDemandR; usage_nodup h
theorem clearDemandsR_usageNodup (s : Reg) (n : Name) (i : NodeInfo) (h : UsageNodup s) : UsageNodup (clearDemandsR s n i) := by
  unfold clearDemandsR; usage_nodup h
theorem renameSourceR_usageNodup (s : Reg) (old new : Name) (si : SourceInfo) (h : UsageNodup s) : UsageNodup (renameSourceR s old new si) := by
  unfold renameSourceR; usage_nodup h
theorem insertDemandR_usageNodup (s : Reg) (n : Name) (idx : Nat) (pat : Option Name) (i : NodeInfo) (h : UsageNodup s) : UsageNodup (insertDemandR s n idx pat i) := by
  unfold insertDemandR; usage_nodup h
theorem delNodeR_usageNodup (s : Reg) (key : Name) (i : NodeInfo) (h : UsageNodup s) : UsageNodup (delNodeR s key i) := by
  unfold delNodeR; usage_nodup h
theorem delLinkR_usageNodup (s : Reg) (key : Name) (i : LinkInfo) (h : UsageNodup s) : UsageNodup (delLinkR s key i) := by
  unfold delLinkR; usage_nodup h
theorem removePatternR_usageNodup (s : Reg) (n : Name) (h : UsageNodup s) : UsageNodup (removePatternR s n) := by
  unfold removePatternR; usage_nodup h
theorem removeCurveR_usageNodup (s : Reg) (n : Name) (h : UsageNodup s) : UsageNodup (removeCurveR s n) := by
  unfold removeCurveR; usage_nodup h
theorem removeSourceR_usageNodup (s : Reg) (n : Name) (si : SourceInfo) (h : UsageNodup s) : UsageNodup (removeSourceR s n si) := by
  unfold removeSourceR; usage_nodup h
theorem setEndNodeR_usageNodup (s : Reg) (l n : Name) (isStart : Bool) (i : LinkInfo) (h : UsageNodup s) : UsageNodup (setEndNodeR s l n isStart i) := by
  unfold setEndNodeR; usage_nodup h
theorem setSpeedPatternR_usageNodup (s : Reg) (l : Name) (pat : Option Name) (i : LinkInfo) (h : UsageNodup s) : UsageNodup (setSpeedPatternR s l pat i) := by
  unfold setSpeedPatternR; usage_nodup h
theorem setPumpCurveR_usageNodup (s : Reg) (l c : Name) (i : LinkInfo) (h : UsageNodup s) : UsageNodup (setPumpCurveR s l c i) := by
  unfold setPumpCurveR; usage_nodup h
theorem setHeadlossCurveR_usageNodup (s : Reg) (l c : Name) (i : LinkInfo) (h : UsageNodup s) : UsageNodup (setHeadlossCurveR s l c i) := by
  unfold setHeadlossCurveR; usage_nodup h
theorem setHeadPatternR_usageNodup (s : Reg) (n : Name) (pat : Option Name) (i : NodeInfo) (h : UsageNodup s) : UsageNodup (setHeadPatternR s n pat i) := by
  unfold setHeadPatternR; usage_nodup h
theorem setVolCurveR_usageNodup (s : Reg) (n : Name) (curve : Option Name) (i : NodeInfo) (h : UsageNodup s) : UsageNodup (setVolCurveR s n curve i) := by
  unfold setVolCurveR; usage_nodup h

end

end Wntr.Registry
