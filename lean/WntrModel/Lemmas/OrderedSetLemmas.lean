/-
Abstraction theorems for the transliterated `OrderedSet` (Model/OrderedSetModel.lean): what the registry model M3 relies on
when it represents an OrderedSet by a duplicate-free list (`OSet.add` / `OSet.discard` of Model/Registry.lean).
-/
import WntrModel.Model.OrderedSetModel
import WntrModel.Lemmas.RegistryList
import Mathlib.Data.List.Perm.Subperm

namespace Wntr.OrderedSetModel
variable {α : Type} [DecidableEq α]

/-- well-formed = the dict has every key once -/
def WF (s : OSetM α) : Prop := s.data.Nodup

theorem wf_empty : WF (empty : OSetM α) := List.nodup_nil

/-! ### add -/
theorem mem_add (s : OSetM α) (v x : α) : x ∈ (add s v).data ↔ x ∈ s.data ∨ x = v := by
  unfold add; split
  · constructor
    · exact Or.inl
    · rintro (h | h); exact h; subst h; assumption
  · simp

theorem wf_add (s : OSetM α) (v : α) (h : WF s) : WF (add s v) := by
  unfold add WF; split
  · exact h
  · rename_i hv; exact List.Nodup.append h (List.nodup_singleton v) (by simpa using hv)

/-- insertion order is kept: the old elements stay where they are, a new one goes to the end -/
theorem add_order (s : OSetM α) (v : α) : (add s v).data = if v ∈ s.data then s.data else s.data ++ [v] := by
  unfold add; split <;> rfl

theorem add_idem (s : OSetM α) (v : α) : add (add s v) v = add s v := by
  have h : v ∈ (add s v).data := (mem_add s v v).2 (Or.inr rfl)
  show (if v ∈ (add s v).data then add s v else ⟨(add s v).data ++ [v]⟩) = add s v
  rw [if_pos h]

/-! ### discard -/
theorem mem_discard (s : OSetM α) (v x : α) : x ∈ (discard s v).data ↔ x ∈ s.data ∧ x ≠ v := by
  unfold discard; simp

theorem wf_discard (s : OSetM α) (v : α) (h : WF s) : WF (discard s v) := h.filter _

/-- the remaining elements keep their order -/
theorem discard_sublist (s : OSetM α) (v : α) : (discard s v).data.Sublist s.data := List.filter_sublist

/-- discarding an element that is not in the set changes nothing -/
theorem discard_absent (s : OSetM α) (v : α) (h : v ∉ s.data) : discard s v = s := by
  unfold discard
  congr
  rw [List.filter_eq_self]
  intro a ha
  simp only [ne_eq, decide_eq_true_eq]
  rintro rfl; exact h ha

theorem remove_spec (s : OSetM α) (v : α) :
    remove s v = if v ∈ s.data then some (discard s v) else none := by
  unfold remove contains; simp

/-! ### update / __init__ / union / __sub__ / __or__ -/
theorem update_eq_foldl (s : OSetM α) (l : List α) : update s l = l.foldl add s := rfl

theorem mem_foldl_add (s : OSetM α) (l : List α) (x : α) : x ∈ (l.foldl add s).data ↔ x ∈ s.data ∨ x ∈ l := by
  induction l generalizing s with
  | nil => simp
  | cons a t ih =>
    rw [List.foldl_cons, ih, mem_add, List.mem_cons]
    constructor
    · rintro ((h | h) | h)
      · exact Or.inl h
      · exact Or.inr (Or.inl h)
      · exact Or.inr (Or.inr h)
    · rintro (h | h | h)
      · exact Or.inl (Or.inl h)
      · exact Or.inl (Or.inr h)
      · exact Or.inr h

theorem mem_update (s : OSetM α) (l : List α) (x : α) : x ∈ (update s l).data ↔ x ∈ s.data ∨ x ∈ l := mem_foldl_add s l x

theorem wf_update (s : OSetM α) (l : List α) (h : WF s) : WF (update s l) := by
  unfold update
  induction l generalizing s with
  | nil => exact h
  | cons a t ih => exact ih _ (wf_add s a h)

theorem wf_ofList (l : List α) : WF (ofList l) := wf_update _ _ wf_empty

theorem foldl_add_fresh (l pre : List α) (h : (pre ++ l).Nodup) : (l.foldl add ⟨pre⟩).data = pre ++ l := by
  induction l generalizing pre with
  | nil => simp
  | cons a t ih =>
    have ha : a ∉ pre := by
      intro hm
      exact (List.nodup_append.1 h).2.2 a hm a List.mem_cons_self rfl
    simp only [List.foldl_cons, add, ha, if_false]
    have := ih (pre ++ [a]) (by simpa using h)
    simpa using this

/-- `OrderedSet(s)` of a well-formed set is a copy with the same order -/
theorem ofList_self (l : List α) (h : l.Nodup) : (ofList l).data = l := by
  have := foldl_add_fresh l [] (by simpa using h)
  simpa [ofList, update, empty] using this

theorem mem_union (s : OSetM α) (l : List α) (x : α) : x ∈ (union s l).data ↔ x ∈ s.data ∨ x ∈ l := by
  have := mem_update (ofList (iter s)) l x
  unfold update at this
  unfold union
  rw [this]
  have h2 := mem_update (empty : OSetM α) (iter s) x
  unfold ofList
  rw [h2]
  simp [empty, iter]

theorem wf_union (s : OSetM α) (l : List α) : WF (union s l) := wf_update _ _ (wf_ofList _)

theorem mem_foldl_discard (t : OSetM α) (l : List α) (x : α) : x ∈ (l.foldl discard t).data ↔ x ∈ t.data ∧ x ∉ l := by
  induction l generalizing t with
  | nil => simp
  | cons a r ih =>
    rw [List.foldl_cons, ih, mem_discard, List.mem_cons, not_or]
    constructor
    · rintro ⟨⟨h1, h2⟩, h3⟩; exact ⟨h1, h2, h3⟩
    · rintro ⟨h1, h2, h3⟩; exact ⟨⟨h1, h2⟩, h3⟩

theorem mem_sub (s : OSetM α) (l : List α) (x : α) : x ∈ (sub s l).data ↔ x ∈ s.data ∧ x ∉ l := by
  unfold sub
  rw [mem_foldl_discard]
  have h0 : x ∈ (ofList (iter s)).data ↔ x ∈ s.data := by
    unfold ofList; rw [mem_update]; simp [empty, iter]
  rw [h0]

theorem mem_or (s : OSetM α) (l : List α) (x : α) : x ∈ (or s l).data ↔ x ∈ s.data ∨ x ∈ l := by
  unfold or ofList; rw [mem_update]; simp [empty, iter]

/-! ### __contains__, __len__, __eq__ -/
theorem contains_iff (s : OSetM α) (v : α) : contains s v = true ↔ v ∈ s.data := by unfold contains; simp

/-- `==` of two well-formed sets: the same members, whatever the order -/
theorem eq_iff (s t : OSetM α) (hs : WF s) (ht : WF t) : eq s t = true ↔ ∀ x, x ∈ s.data ↔ x ∈ t.data := by
  unfold eq le len contains
  simp only [Bool.and_eq_true, decide_eq_true_eq, List.all_eq_true, List.contains_iff_mem]
  constructor
  · rintro ⟨hl, _, hsub⟩ x
    refine ⟨hsub x, fun hx => ?_⟩
    have hsub' : s.data ⊆ t.data := fun a ha => hsub a ha
    have hperm := (List.subperm_of_subset hs hsub').perm_of_length_le (Nat.le_of_eq hl.symm)
    exact hperm.mem_iff.2 hx
  · intro h
    have hperm : s.data.Perm t.data := (List.perm_ext_iff_of_nodup hs ht).2 h
    exact ⟨hperm.length_eq, Nat.le_of_eq hperm.length_eq, fun x hx => (h x).1 hx⟩

/-- every OrderedSet that the class's methods can build from `OrderedSet()` is well-formed -/
inductive Reach : OSetM α → Prop
  | new : Reach empty
  | add (s v) : Reach s → Reach (add s v)
  | discard (s v) : Reach s → Reach (discard s v)
  | update (s l) : Reach s → Reach (update s l)
  | union (s l) : Reach s → Reach (union s l)
  | sub (s l) : Reach s → Reach (sub s l)
  | or (s l) : Reach s → Reach (or s l)
  | clear (s) : Reach s → Reach (clear s)

theorem wf_sub (s : OSetM α) (l : List α) : WF (sub s l) := by
  unfold sub
  have h0 : WF (ofList (iter s)) := wf_ofList _
  generalize ofList (iter s) = t at h0
  induction l generalizing t with
  | nil => exact h0
  | cons a r ih => exact ih _ (wf_discard t a h0)

/-- **orderedset_wf**: no sequence of OrderedSet operations ever produces a duplicate -/
theorem orderedset_wf (s : OSetM α) (h : Reach s) : WF s := by
  induction h with
  | new => exact wf_empty
  | add s v _ ih => exact wf_add s v ih
  | discard s v _ ih => exact wf_discard s v ih
  | update s l _ ih => exact wf_update s l ih
  | union s l _ _ => exact wf_union s l
  | sub s l _ _ => exact wf_sub s l
  | or s l _ _ => exact wf_ofList _
  | clear s _ _ => exact wf_empty

end Wntr.OrderedSetModel

namespace Wntr.Registry
open Wntr.OrderedSetModel

/-- the registry model's `OSet.add` / `OSet.discard` ARE the transliterated `OrderedSet.add` / `discard` -/
theorem OSet.add_eq_model (l : List User) (u : User) : OSet.add l u = (OrderedSetModel.add ⟨l⟩ u).data := by
  unfold OSet.add OrderedSetModel.add; split <;> rfl
theorem OSet.discard_eq_model (l : List User) (u : User) : OSet.discard l u = (OrderedSetModel.discard ⟨l⟩ u).data := rfl
theorem OSet.add_eq_model_name (l : List Name) (u : Name) : OSet.add l u = (OrderedSetModel.add ⟨l⟩ u).data := by
  unfold OSet.add OrderedSetModel.add; split <;> rfl
theorem OSet.discard_eq_model_name (l : List Name) (u : Name) : OSet.discard l u = (OrderedSetModel.discard ⟨l⟩ u).data := rfl

end Wntr.Registry
