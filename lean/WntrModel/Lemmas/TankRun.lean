/-
Invariants of M5c `TankRun.run`: every saved row follows a quiet post-solve pass; consecutive rows are linked by
`update_tank_heads` from the previous row's heads with the previous row's demands.
-/
import WntrModel.Model.TankRun
import WntrModel.Lemmas.ControlsPass
namespace Wntr.TankRun
open Wntr.Tank Wntr.Controls

/-- the post-solve due list on a solved state -/
def postDue (cfg : Cfg) (heads : List Rat) (sol : Sol) (prevT t : Int) (lasts : List Rat) : List Ctl :=
  (check cfg (·.post) heads (some sol.demand) (some sol) prevT t cfg.ctls lasts).1.map (·.ctl)

/-- a row was saved right after a post-solve pass that changed nothing the tracker watches, evaluated on the solution of
the solve that used the link state `before` -/
def Quiet (cfg : Cfg) (r : Row) : Prop :=
  r.links = runPass r.due r.before ∧ changed cfg.tracked r.before r.links = false ∧
  ∃ sol lasts prevT, cfg.solve r.before r.time r.heads = some sol ∧ r.demand = sol.demand
    ∧ r.due = postDue cfg r.heads sol prevT r.time lasts

theorem trials_ok_spec (cfg : Cfg) (t prevT : Int) (heads : List Rat) :
    ∀ (fuel trial : Nat) (ls : Links) (lasts : List Rat) (sol : Sol) (b a : Links) (due : List Ctl) (l : List Rat),
      trials cfg t prevT heads fuel trial ls lasts = .ok sol b a due l →
      a = runPass due b ∧ changed cfg.tracked b a = false ∧
      ∃ lasts', cfg.solve b t heads = some sol ∧ due = postDue cfg heads sol prevT t lasts' := by
  intro fuel
  induction fuel with
  | zero => intro trial ls lasts sol b a due l h; simp [trials] at h
  | succ n ih =>
    intro trial ls lasts sol b a due l h
    unfold trials at h
    cases hs : cfg.solve ls t heads with
    | none => simp [hs] at h
    | some sol' =>
      simp only [hs] at h
      by_cases hc : changed cfg.tracked ls
          (runPass ((check cfg (·.post) heads (some sol'.demand) (some sol') prevT t cfg.ctls lasts).1.map (·.ctl)) ls) = true
      · simp only [hc, if_true] at h
        by_cases ht : trial + 1 > cfg.maxTrials
        · simp [ht] at h
        · simp only [ht, if_false] at h
          exact ih _ _ _ _ _ _ _ _ h
      · have hc' : changed cfg.tracked ls
            (runPass ((check cfg (·.post) heads (some sol'.demand) (some sol') prevT t cfg.ctls lasts).1.map (·.ctl)) ls) = false := by
          simpa using hc
        simp only [hc', Bool.false_eq_true, if_false] at h
        injection h with h1 h2 h3 h4 h5
        subst h1 h2 h3 h4
        exact ⟨rfl, hc', lasts, hs, rfl⟩

theorem step_of_error (cfg : Cfg) (s : St)
    (h : trials cfg (preResult cfg s).2 s.prevTime (acceptedHeads cfg s) (cfg.maxTrials + 2) 0 (preResult cfg s).1 (preCheck cfg s).2 = .error) :
    step cfg s = { s with error := true } := by
  unfold step; simp only [h]

theorem step_of_ok (cfg : Cfg) (s : St) (sol : Sol) (b a : Links) (due : List Ctl) (l : List Rat)
    (h : trials cfg (preResult cfg s).2 s.prevTime (acceptedHeads cfg s) (cfg.maxTrials + 2) 0 (preResult cfg s).1 (preCheck cfg s).2 = .ok sol b a due l) :
    step cfg s =
      { simTime := nextGrid cfg.hyd (preResult cfg s).2, prevTime := (preResult cfg s).2, first := false, links := a,
        prevHeads := acceptedHeads cfg s, heads := acceptedHeads cfg s, demand := some sol.demand, lasts := l,
        ruleIter := (preResultR cfg s).2.2, rows := ⟨(preResult cfg s).2, acceptedHeads cfg s, sol.demand, a, b, due⟩ :: s.rows, error := false } := by
  unfold step; simp only [h]

/-- rows of a step: the old ones (error: nothing else changes but the flag), or one new quiet row in front -/
theorem step_rows (cfg : Cfg) (s : St) :
    step cfg s = { s with error := true } ∨ ∃ r, (step cfg s).rows = r :: s.rows ∧ Quiet cfg r ∧ r.time = (preResult cfg s).2
      ∧ r.heads = acceptedHeads cfg s ∧ (step cfg s).error = false ∧ (step cfg s).prevTime = r.time
      ∧ (step cfg s).prevHeads = r.heads ∧ (step cfg s).demand = some r.demand ∧ (step cfg s).first = false
      ∧ (step cfg s).links = r.links ∧ (step cfg s).heads = r.heads := by
  cases h : trials cfg (preResult cfg s).2 s.prevTime (acceptedHeads cfg s) (cfg.maxTrials + 2) 0 (preResult cfg s).1 (preCheck cfg s).2 with
  | error => left; exact step_of_error cfg s h
  | ok sol b a due l =>
    right
    obtain ⟨h1, h2, lasts', h3, h4⟩ := trials_ok_spec cfg _ _ _ _ _ _ _ _ _ _ _ _ h
    rw [step_of_ok cfg s sol b a due l h]
    exact ⟨⟨_, _, sol.demand, a, b, due⟩, rfl, ⟨h1, h2, sol, lasts', s.prevTime, h3, rfl, h4⟩, rfl, rfl, rfl, rfl, rfl, rfl, rfl, rfl, rfl⟩

theorem run_all_quiet (cfg : Cfg) (n : Nat) (s : St) (h : ∀ r ∈ s.rows, Quiet cfg r) :
    ∀ r ∈ (run cfg n s).rows, Quiet cfg r := by
  induction n generalizing s with
  | zero => exact h
  | succ k ih =>
    unfold run
    split
    · exact h
    · apply ih
      rcases step_rows cfg s with e | ⟨r, e, q, _⟩
      · rw [e]; exact h
      · rw [e]; intro x hx
        rcases List.mem_cons.mp hx with e' | e'
        · exact e' ▸ q
        · exact h x e'

/-! ### consecutive rows -/

/-- `r2` is the row saved right after `r1`: its heads come from `r1`'s heads by `update_tank_heads` with `r1`'s demands
over the elapsed time (whatever tentative calls happened in between) -/
def Follows (cfg : Cfg) (r2 r1 : Row) : Prop :=
  ∃ hs, r2.heads = updHeads cfg.pi cfg.tanks r1.heads hs r1.demand ((r2.time - r1.time : Int) : Rat)

/-- rows newest-first form a chain -/
def Chain (cfg : Cfg) : List Row → Prop
  | [] => True
  | [_] => True
  | r2 :: r1 :: rest => Follows cfg r2 r1 ∧ Chain cfg (r1 :: rest)

/-- state and newest row agree (`update_network_previous_values`) -/
def Synced (s : St) : Prop :=
  match s.rows with
  | [] => s.first = true
  | r :: _ => s.first = false ∧ s.prevHeads = r.heads ∧ s.prevTime = r.time ∧ s.demand = some r.demand

theorem step_chain (cfg : Cfg) (s : St) (hc : Chain cfg s.rows) (hs : Synced s) :
    Chain cfg (step cfg s).rows ∧ Synced (step cfg s) := by
  rcases step_rows cfg s with e | ⟨r, e, _, ht, hh, _, h1, h2, h3, h4, _, _⟩
  · rw [e]; exact ⟨hc, hs⟩
  · constructor
    · rw [e]
      cases hr : s.rows with
      | nil => simp [Chain]
      | cons r0 rest =>
        rw [hr] at hc
        refine ⟨?_, hc⟩
        unfold Synced at hs
        simp only [hr] at hs
        obtain ⟨hf, hp, hpt, hd⟩ := hs
        refine ⟨tentativeHeads cfg s, ?_⟩
        rw [hh, ht]
        unfold acceptedHeads
        simp [hf, hp, hpt, hd]
    · unfold Synced
      rw [e]
      exact ⟨h4, h2, h1, h3⟩

theorem run_chain (cfg : Cfg) (n : Nat) (s : St) (hc : Chain cfg s.rows) (hs : Synced s) :
    Chain cfg (run cfg n s).rows ∧ Synced (run cfg n s) := by
  induction n generalizing s with
  | zero => exact ⟨hc, hs⟩
  | succ k ih =>
    unfold run
    split
    · exact ⟨hc, hs⟩
    · obtain ⟨a, b⟩ := step_chain cfg s hc hs
      exact ih _ a b

theorem updHeads_get (pi : Rat) (ts : List Tank) (ps hs qs : List Rat) (dt : Rat) (i : Nat) (t : Tank) (p q : Rat)
    (ht : ts[i]? = some t) (hp : ps[i]? = some p) (hq : qs[i]? = some q) (hl : i < hs.length) :
    ∃ h, hs[i]? = some h ∧ (updHeads pi ts ps hs qs dt)[i]? = some (updateHead pi t p h q dt) := by
  induction ts generalizing ps hs qs i with
  | nil => simp at ht
  | cons t0 tr ih =>
    cases ps with
    | nil => simp at hp
    | cons p0 pr =>
      cases hs with
      | nil => simp at hl
      | cons h0 hr =>
        cases qs with
        | nil => simp at hq
        | cons q0 qr =>
          cases i with
          | zero =>
            simp at ht hp hq
            subst ht hp hq
            exact ⟨h0, rfl, by simp [updHeads]⟩
          | succ j =>
            simp at ht hp hq hl
            obtain ⟨h, e1, e2⟩ := ih pr hr qr j ht hp hq (by omega)
            exact ⟨h, by simpa using e1, by simpa [updHeads] using e2⟩

/-! ### `check`: what it leaves in `_last_value` and which entries are due -/

theorem check_spec (cfg : Cfg) (sel : RCtl → Bool) (heads : List Rat) (dem : Option (List Rat)) (sol : Option Sol) (pT cT : Int) :
    ∀ (ctls : List RCtl) (lasts : List Rat) (j : Nat) (rc : RCtl), ctls[j]? = some rc → sel rc = true →
      (check cfg sel heads dem sol pT cT ctls lasts).2[j]? = some (evalCond cfg heads dem sol pT cT (lasts.getD j 0) rc.cond).2.2
      ∧ ((evalCond cfg heads dem sol pT cT (lasts.getD j 0) rc.cond).1 = true →
          ⟨rc.ctl, (evalCond cfg heads dem sol pT cT (lasts.getD j 0) rc.cond).2.1⟩ ∈ (check cfg sel heads dem sol pT cT ctls lasts).1) := by
  intro ctls
  induction ctls with
  | nil => intro lasts j rc h; simp at h
  | cons c cs ih =>
    intro lasts j rc h hs
    cases j with
    | zero =>
      simp at h; subst h
      have e : lasts.headD 0 = lasts.getD 0 0 := by cases lasts <;> rfl
      simp only [check, hs, if_true, e]
      constructor
      · simp
      · intro ht
        apply List.mem_append_left
        rw [if_pos ht]
        exact List.mem_singleton.mpr rfl
    | succ n =>
      simp at h
      have e : ∀ m, lasts.tail.getD m 0 = lasts.getD (m + 1) 0 := by intro m; cases lasts <;> simp
      obtain ⟨a, b⟩ := ih lasts.tail n rc h hs
      rw [e] at a b
      unfold check
      by_cases hc : sel c = true
      · simp only [hc, if_true]
        exact ⟨by simpa using a, fun ht => List.mem_append_right _ (b ht)⟩
      · simp only [hc]
        exact ⟨by simpa using a, b⟩

theorem check_due_src (cfg : Cfg) (sel : RCtl → Bool) (heads : List Rat) (dem : Option (List Rat)) (sol : Option Sol) (pT cT : Int) :
    ∀ (ctls : List RCtl) (lasts : List Rat) (d : Due), d ∈ (check cfg sel heads dem sol pT cT ctls lasts).1 →
      ∃ rc ∈ ctls, sel rc = true ∧ d.ctl = rc.ctl := by
  intro ctls
  induction ctls with
  | nil => intro lasts d h; simp [check] at h
  | cons c cs ih =>
    intro lasts d h
    unfold check at h
    by_cases hc : sel c = true
    · simp only [hc, if_true] at h
      rcases List.mem_append.mp h with h1 | h1
      · split at h1
        · simp at h1; exact ⟨c, List.mem_cons_self, hc, by rw [h1]⟩
        · simp at h1
      · obtain ⟨rc, hr, a, b⟩ := ih _ d h1
        exact ⟨rc, List.mem_cons_of_mem _ hr, a, b⟩
    · simp only [hc] at h
      obtain ⟨rc, hr, a, b⟩ := ih _ d h
      exact ⟨rc, List.mem_cons_of_mem _ hr, a, b⟩

/-- cylinder: whatever happens, `evaluate` leaves `_last_value` at the value it was called on -/
theorem evalLevel_last_cyl (pi : Rat) (t : Tank) (hc : t.curve = none) (c : LevelCond) (h : Rat) (q : Option Rat) (last : Rat) :
    (evalLevel pi t c h q last).last = attrValue t h c.attr := by
  unfold evalLevel
  simp only [hc]
  split
  · cases q with
    | none => rfl
    | some qq => by_cases hz : (qq == 0) = true <;> simp [hz]
  · rfl

theorem trials_ok_lasts (cfg : Cfg) (t prevT : Int) (heads : List Rat) :
    ∀ (fuel trial : Nat) (ls : Links) (lasts : List Rat) (sol : Sol) (b a : Links) (due : List Ctl) (l : List Rat),
      trials cfg t prevT heads fuel trial ls lasts = .ok sol b a due l →
      ∃ lasts', l = (check cfg (·.post) heads (some sol.demand) (some sol) prevT t cfg.ctls lasts').2 := by
  intro fuel
  induction fuel with
  | zero => intro trial ls lasts sol b a due l h; simp [trials] at h
  | succ n ih =>
    intro trial ls lasts sol b a due l h
    unfold trials at h
    cases hs : cfg.solve ls t heads with
    | none => simp [hs] at h
    | some sol' =>
      simp only [hs] at h
      by_cases hc : changed cfg.tracked ls
          (runPass ((check cfg (·.post) heads (some sol'.demand) (some sol') prevT t cfg.ctls lasts).1.map (·.ctl)) ls) = true
      · simp only [hc, if_true] at h
        by_cases ht : trial + 1 > cfg.maxTrials
        · simp [ht] at h
        · simp only [ht, if_false] at h
          exact ih _ _ _ _ _ _ _ _ h
      · have hc' : changed cfg.tracked ls
            (runPass ((check cfg (·.post) heads (some sol'.demand) (some sol') prevT t cfg.ctls lasts).1.map (·.ctl)) ls) = false := by
          simpa using hc
        simp only [hc', Bool.false_eq_true, if_false] at h
        injection h with h1 h2 h3 h4 h5
        subst h1
        exact ⟨lasts, h5.symm⟩

/-- after an accepted step the `_last_value` of every pre-and-postsolve level condition on a cylindrical tank is the ACCEPTED value -/
theorem step_lasts (cfg : Cfg) (s : St) (r : Row) (hrow : (step cfg s).rows = r :: s.rows) (j i : Nat) (rc : RCtl) (c : LevelCond)
    (t : Tank) (h : Rat) (hrc : cfg.ctls[j]? = some rc) (hpost : rc.post = true) (hcond : rc.cond = .level i c)
    (ht : cfg.tanks[i]? = some t) (hcyl : t.curve = none) (hh : r.heads[i]? = some h) :
    (step cfg s).lasts[j]? = some (attrValue t h c.attr) := by
  cases htr : trials cfg (preResult cfg s).2 s.prevTime (acceptedHeads cfg s) (cfg.maxTrials + 2) 0 (preResult cfg s).1 (preCheck cfg s).2 with
  | error =>
    rw [step_of_error cfg s htr] at hrow
    simp at hrow
  | ok sol b a due l =>
    obtain ⟨lasts', hl⟩ := trials_ok_lasts cfg _ _ _ _ _ _ _ _ _ _ _ _ htr
    rw [step_of_ok cfg s sol b a due l htr] at hrow ⊢
    simp only [List.cons.injEq, and_true] at hrow
    subst hrow
    simp only at hh ⊢
    rw [hl]
    have := (check_spec cfg (·.post) (acceptedHeads cfg s) (some sol.demand) (some sol) s.prevTime (preResult cfg s).2
      cfg.ctls lasts' j rc hrc hpost).1
    rw [this, hcond]
    simp only [evalCond, ht, hh]
    rw [evalLevel_last_cyl cfg.pi t hcyl]

theorem updHeads_get_inv (pi : Rat) (ts : List Tank) (ps hs qs : List Rat) (dt : Rat) (i : Nat) (h2 : Rat)
    (h : (updHeads pi ts ps hs qs dt)[i]? = some h2) :
    ∃ t p h q, ts[i]? = some t ∧ ps[i]? = some p ∧ hs[i]? = some h ∧ qs[i]? = some q ∧ h2 = updateHead pi t p h q dt := by
  induction ts generalizing ps hs qs i with
  | nil => simp [updHeads] at h
  | cons t0 tr ih =>
    cases ps with
    | nil => simp [updHeads] at h
    | cons p0 pr =>
      cases hs with
      | nil => simp [updHeads] at h
      | cons h0 hr =>
        cases qs with
        | nil => simp [updHeads] at h
        | cons q0 qr =>
          cases i with
          | zero =>
            simp [updHeads] at h
            exact ⟨t0, p0, h0, q0, by simp, by simp, by simp, by simp, h.symm⟩
          | succ j =>
            simp [updHeads] at h
            obtain ⟨t, p, hh, q, a, b, c, d, e⟩ := ih pr hr qr j h
            exact ⟨t, p, hh, q, by simpa using a, by simpa using b, by simpa using c, by simpa using d, e⟩

end Wntr.TankRun
