/- Helper lemmas for the `MExpr` tie of C20 (Props/C20.lean): `lsum` over appended / filtered / mapped lists. -/
import WntrModel.Model.MExpr
import WntrModel.Lemmas.MetricsSum
import Mathlib.Tactic.Ring
import Mathlib.Tactic.NormNum
import Mathlib.Data.List.Sort
import Mathlib.Algebra.Order.Field.Rat
import Mathlib.Algebra.Order.AbsoluteValue.Basic

namespace Wntr.Metrics

theorem rabs_abs (x : Rat) : rabs x = |x| := by
  unfold rabs
  split_ifs with h
  · exact (abs_of_neg h).symm
  · exact (abs_of_nonneg (not_lt.mp h)).symm

theorem lsum_append (a b : List Rat) : lsum (a ++ b) = lsum a + lsum b := by
  induction a with
  | nil => simp [lsum_nil]
  | cons x t ih => rw [List.cons_append, lsum_cons, lsum_cons, ih]; ring

theorem lsum_map_add {α} (l : List α) (f g : α → Rat) :
    lsum (l.map fun x => f x + g x) = lsum (l.map f) + lsum (l.map g) := by
  induction l with
  | nil => simp [lsum_nil]
  | cons x t ih => simp only [List.map_cons, lsum_cons, ih]; ring

theorem lsum_map_sub {α} (l : List α) (f g : α → Rat) :
    lsum (l.map fun x => f x - g x) = lsum (l.map f) - lsum (l.map g) := by
  induction l with
  | nil => simp [lsum_nil]
  | cons x t ih => simp only [List.map_cons, lsum_cons, ih]; ring

theorem lsum_map_neg {α} (l : List α) (f : α → Rat) :
    lsum (l.map fun x => -f x) = -lsum (l.map f) := by
  induction l with
  | nil => simp [lsum_nil]
  | cons x t ih => simp only [List.map_cons, lsum_cons, ih]; ring

theorem lsum_map_congr {α} (l : List α) (f g : α → Rat) (h : ∀ x ∈ l, f x = g x) :
    lsum (l.map f) = lsum (l.map g) := by
  rw [List.map_congr_left h]

/-- a loop that adds a term only `if p x` is the sum over the filtered list -/
theorem lsum_map_ite_filter {α} (l : List α) (p : α → Bool) (f : α → Rat) :
    lsum (l.map fun x => if p x then f x else 0) = lsum ((l.filter p).map f) := by
  induction l with
  | nil => simp [lsum_nil]
  | cons x t ih =>
    by_cases hp : p x
    · simp only [List.map_cons, lsum_cons, ih, hp, List.filter_cons_of_pos, if_true]
    · simp only [List.map_cons, lsum_cons, ih, hp, List.filter_cons_of_neg, Bool.false_eq_true, if_false,
        not_false_eq_true]
      ring

end Wntr.Metrics

namespace Wntr.Metrics

theorem evalO_eq_some {env : Env} {row : Row} {e : MExpr} {x : Rat} (h1 : ok env row e = true)
    (h2 : eval env row e = x) : evalO env row e = some x := by
  simp [evalO, h1, h2]

/-! ### a scalar accumulated over several loops is a sum of addends whose order does not matter -/

/-- the addends of `acc = acc + x` chains -/
def addends : MExpr → List MExpr
  | .add a b => addends a ++ addends b
  | e => [e]

/-- canonical position of a loop: by the index set it runs over (anything else first) -/
def loopKey : MExpr → Nat
  | .sum .tanks _ => 1
  | .sum .pipes _ => 2
  | .sum .headPumps _ => 3
  | .sum .powerPumps _ => 4
  | .sum .valves _ => 5
  | .sum .junctions _ => 6
  | .sum .reservoirs _ => 7
  | .sum .pumps _ => 8
  | _ => 0

def loopLe (a b : MExpr) : Prop := loopKey a ≤ loopKey b
instance : DecidableRel loopLe := fun a b => inferInstanceAs (Decidable (loopKey a ≤ loopKey b))

/-- the addends in canonical order, whatever order the loops have in the source -/
def sortedAddends (e : MExpr) : List MExpr := (addends e).insertionSort loopLe

theorem lsum_perm {l1 l2 : List Rat} (h : l1.Perm l2) : lsum l1 = lsum l2 := by
  induction h with
  | nil => rfl
  | cons x _ ih => simp [lsum_cons, ih]
  | swap x y l => simp only [lsum_cons]; ring
  | trans _ _ ih1 ih2 => exact ih1.trans ih2

theorem eval_addends (env : Env) (row : Row) (e : MExpr) :
    eval env row e = lsum ((addends e).map (eval env row)) := by
  induction e with
  | add a b iha ihb => simp only [addends, List.map_append, lsum_append, eval, ← iha, ← ihb]
  | _ => simp [addends, lsum_cons, lsum_nil]

theorem ok_addends (env : Env) (row : Row) (e : MExpr) :
    ok env row e = (addends e).all (ok env row) := by
  induction e with
  | add a b iha ihb => simp only [addends, List.all_append, ok, ← iha, ← ihb]
  | _ => simp [addends]

theorem eval_sortedAddends (env : Env) (row : Row) (e : MExpr) :
    eval env row e = lsum ((sortedAddends e).map (eval env row)) := by
  rw [eval_addends]
  exact lsum_perm ((List.perm_insertionSort loopLe (addends e)).map _).symm

theorem ok_sortedAddends (env : Env) (row : Row) (e : MExpr) :
    ok env row e = (sortedAddends e).all (ok env row) := by
  rw [ok_addends]
  exact ((List.perm_insertionSort loopLe (addends e)).all_eq).symm

open Lean.Parser.Tactic in
/-- unfold the evaluator on a generated term and the documented formula (sums distributed over `+`, `-`, unary minus),
split the remaining zero-denominator / `raise` case distinctions and close what is left by ring normalisation -/
macro "mexpr_tie" "[" ts:simpLemma,* "]" : tactic =>
  `(tactic| (simp [Bool.cond_eq_ite, evalO, ok, eval, evalC, Function.comp_def, divz, lsum_map_sub, lsum_map_add,
        lsum_map_neg, rabs_abs, abs_sub_comm, $ts,*] <;>
      (try split_ifs) <;>
      (try first
        | done
        | (simp_all; done)
        | (congr 1; ring)
        | ring
        | (norm_num; done)
        | (exfalso; ring_nf at *; simp_all; done))))
end Wntr.Metrics
