/- Helper lemmas for the `MExpr` tie of C20 (Props/C20.lean): `lsum` over appended / filtered / mapped lists. -/
import WntrModel.Model.MExpr
import WntrModel.Lemmas.MetricsSum
import Mathlib.Tactic.Ring
import Mathlib.Tactic.NormNum

namespace Wntr.Metrics

theorem lsum_append (a b : List Rat) : lsum (a ++ b) = lsum a + lsum b := by
  induction a with
  | nil => simp [lsum_nil]
  | cons x t ih => rw [List.cons_append, lsum_cons, lsum_cons, ih]; ring

theorem lsum_map_add {α} (l : List α) (f g : α → Rat) :
    lsum (l.map fun x => f x + g x) = lsum (l.map f) + lsum (l.map g) := by
  induction l with
  | nil => simp [lsum_nil]
  | cons x t ih => simp only [List.map_cons, lsum_cons, ih]; ring

theorem lsum_map_sub {α} (l : List α) (f g : α → Rat) :
    lsum (l.map fun x => f x - g x) = lsum (l.map f) - lsum (l.map g) := by
  induction l with
  | nil => simp [lsum_nil]
  | cons x t ih => simp only [List.map_cons, lsum_cons, ih]; ring

theorem lsum_map_neg {α} (l : List α) (f : α → Rat) :
    lsum (l.map fun x => -f x) = -lsum (l.map f) := by
  induction l with
  | nil => simp [lsum_nil]
  | cons x t ih => simp only [List.map_cons, lsum_cons, ih]; ring

theorem lsum_map_congr {α} (l : List α) (f g : α → Rat) (h : ∀ x ∈ l, f x = g x) :
    lsum (l.map f) = lsum (l.map g) := by
  rw [List.map_congr_left h]

/-- a loop that adds a term only `if p x` is the sum over the filtered list -/
theorem lsum_map_ite_filter {α} (l : List α) (p : α → Bool) (f : α → Rat) :
    lsum (l.map fun x => if p x then f x else 0) = lsum ((l.filter p).map f) := by
  induction l with
  | nil => simp [lsum_nil]
  | cons x t ih =>
    by_cases hp : p x
    · simp only [List.map_cons, lsum_cons, ih, hp, List.filter_cons_of_pos, if_true]
    · simp only [List.map_cons, lsum_cons, ih, hp, List.filter_cons_of_neg, Bool.false_eq_true, if_false,
        not_false_eq_true]
      ring

end Wntr.Metrics

namespace Wntr.Metrics

theorem evalO_eq_some {env : Env} {row : Row} {e : MExpr} {x : Rat} (h1 : ok env row e = true)
    (h2 : eval env row e = x) : evalO env row e = some x := by
  simp [evalO, h1, h2]

open Lean.Parser.Tactic in
/-- unfold the evaluator on a generated term and the documented formula (sums distributed over `+`, `-`, unary minus),
split the remaining zero-denominator / `raise` case distinctions and close what is left by ring normalisation -/
macro "mexpr_tie" "[" ts:simpLemma,* "]" : tactic =>
  `(tactic| (simp [Bool.cond_eq_ite, evalO, ok, eval, evalC, Function.comp_def, divz, lsum_map_sub, lsum_map_add,
        lsum_map_neg, $ts,*] <;>
      (try split_ifs) <;>
      (try first
        | done
        | (simp_all; done)
        | (congr 1; ring)
        | ring
        | (norm_num; done)
        | (exfalso; ring_nf at *; simp_all; done))))
end Wntr.Metrics
