/-
Lemmas for C09: the COO → CSR construction `_initialize_internal_graph` relies on (scipy's `csr_matrix((vals, (rows, cols)), shape)`:
rows sorted by column, duplicate (row, col) entries merged, `indptr` = prefix counts), modelled by `buildCsr`, meets the structure
part of the static contract `StaticP` for EVERY network without self-loops -- so the bookkeeping theorems need no hypothesis about
scipy; that `buildCsr` is what scipy builds is checked on every generated case (indptr / indices / data compared).
-/
import WntrModel.Lemmas.IsolationSim
set_option linter.unusedSimpArgs false
namespace Wntr.Isolation

/-! ### sorted duplicate-free rows -/

theorem mem_insertUniq (x y : Nat) (l : List Nat) : y ∈ insertUniq x l ↔ y = x ∨ y ∈ l := by
  induction l with
  | nil => simp [insertUniq]
  | cons a l ih =>
    unfold insertUniq
    by_cases h1 : x < a
    · simp [h1]
    · by_cases h2 : x = a
      · subst h2; simp
      · simp only [h1, h2, if_false, List.mem_cons, ih]
        constructor
        · rintro (h | h | h)
          · right; left; exact h
          · left; exact h
          · right; right; exact h
        · rintro (h | h | h)
          · right; left; exact h
          · left; exact h
          · right; right; exact h

theorem insertUniq_sorted (x : Nat) (l : List Nat) (h : l.Pairwise (· < ·)) : (insertUniq x l).Pairwise (· < ·) := by
  induction l with
  | nil => simp [insertUniq]
  | cons a l ih =>
    unfold insertUniq
    obtain ⟨ha, hl⟩ := List.pairwise_cons.mp h
    by_cases h1 : x < a
    · simp only [h1, if_true]
      refine List.pairwise_cons.mpr ⟨?_, h⟩
      intro b hb
      rcases List.mem_cons.mp hb with e | e
      · rw [e]; exact h1
      · exact Nat.lt_trans h1 (ha b e)
    · by_cases h2 : x = a
      · subst h2; simp only [Nat.lt_irrefl, if_false, if_true]; exact h
      · simp only [h1, h2, if_false]
        refine List.pairwise_cons.mpr ⟨?_, ih hl⟩
        intro b hb
        rcases (mem_insertUniq x b l).mp hb with e | e
        · rw [e]; omega
        · exact ha b e

theorem rowCols_spec (entries : List (Nat × Nat)) (u : Nat) :
    (∀ c, c ∈ rowCols entries u ↔ (u, c) ∈ entries) ∧ (rowCols entries u).Pairwise (· < ·) := by
  unfold rowCols
  have gen : ∀ (es : List (Nat × Nat)) (acc : List Nat), acc.Pairwise (· < ·) →
      (∀ c, c ∈ es.foldl (fun acc e => insertUniq e.2 acc) acc ↔ c ∈ acc ∨ ∃ e ∈ es, e.2 = c) ∧
      (es.foldl (fun acc e => insertUniq e.2 acc) acc).Pairwise (· < ·) := by
    intro es
    induction es with
    | nil => intro acc h; exact ⟨fun c => by simp, h⟩
    | cons e es ih =>
      intro acc h
      rw [List.foldl_cons]
      obtain ⟨a, b⟩ := ih (insertUniq e.2 acc) (insertUniq_sorted _ _ h)
      refine ⟨?_, b⟩
      intro c
      rw [a c, mem_insertUniq]
      constructor
      · rintro ((h1 | h1) | ⟨e', he', h2⟩)
        · right; exact ⟨e, List.mem_cons_self, h1.symm⟩
        · left; exact h1
        · right; exact ⟨e', List.mem_cons_of_mem _ he', h2⟩
      · rintro (h1 | ⟨e', he', h2⟩)
        · left; right; exact h1
        · rcases List.mem_cons.mp he' with h3 | h3
          · left; left; rw [← h2, h3]
          · right; exact ⟨e', h3, h2⟩
  obtain ⟨a, b⟩ := gen (entries.filter (fun e => e.1 == u)) [] List.Pairwise.nil
  refine ⟨?_, b⟩
  intro c
  rw [a c]
  constructor
  · rintro (h | ⟨e, he, h2⟩)
    · cases h
    · obtain ⟨h3, h4⟩ := List.mem_filter.mp he
      have : e = (u, c) := by
        have h5 : e.1 = u := by simpa using h4
        cases e; simp only at h5 h2; rw [h5, h2]
      rw [← this]; exact h3
  · intro h
    right
    exact ⟨(u, c), List.mem_filter.mpr ⟨h, by simp⟩, rfl⟩


/-! ### flattening rows: `indptr` as prefix counts -/

/-- number of entries before row `u` -/
def off (L : List (List Nat)) (u : Nat) : Nat := ((L.take u).map List.length).sum

theorem prefixSums_getD (l : List Nat) (acc u : Nat) (hu : u ≤ l.length) :
    (prefixSums acc l).getD u 0 = acc + (l.take u).sum := by
  induction l generalizing acc u with
  | nil =>
    have : u = 0 := by simpa using hu
    subst this; simp [prefixSums]
  | cons a l ih =>
    cases u with
    | zero => simp [prefixSums]
    | succ u =>
      unfold prefixSums
      rw [List.getD_cons_succ, ih (acc + a) u (by simpa using hu)]
      simp only [List.take_succ_cons, List.sum_cons]
      omega

theorem off_succ (L : List (List Nat)) (u : Nat) (hu : u < L.length) : off L (u + 1) = off L u + (L.getD u []).length := by
  unfold off
  induction L generalizing u with
  | nil => cases hu
  | cons a L ih =>
    cases u with
    | zero => simp
    | succ u =>
      have := ih u (by simpa using hu)
      simp only [List.take_succ_cons, List.map_cons, List.sum_cons, List.getD_cons_succ] at this ⊢
      omega

theorem off_mono (L : List (List Nat)) {u v : Nat} (huv : u ≤ v) (hv : v ≤ L.length) : off L u ≤ off L v := by
  induction v with
  | zero => have : u = 0 := by omega
            subst this; exact Nat.le_refl _
  | succ v ih =>
    by_cases e : u = v + 1
    · subst e; exact Nat.le_refl _
    · have := ih (by omega) (by omega)
      rw [off_succ L v (by omega)]
      omega

theorem off_length (L : List (List Nat)) : off L L.length = L.flatten.length := by
  unfold off
  rw [List.take_length, List.length_flatten]

theorem flatten_getD (L : List (List Nat)) (u i : Nat) (hu : u < L.length) (hi : i < (L.getD u []).length) :
    L.flatten.getD (off L u + i) 0 = (L.getD u []).getD i 0 := by
  unfold off
  induction L generalizing u with
  | nil => cases hu
  | cons a L ih =>
    cases u with
    | zero =>
      simp only [List.take_zero, List.map_nil, List.sum_nil, Nat.zero_add, List.flatten_cons, List.getD_cons_zero] at hi ⊢
      simp only [List.getD_eq_getElem?_getD, List.getElem?_append_left hi]
    | succ u =>
      have := ih u (by simpa using hu) (by simpa using hi)
      simp only [List.take_succ_cons, List.map_cons, List.sum_cons, List.flatten_cons, List.getD_cons_succ] at this ⊢
      rw [← this]
      simp only [List.getD_eq_getElem?_getD]
      rw [List.getElem?_append_right (by omega)]
      congr 2
      omega

/-- a position determines its row -/
theorem off_inj (L : List (List Nat)) {u u' i i' : Nat} (hu : u < L.length) (hu' : u' < L.length)
    (hi : i < (L.getD u []).length) (hi' : i' < (L.getD u' []).length) (h : off L u + i = off L u' + i') : u = u' ∧ i = i' := by
  have key : ∀ {a b j j' : Nat}, a < b → b < L.length → j < (L.getD a []).length → off L a + j = off L b + j' → False := by
    intro a b j j' hab hb hj he
    have h1 := off_succ L a (by omega)
    have h2 := off_mono L (show a + 1 ≤ b by omega) (by omega)
    omega
  by_cases e : u = u'
  · subst e; exact ⟨rfl, by omega⟩
  · exfalso
    rcases Nat.lt_or_gt_of_ne e with h' | h'
    · exact key h' hu' hi h
    · exact key h' hu hi' h.symm


/-! ### the structure `_initialize_internal_graph` gets from the COO → CSR construction -/

def entriesOf (net : Net) : List (Nat × Nat) :=
  net.initOrder.flatMap fun k => [(net.linkEnds k), ((net.linkEnds k).2, (net.linkEnds k).1)]

def rowsOf (net : Net) : List (List Nat) := (List.range net.n).map (rowCols (entriesOf net))

theorem rowsOf_length (net : Net) : (rowsOf net).length = net.n := by unfold rowsOf; simp

theorem rowsOf_getD (net : Net) (u : Nat) (hu : u < net.n) : (rowsOf net).getD u [] = rowCols (entriesOf net) u := by
  unfold rowsOf
  simp [List.getD_eq_getElem?_getD, hu]

theorem g0_indices (net : Net) : (initG0 net).indices = (rowsOf net).flatten := rfl

theorem g0_indptr (net : Net) (u : Nat) (hu : u ≤ net.n) : (initG0 net).indptr.getD u 0 = off (rowsOf net) u := by
  show (prefixSums 0 ((rowsOf net).map List.length)).getD u 0 = _
  rw [prefixSums_getD _ _ _ (by rw [List.length_map, rowsOf_length]; exact hu), Nat.zero_add]
  unfold off
  rw [List.map_take]

theorem mem_entriesOf (net : Net) (x y : Nat) :
    (x, y) ∈ entriesOf net ↔ ∃ k ∈ net.initOrder, net.linkEnds k = (x, y) ∨ net.linkEnds k = (y, x) := by
  unfold entriesOf
  simp only [List.mem_flatMap, List.mem_cons, List.mem_nil_iff, or_false]
  constructor
  · rintro ⟨k, hk, h | h⟩
    · exact ⟨k, hk, Or.inl h.symm⟩
    · refine ⟨k, hk, Or.inr ?_⟩
      have h1 : x = (net.linkEnds k).2 := congrArg Prod.fst h
      have h2 : y = (net.linkEnds k).1 := congrArg Prod.snd h
      rw [h1, h2]
  · rintro ⟨k, hk, h | h⟩
    · exact ⟨k, hk, Or.inl h.symm⟩
    · exact ⟨k, hk, Or.inr (by rw [h])⟩

theorem getD_of_mem (l : List Nat) (y : Nat) (h : y ∈ l) : ∃ i, i < l.length ∧ l.getD i 0 = y := by
  obtain ⟨i, hi, e⟩ := List.mem_iff_getElem.mp h
  exact ⟨i, hi, by simp [List.getD_eq_getElem?_getD, List.getElem?_eq_getElem hi, e]⟩

/-- `_get_csr_data_index` finds the entry of an existing (row, col): inside the row, holding that column -/
theorem getCsr_spec (net : Net) (x y : Nat) (hx : x < net.n) (hm : (x, y) ∈ entriesOf net) :
    ∃ i, i < (rowCols (entriesOf net) x).length ∧ (rowCols (entriesOf net) x).getD i 0 = y ∧
      getCsrDataIndex (initG0 net) x y = some (off (rowsOf net) x + i) := by
  have hrow := rowsOf_getD net x hx
  have hlen : (initG0 net).indptr.getD (x + 1) 0 - (initG0 net).indptr.getD x 0 = (rowCols (entriesOf net) x).length := by
    rw [g0_indptr net (x + 1) (by omega), g0_indptr net x (by omega), off_succ _ _ (by rw [rowsOf_length]; exact hx), hrow]
    omega
  have hget : ∀ i, i < (rowCols (entriesOf net) x).length →
      (initG0 net).indices.getD ((initG0 net).indptr.getD x 0 + i) 0 = (rowCols (entriesOf net) x).getD i 0 := by
    intro i hi
    rw [g0_indices, g0_indptr net x (by omega), flatten_getD _ _ _ (by rw [rowsOf_length]; exact hx) (by rw [hrow]; exact hi), hrow]
  obtain ⟨j, hj, hjy⟩ := getD_of_mem _ y (((rowCols_spec (entriesOf net) x).1 y).mpr hm)
  unfold getCsrDataIndex
  simp only [hlen]
  cases hf : (List.range (rowCols (entriesOf net) x).length).find?
      (fun i => (initG0 net).indices.getD ((initG0 net).indptr.getD x 0 + i) 0 == y) with
  | none =>
    exfalso
    have := List.find?_eq_none.mp hf j (List.mem_range.mpr hj)
    rw [hget j hj, hjy] at this
    simp at this
  | some i0 =>
    have hp := List.find?_some hf
    have hi0 : i0 < (rowCols (entriesOf net) x).length := List.mem_range.mp (List.mem_of_find?_eq_some hf)
    rw [hget i0 hi0] at hp
    refine ⟨i0, hi0, by simpa using hp, ?_⟩
    simp only [Option.map_some, g0_indptr net x (by omega)]


/-- where the two data positions of link `k` are -/
theorem pos_facts (net : Net) (user internal : List Nat) (hends : endsOk net) (hperm : net.initOrder.Perm (List.range net.nl))
    (k : Nat) (hk : k < net.nl) :
    ∃ i1 i2, i1 < (rowCols (entriesOf net) (net.linkEnds k).1).length ∧
      (rowCols (entriesOf net) (net.linkEnds k).1).getD i1 0 = (net.linkEnds k).2 ∧
      getCsrDataIndex (initG0 net) (net.linkEnds k).1 (net.linkEnds k).2 = some (off (rowsOf net) (net.linkEnds k).1 + i1) ∧
      pos1 (initGraph net user internal).2.ndx k = off (rowsOf net) (net.linkEnds k).1 + i1 ∧
      i2 < (rowCols (entriesOf net) (net.linkEnds k).2).length ∧
      (rowCols (entriesOf net) (net.linkEnds k).2).getD i2 0 = (net.linkEnds k).1 ∧
      getCsrDataIndex (initG0 net) (net.linkEnds k).2 (net.linkEnds k).1 = some (off (rowsOf net) (net.linkEnds k).2 + i2) ∧
      pos2 (initGraph net user internal).2.ndx k = off (rowsOf net) (net.linkEnds k).2 + i2 := by
  obtain ⟨ha, hb, _⟩ := hends.1 k hk
  have hin : k ∈ net.initOrder := hperm.mem_iff.mpr (List.mem_range.mpr hk)
  obtain ⟨i1, a1, a2, a3⟩ := getCsr_spec net (net.linkEnds k).1 (net.linkEnds k).2 ha ((mem_entriesOf net _ _).mpr ⟨k, hin, Or.inl rfl⟩)
  obtain ⟨i2, b1, b2, b3⟩ := getCsr_spec net (net.linkEnds k).2 (net.linkEnds k).1 hb ((mem_entriesOf net _ _).mpr ⟨k, hin, Or.inr rfl⟩)
  obtain ⟨_, _, _, _, _, _, _, _, _, _, fndx, _, _⟩ := init_fields net user internal
  have hk' : k < net.links.length := hk
  refine ⟨i1, i2, a1, a2, a3, ?_, b1, b2, b3, ?_⟩
  · unfold pos1
    rw [fndx, getD_map_lt _ net.links k hk' (0, 0) (0, 0)]
    show (getCsrDataIndex (initG0 net) (net.linkEnds k).1 (net.linkEnds k).2).getD 0 = _
    rw [a3]; rfl
  · unfold pos2
    rw [fndx, getD_map_lt _ net.links k hk' (0, 0) (0, 0)]
    show (getCsrDataIndex (initG0 net) (net.linkEnds k).2 (net.linkEnds k).1).getD 0 = _
    rw [b3]; rfl

theorem nconn_getD (net : Net) (user internal : List Nat) (u : Nat) (hu : u < net.n) :
    (initGraph net user internal).2.g.nconn.getD u 0 = (rowCols (entriesOf net) u).length := by
  show ((List.range net.n).map fun u => (initG0 net).indptr.getD (u + 1) 0 - (initG0 net).indptr.getD u 0).getD u 0 = _
  rw [getD_map_range _ _ u hu, g0_indptr net (u + 1) (by omega), g0_indptr net u (by omega),
    off_succ _ _ (by rw [rowsOf_length]; exact hu), rowsOf_getD net u hu]
  omega

/-- **the COO → CSR construction meets the structure contract**, for every network without self-loops whose links are each listed
once in pipes ++ pumps ++ valves: `_initialize_internal_graph` succeeds, every link has its two entries inside the rows the
C++ loop scans, links of one node pair share them, links of different pairs share none, and no row holds a spurious entry. -/
theorem csr_structure (net : Net) (user internal : List Nat) (hends : endsOk net)
    (hperm : net.initOrder.Perm (List.range net.nl)) :
    let s0 := (initGraph net user internal).2
    (initGraph net user internal).1 = Outcome.ok ∧ boundOk net s0.ndx s0.g.indices.length ∧ posOk net s0.ndx ∧
    rowsIn net s0.ndx s0.g.indptr s0.g.indices s0.g.nconn ∧ rowsOut net s0.ndx s0.g.indptr s0.g.indices s0.g.nconn := by
  intro s0
  have hL := rowsOf_length net
  have PF := pos_facts net user internal hends hperm
  have hindices : s0.g.indices = (rowsOf net).flatten := rfl
  have hindptr : s0.g.indptr = (initG0 net).indptr := rfl
  -- a valid (row, offset) lies inside the flattened array and holds the row's column
  have inside : ∀ u i, u < net.n → i < (rowCols (entriesOf net) u).length →
      off (rowsOf net) u + i < (rowsOf net).flatten.length ∧
      (rowsOf net).flatten.getD (off (rowsOf net) u + i) 0 = (rowCols (entriesOf net) u).getD i 0 := by
    intro u i hu hi
    have h1 := off_succ (rowsOf net) u (by rw [hL]; exact hu)
    have h2 := off_mono (rowsOf net) (show u + 1 ≤ (rowsOf net).length by rw [hL]; omega) (Nat.le_refl _)
    rw [off_length] at h2
    rw [rowsOf_getD net u hu] at h1
    refine ⟨by omega, ?_⟩
    rw [flatten_getD _ _ _ (by rw [hL]; exact hu) (by rw [rowsOf_getD net u hu]; exact hi), rowsOf_getD net u hu]
  -- a position determines (row, column)
  have posinj : ∀ u u' i i', u < net.n → u' < net.n → i < (rowCols (entriesOf net) u).length →
      i' < (rowCols (entriesOf net) u').length → off (rowsOf net) u + i = off (rowsOf net) u' + i' → u = u' ∧ i = i' := by
    intro u u' i i' hu hu' hi hi' h
    exact off_inj (rowsOf net) (by rw [hL]; exact hu) (by rw [hL]; exact hu') (by rw [rowsOf_getD net u hu]; exact hi)
      (by rw [rowsOf_getD net u' hu']; exact hi') h
  refine ⟨?_, ?_, ?_, ?_, ?_⟩
  · -- outcome
    show (if _ then Outcome.ok else Outcome.runtimeError) = Outcome.ok
    rw [if_pos]
    rw [List.all_eq_true]
    intro p hp
    obtain ⟨e, he, rfl⟩ := List.mem_map.mp hp
    obtain ⟨k, hk, hke⟩ := List.mem_iff_getElem.mp he
    have hk' : k < net.nl := hk
    obtain ⟨i1, i2, _, _, a3, _, _, _, b3, _⟩ := PF k hk'
    have : net.linkEnds k = e := by
      unfold Net.linkEnds
      simp [List.getD_eq_getElem?_getD, List.getElem?_eq_getElem hk, hke]
    rw [this] at a3 b3
    simp only
    show ((getCsrDataIndex (initG0 net) e.1 e.2).isSome && (getCsrDataIndex (initG0 net) e.2 e.1).isSome) = true
    rw [a3, b3]; rfl
  · intro k hk
    obtain ⟨ha, hb, _⟩ := hends.1 k hk
    obtain ⟨i1, i2, a1, _, _, a4, b1, _, _, b4⟩ := PF k hk
    rw [a4, b4, hindices]
    exact ⟨(inside _ _ ha a1).1, (inside _ _ hb b1).1⟩
  · intro k hk k' hk'
    obtain ⟨ha, hb, _⟩ := hends.1 k hk
    obtain ⟨ha', hb', _⟩ := hends.1 k' hk'
    obtain ⟨i1, i2, a1, a2, a3, a4, b1, b2, b3, b4⟩ := PF k hk
    obtain ⟨j1, j2, c1, c2, c3, c4, d1, d2, d3, d4⟩ := PF k' hk'
    constructor
    · intro hsp
      unfold inPs
      rcases hsp with h | h
      · -- same orientation: same lookups
        have e1 : pos1 s0.ndx k = pos1 s0.ndx k' := by
          apply Option.some.inj; rw [a4, c4, ← a3, ← c3, h]
        have e2 : pos2 s0.ndx k = pos2 s0.ndx k' := by
          apply Option.some.inj; rw [b4, d4, ← b3, ← d3, h]
        exact ⟨Or.inl e1.symm, Or.inr e2.symm, Or.inl e1, Or.inr e2⟩
      · have h1 : (net.linkEnds k).1 = (net.linkEnds k').2 := congrArg Prod.fst h
        have h2 : (net.linkEnds k).2 = (net.linkEnds k').1 := congrArg Prod.snd h
        have e1 : pos1 s0.ndx k = pos2 s0.ndx k' := by
          apply Option.some.inj; rw [a4, d4, ← a3, ← d3, h1, h2]
        have e2 : pos2 s0.ndx k = pos1 s0.ndx k' := by
          apply Option.some.inj; rw [b4, c4, ← b3, ← c3, h1, h2]
        exact ⟨Or.inr e2.symm, Or.inl e1.symm, Or.inr e1, Or.inl e2⟩
    · intro hnsp
      -- equal positions force equal (row, column)
      have col : ∀ u u' i i' y y', u < net.n → u' < net.n → i < (rowCols (entriesOf net) u).length →
          i' < (rowCols (entriesOf net) u').length → (rowCols (entriesOf net) u).getD i 0 = y →
          (rowCols (entriesOf net) u').getD i' 0 = y' → off (rowsOf net) u + i = off (rowsOf net) u' + i' → u = u' ∧ y = y' := by
        intro u u' i i' y y' hu hu' hi hi' hy hy' h
        obtain ⟨e1, e2⟩ := posinj u u' i i' hu hu' hi hi' h
        subst e1; subst e2
        exact ⟨rfl, by rw [← hy, ← hy']⟩
      unfold inPs
      refine ⟨?_, ?_⟩
      · rintro (h | h)
        · rw [a4, c4] at h
          obtain ⟨e1, e2⟩ := col _ _ _ _ _ _ ha' ha c1 a1 c2 a2 h
          exact hnsp (Or.inl (Prod.ext e1.symm e2.symm))
        · rw [b4, c4] at h
          obtain ⟨e1, e2⟩ := col _ _ _ _ _ _ ha' hb c1 b1 c2 b2 h
          exact hnsp (Or.inr (Prod.ext e2.symm e1.symm))
      · rintro (h | h)
        · rw [a4, d4] at h
          obtain ⟨e1, e2⟩ := col _ _ _ _ _ _ hb' ha d1 a1 d2 a2 h
          exact hnsp (Or.inr (Prod.ext e1.symm e2.symm))
        · rw [b4, d4] at h
          obtain ⟨e1, e2⟩ := col _ _ _ _ _ _ hb' hb d1 b1 d2 b2 h
          exact hnsp (Or.inl (Prod.ext e2.symm e1.symm))
  · intro k hk
    obtain ⟨ha, hb, _⟩ := hends.1 k hk
    obtain ⟨i1, i2, a1, a2, _, a4, b1, b2, _, b4⟩ := PF k hk
    refine ⟨⟨i1, ?_, ?_, ?_⟩, ⟨i2, ?_, ?_, ?_⟩⟩
    · rw [nconn_getD net user internal _ ha]; exact a1
    · rw [hindptr, g0_indptr net _ (by omega), a4]
    · rw [a4, hindices, (inside _ _ ha a1).2, a2]
    · rw [nconn_getD net user internal _ hb]; exact b1
    · rw [hindptr, g0_indptr net _ (by omega), b4]
    · rw [b4, hindices, (inside _ _ hb b1).2, b2]
  · intro u hu i hi
    have hun : u < net.n := by
      have : s0.g.nconn.length = net.n := by
        show ((List.range net.n).map _).length = _
        simp
      omega
    rw [nconn_getD net user internal u hun] at hi
    have hpos : s0.g.indptr.getD u 0 + i = off (rowsOf net) u + i := by rw [hindptr, g0_indptr net u (by omega)]
    rw [hpos, hindices, (inside u i hun hi).2]
    -- the column at offset i of row u comes from some link
    have hcm : (rowCols (entriesOf net) u).getD i 0 ∈ rowCols (entriesOf net) u := getD_mem_lt _ i hi 0
    obtain ⟨k, hkin, hke⟩ := (mem_entriesOf net u _).mp (((rowCols_spec (entriesOf net) u).1 _).mp hcm)
    have hk : k < net.nl := List.mem_range.mp (hperm.mem_iff.mp hkin)
    obtain ⟨ha, hb, _⟩ := hends.1 k hk
    obtain ⟨i1, i2, a1, a2, _, a4, b1, b2, _, b4⟩ := PF k hk
    have nodup : ∀ j j', j < (rowCols (entriesOf net) u).length → j' < (rowCols (entriesOf net) u).length →
        (rowCols (entriesOf net) u).getD j 0 = (rowCols (entriesOf net) u).getD j' 0 → j = j' := by
      intro j j' hj hj' he
      have hs := (rowCols_spec (entriesOf net) u).2
      simp only [List.getD_eq_getElem?_getD, List.getElem?_eq_getElem hj, List.getElem?_eq_getElem hj', Option.getD_some] at he
      rcases Nat.lt_trichotomy j j' with h | h | h
      · have := List.pairwise_iff_getElem.mp hs j j' hj hj' h; omega
      · exact h
      · have := List.pairwise_iff_getElem.mp hs j' j hj' hj h; omega
    refine ⟨k, hk, ?_⟩
    rcases hke with h | h
    · left
      refine ⟨h, ?_⟩
      have e1 : (net.linkEnds k).1 = u := congrArg Prod.fst h
      have e2 : (net.linkEnds k).2 = (rowCols (entriesOf net) u).getD i 0 := congrArg Prod.snd h
      rw [a4, e1]
      rw [e1] at a1 a2
      rw [nodup i1 i a1 hi (a2.trans e2)]
    · right
      refine ⟨h, ?_⟩
      have e1 : (net.linkEnds k).1 = (rowCols (entriesOf net) u).getD i 0 := congrArg Prod.fst h
      have e2 : (net.linkEnds k).2 = u := congrArg Prod.snd h
      rw [b4, e2]
      rw [e2] at b1 b2
      rw [nodup i2 i b1 hi (b2.trans e1)]

end Wntr.Isolation
