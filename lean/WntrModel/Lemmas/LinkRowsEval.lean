/-
What each parametric link row of `Model/LinkRows.lean` evaluates to over ℝ (for every leaf, constant and environment),
and the cubic-spline interpolation lemma for `LinkRows.cubicSpline`.
-/
import WntrModel.Lemmas.LinkRowsReal

set_option linter.unusedSimpArgs false
set_option linter.unusedVariables false

namespace Wntr.LinkRows
open Wntr.Aml Wntr.Rows

section rows
variable (env : Env ℝ)

local notation "𝔼[" e "]" => eval realOps env e

/-- default Hazen-Williams row -/
theorem hwApproxRow_eval (hw : HWConsts) (lit : RowLits) (L : Leaves) :
    𝔼[hwApproxRow hw lit L] =
      -(sgn 𝔼[L.f]) * 𝔼[L.k] * |𝔼[L.f]| ^ (hw.hwExp : ℝ) - (lit.eps : ℝ) * 𝔼[L.k] ^ (lit.half : ℝ) * 𝔼[L.f]
        - sgn 𝔼[L.f] * 𝔼[L.mkl] * 𝔼[L.f] ^ (hw.minorExp : ℝ) + 𝔼[L.hs] - 𝔼[L.he] := by
  simp only [hwApproxRow, val_con, val_add, val_sub, val_mul, val_powC, val_negE, val_ex, val_num, eval_sign, eval_abs]

/-- piecewise Hazen-Williams row: three pieces in `|f|` -/
theorem hwPiecewiseRow_eval (hw : HWConsts) (L : Leaves) :
    𝔼[hwPiecewiseRow hw L] =
      (if |𝔼[L.f]| ≤ (hw.q1 : ℝ) then -𝔼[L.k] * (hw.m : ℝ) * 𝔼[L.f]
       else if |𝔼[L.f]| ≤ (hw.q2 : ℝ) then
         -𝔼[L.k] * ((hw.a : ℝ) * 𝔼[L.f] ^ ((3 : ℚ) : ℝ) + sgn 𝔼[L.f] * (hw.b : ℝ) * 𝔼[L.f] ^ ((2 : ℚ) : ℝ) + (hw.c : ℝ) * 𝔼[L.f]
            + sgn 𝔼[L.f] * (hw.d : ℝ))
       else -(sgn 𝔼[L.f]) * 𝔼[L.k] * |𝔼[L.f]| ^ (hw.hwExp : ℝ))
      - sgn 𝔼[L.f] * 𝔼[L.mkl] * 𝔼[L.f] ^ (hw.minorExp : ℝ) + 𝔼[L.hs] - 𝔼[L.he] := by
  simp only [hwPiecewiseRow, minorTerm, condExpr, eval_ifElse_ub, val_con, val_add, val_sub, val_mul, val_powC, val_negE,
    val_ex, val_num, eval_sign, eval_abs]
  split_ifs <;> ring

/-- head pump, `C ≤ 1`: line for `f ≤ q1`, cubic on `(q1, q2]`, the curve above -/
theorem headPumpRow_eval_le (pc : PumpConsts) (P : PumpCoef) (L : Leaves) (hC : P.C ≤ 1) :
    𝔼[headPumpRow pc P L] =
      (if 𝔼[L.f] ≤ (pc.q1 : ℝ) then (pc.slope : ℝ) * 𝔼[L.f] + (P.A : ℝ)
       else if 𝔼[L.f] ≤ (pc.q2 : ℝ) then
         (P.a : ℝ) * 𝔼[L.f] ^ ((3 : ℚ) : ℝ) + (P.b : ℝ) * 𝔼[L.f] ^ ((2 : ℚ) : ℝ) + (P.c : ℝ) * 𝔼[L.f] + (P.d : ℝ)
       else (P.A : ℝ) - (P.B : ℝ) * 𝔼[L.f] ^ (P.C : ℝ)) - 𝔼[L.he] + 𝔼[L.hs] := by
  simp only [headPumpRow, hC, if_true, pumpCurveExpr, condExpr, eval_ifElse_ub, val_con, val_add, val_sub, val_mul, val_powC,
    val_ex, val_num]
  split_ifs <;> ring

/-- head pump, `C > 1`: line for `f ≤ q̄`, the curve above -/
theorem headPumpRow_eval_gt (pc : PumpConsts) (P : PumpCoef) (L : Leaves) (hC : ¬ P.C ≤ 1) :
    𝔼[headPumpRow pc P L] =
      (if 𝔼[L.f] ≤ (P.qbar : ℝ) then (pc.slope : ℝ) * (𝔼[L.f] - (P.qbar : ℝ)) + (P.hbar : ℝ)
       else (P.A : ℝ) - (P.B : ℝ) * 𝔼[L.f] ^ (P.C : ℝ)) - 𝔼[L.he] + 𝔼[L.hs] := by
  simp only [headPumpRow, hC, if_false, pumpCurveExpr, condExpr, eval_ifElse_ub, val_con, val_add, val_sub, val_mul, val_powC,
    val_ex, val_num]
  split_ifs <;> ring

theorem powerPumpRow_eval (lit : RowLits) (L : Leaves) :
    𝔼[powerPumpRow lit L] = 𝔼[L.power] + (𝔼[L.hs] - 𝔼[L.he]) * 𝔼[L.f] * (lit.gammaW : ℝ) := by
  simp only [powerPumpRow, val_con, val_add, val_sub, val_mul, val_ex, val_num]

theorem prvActiveRow_eval (L : Leaves) : 𝔼[prvActiveRow L] = 𝔼[L.he] - 𝔼[L.setting] - 𝔼[L.elevE] := by
  simp only [prvActiveRow, val_con, val_sub, val_ex]

theorem psvActiveRow_eval (L : Leaves) : 𝔼[psvActiveRow L] = 𝔼[L.hs] - 𝔼[L.setting] - 𝔼[L.elevS] := by
  simp only [psvActiveRow, val_con, val_sub, val_ex]

theorem fcvActiveRow_eval (L : Leaves) : 𝔼[fcvActiveRow L] = 𝔼[L.f] - 𝔼[L.setting] := by
  simp only [fcvActiveRow, val_con, val_sub, val_ex]

theorem openValveRowPlain_eval (L : Leaves) :
    𝔼[openValveRowPlain L] = 𝔼[L.mkl] * 𝔼[L.f] ^ ((2 : ℚ) : ℝ) - 𝔼[L.hs] + 𝔼[L.he] := by
  simp only [openValveRowPlain, val_con, val_add, val_sub, val_mul, val_powC, val_ex]

theorem signedLossRow_eval (r : Expr) (L : Leaves) :
    𝔼[signedLossRow r L] =
      (if 𝔼[L.f] ≤ 0 then -𝔼[r] * 𝔼[L.f] ^ ((2 : ℚ) : ℝ) else 𝔼[r] * 𝔼[L.f] ^ ((2 : ℚ) : ℝ)) - 𝔼[L.hs] + 𝔼[L.he] := by
  simp only [signedLossRow, condExpr, eval_ifElse_ub, val_con, val_add, val_sub, val_mul, val_powC, val_negE, val_ex,
    Rat.cast_zero]
  split_ifs <;> ring

end rows

/-! ### `cubic_spline` interpolates (values and slopes at both ends) -/

theorem cubicSpline_interpolates {x1 x2 : ℝ} (hne : x1 ≠ x2) (f1 f2 df1 df2 : ℝ) :
    cubicAt (cubicSpline x1 x2 f1 f2 df1 df2) x1 = f1 ∧ cubicAt (cubicSpline x1 x2 f1 f2 df1 df2) x2 = f2 ∧
    cubicDerivAt (cubicSpline x1 x2 f1 f2 df1 df2) x1 = df1 ∧ cubicDerivAt (cubicSpline x1 x2 f1 f2 df1 df2) x2 = df2 := by
  have h1 : x1 - x2 ≠ 0 := sub_ne_zero.2 hne
  have h2 : x2 - x1 ≠ 0 := sub_ne_zero.2 hne.symm
  have hden : x2 * x2 * x2 - x1 * x1 * x1 + 3 * x1 * x2 * (x1 - x2) = (x2 - x1) ^ 3 := by ring
  have hx : x1 = x2 - (x2 - x1) := by ring
  refine ⟨?_, ?_, ?_, ?_⟩ <;> simp only [cubicAt, cubicDerivAt, cubicSpline, hden] <;>
    (generalize hw : x2 - x1 = w at *
     have hx1 : x1 = x2 - w := by rw [hx]
     subst hx1
     have hw' : x2 - w - x2 = -w := by ring
     rw [hw']
     field_simp
     ring)

end Wntr.LinkRows
