/-
Under the invariant the DERIVED views of the registry model (typed iterators, `get_links_for_node`, `to_graph`), which the
code computes from its bookkeeping (typed sets, usage records), are exactly what the primary stores say (`viewsOk`).
-/
import WntrModel.Lemmas.RegistryStepAll

namespace Wntr.Registry
set_option linter.unusedVariables false
set_option linter.unusedSimpArgs false

theorem sameSet_iff {β : Type} [DecidableEq β] (a b : List β) :
    sameSet a b = true ↔ (∀ x ∈ a, x ∈ b) ∧ (∀ x ∈ b, x ∈ a) ∧ a.Nodup := by
  unfold sameSet
  simp only [Bool.and_eq_true, List.all_eq_true, List.contains_iff_mem, decide_eq_true_eq, and_assoc]

namespace AL
variable {α : Type}

theorem mem_iff_get? (l : List (Name × α)) (h : (keys l).Nodup) (k : Name) (v : α) : (k, v) ∈ l ↔ get? l k = some v := by
  induction l with
  | nil => simp
  | cons hd t ih =>
    obtain ⟨a, w⟩ := hd
    simp only [keys, List.map_cons, List.nodup_cons] at h
    have iht := ih h.2
    simp only [List.mem_cons, Prod.mk.injEq, get?_cons]
    by_cases hak : a = k
    · subst hak
      simp only [if_true, Option.some.injEq, true_and]
      constructor
      · rintro (h1 | h1)
        · exact h1.symm
        · exact absurd (List.mem_map.2 ⟨(a, v), h1, rfl⟩) h.1
      · intro h1; exact Or.inl h1.symm
    · simp only [hak, if_false, iht]
      constructor
      · rintro (h1 | h1)
        · exact absurd h1.1.symm hak
        · exact h1
      · intro h1; exact Or.inr h1

theorem mem_filter_map (l : List (Name × α)) (h : (keys l).Nodup) (p : Name × α → Bool) (k : Name) :
    k ∈ (l.filter p).map Prod.fst ↔ ∃ v, get? l k = some v ∧ p (k, v) = true := by
  simp only [List.mem_map, List.mem_filter]
  constructor
  · rintro ⟨⟨a, v⟩, ⟨h1, h2⟩, h3⟩
    simp only at h3; subst h3
    exact ⟨v, (mem_iff_get? l h a v).1 h1, h2⟩
  · rintro ⟨v, h1, h2⟩
    exact ⟨(k, v), ⟨(mem_iff_get? l h k v).2 h1, h2⟩, rfl⟩

theorem nodup_filter_map (l : List (Name × α)) (h : (keys l).Nodup) (p : Name × α → Bool) :
    ((l.filter p).map Prod.fst).Nodup :=
  List.Nodup.sublist (List.Sublist.map _ List.filter_sublist) h

end AL

theorem fam_cases (t : TSet) : t ∈ nodeSets ∨ t ∈ allLinkSets ∨ t ∈ curveSets := by cases t <;> decide

/-! ### typed iterators -/

theorem iterOk_of_inv (s : Reg) (h : Inv s) (t : TSet) : iterOk s t (typedIter s t) = true := by
  have hnd := (nodup_iff s).1 h.nodup
  have htn : (s.typed t).Nodup := hnd.2.2.2.2.2 t
  rcases fam_cases t with ht | ht | ht
  · -- a typed node set
    have hs := h.typedNodeSound t ht
    have hall : ((s.typed t).all fun x => (AL.keys s.nodes).contains x) = true := by
      rw [List.all_eq_true]; intro k hk
      obtain ⟨i, hi, _⟩ := hs k hk
      simpa using (AL.mem_keys_iff s.nodes k).2 ⟨i, hi⟩
    have hc : t ∉ curveSets := nodeSets_not_curve t ht
    unfold typedIter iterOk
    simp only [ht, if_true, hall, hc, if_false, namesOfSet]
    rw [sameSet_iff]
    refine ⟨?_, ?_, htn⟩
    · intro k hk
      obtain ⟨i, hi, hik⟩ := hs k hk
      exact (AL.mem_filter_map s.nodes hnd.1 _ k).2 ⟨i, hi, by simpa using hik⟩
    · intro k hk
      obtain ⟨i, hi, hik⟩ := (AL.mem_filter_map s.nodes hnd.1 _ k).1 hk
      have := (Clause.typedNodeComplete_iff s).1 h.typedNodeComplete k i hi
      simp only [decide_eq_true_eq] at hik
      rwa [hik] at this
  · -- a typed link set
    have hs := h.typedLinkSound t ht
    have hn : t ∉ nodeSets := fun hh => nodeSets_not_link t hh ht
    have hall : ((s.typed t).all fun x => (AL.keys s.links).contains x) = true := by
      rw [List.all_eq_true]; intro k hk
      obtain ⟨i, hi, _⟩ := hs k hk
      simpa using (AL.mem_keys_iff s.links k).2 ⟨i, hi⟩
    have hc : t ∉ curveSets := linkSets_not_curve t ht
    unfold typedIter iterOk
    simp only [hn, ht, if_true, if_false, hall, hc, namesOfSet]
    rw [sameSet_iff]
    refine ⟨?_, ?_, htn⟩
    · intro k hk
      obtain ⟨i, hi, hik⟩ := hs k hk
      exact (AL.mem_filter_map s.links hnd.2.1 _ k).2 ⟨i, hi, by simpa using hik⟩
    · intro k hk
      obtain ⟨i, hi, hik⟩ := (AL.mem_filter_map s.links hnd.2.1 _ k).1 hk
      simp only [decide_eq_true_eq] at hik
      exact (Clause.typedLinkComplete_iff s).1 h.typedLinkComplete k i hi t hik
  · -- a typed curve set
    have hs := h.typedCurveSound t ht
    have hn : t ∉ nodeSets := fun hh => nodeSets_not_curve t hh ht
    have hl : t ∉ allLinkSets := fun hh => linkSets_not_curve t hh ht
    have hall : ((s.typed t).all fun x => s.curves.contains x) = true := by
      rw [List.all_eq_true]; intro k hk
      simpa using hs k hk
    unfold typedIter iterOk
    simp only [hn, hl, if_false, hall, if_true, ht, Bool.true_and, decide_eq_true_eq]
    exact htn

/-! ### get_links_for_node -/

/-- the condition under which `get_links_for_node(n, flag)` keeps a link -/
def keepB (n : Name) (f : Flag) (i : LinkInfo) : Bool :=
  match f with
  | .all => i.start = n || i.end_ = n
  | .inlet => i.end_ = n
  | .outlet => i.start = n

/-- what `get_links_for_node` yields for one usage entry, when every link it names exists with the recorded type -/
def pick (s : Reg) (n : Name) (f : Flag) (u : User) : Option Name :=
  if isLinkType u.2 = true then
    match AL.get? s.links u.1 with
    | some i => if ltype i.kind = u.2 ∧ keepB n f i = true then some u.1 else none
    | none => none
  else none

theorem go_spec (s : Reg) (n : Name) (f : Flag) (us : List User)
    (h : ∀ u ∈ us, isLinkType u.2 = true → ∃ i, AL.get? s.links u.1 = some i ∧ ltype i.kind = u.2) :
    linksForNode.go s n f us = some (us.filterMap (pick s n f)) := by
  induction us with
  | nil => rfl
  | cons u t ih =>
    obtain ⟨l, ty⟩ := u
    have iht := ih (fun u hu => h u (List.mem_cons_of_mem _ hu))
    by_cases hty : isLinkType ty = true
    · obtain ⟨i, hi, hk⟩ := h (l, ty) List.mem_cons_self hty
      simp only at hi hk
      unfold linksForNode.go
      simp only [hty, Bool.not_true, Bool.false_eq_true, if_false, hi, iht, Option.map_some, List.filterMap_cons, pick, if_true,
        hk, true_and]
      cases f <;> simp only [keepB] <;> split <;> simp_all
    · unfold linksForNode.go
      simp only [hty, Bool.not_false, if_true, iht, List.filterMap_cons, pick, Bool.false_eq_true, if_false]

theorem pick_eq_some (s : Reg) (n : Name) (f : Flag) (u : User) (x : Name) :
    pick s n f u = some x ↔
      u.1 = x ∧ isLinkType u.2 = true ∧ ∃ i, AL.get? s.links x = some i ∧ ltype i.kind = u.2 ∧ keepB n f i = true := by
  unfold pick
  by_cases hty : isLinkType u.2 = true
  · simp only [hty, if_true, true_and]
    cases hg : AL.get? s.links u.1 with
    | none =>
      simp only [reduceCtorEq, false_iff, not_and, not_exists]
      intro hx; subst hx; simp [hg]
    | some i =>
      simp only
      by_cases hc : ltype i.kind = u.2 ∧ keepB n f i = true
      · simp only [hc, and_self, if_true, Option.some.injEq]
        constructor
        · intro hx; subst hx; exact ⟨rfl, i, hg, hc.1, hc.2⟩
        · exact fun hx => hx.1
      · simp only [hc, if_false, false_iff, not_and, not_exists, reduceCtorEq]
        intro hx j hj; subst hx
        rw [hg] at hj; cases hj
        exact fun a b => hc ⟨a, b⟩
  · simp [hty]

theorem incident_mem (s : Reg) (hn : (AL.keys s.links).Nodup) (n : Name) (f : Flag) (x : Name) :
    x ∈ incident s n f ↔ ∃ i, AL.get? s.links x = some i ∧ keepB n f i = true := by
  unfold incident
  rw [AL.mem_filter_map s.links hn]
  cases f <;> simp [keepB]

theorem linksFor_ok (s : Reg) (h : Inv s) (hu : UsageNodup s) (n : Name) (f : Flag) :
    optSame (linksForNode s n f) (incident s n f) = true := by
  have hnd := (nodup_iff s).1 h.nodup
  have hsound := (Clause.usageNodeSound_iff s).1 h.usageNodeSound n
  have hlinks := (Clause.usageNodeLinks_iff s).1 h.usageNodeLinks
  have hspec : linksForNode s n f = some ((ulook (s.usage .node) n).filterMap (pick s n f)) := by
    unfold linksForNode
    rw [users_eq]
    apply go_spec
    intro u hu' hty
    rcases hsound u hu' with ⟨_, i, hi, hk, _⟩ | ⟨hs, _⟩
    · exact ⟨i, hi, hk⟩
    · rw [hs] at hty; cases hty
  rw [hspec]
  unfold optSame
  simp only
  rw [sameSet_iff]
  refine ⟨?_, ?_, ?_⟩
  · intro x hx
    obtain ⟨u, _, hp⟩ := List.mem_filterMap.1 hx
    obtain ⟨_, _, i, hi, _, hk⟩ := (pick_eq_some s n f u x).1 hp
    exact (incident_mem s hnd.2.1 n f x).2 ⟨i, hi, hk⟩
  · intro x hx
    obtain ⟨i, hi, hk⟩ := (incident_mem s hnd.2.1 n f x).1 hx
    have hl := hlinks x i hi
    have hmem : (x, ltype i.kind) ∈ ulook (s.usage .node) n := by
      cases f <;> simp only [keepB, Bool.or_eq_true, decide_eq_true_eq] at hk
      · rcases hk with hk | hk <;> subst hk
        · exact hl.1
        · exact hl.2
      · subst hk; exact hl.2
      · subst hk; exact hl.1
    exact List.mem_filterMap.2 ⟨(x, ltype i.kind), hmem,
      (pick_eq_some s n f _ x).2 ⟨rfl, isLinkType_ltype _, i, hi, rfl, hk⟩⟩
  · apply List.Nodup.filterMap _ (hu .node n)
    intro a a' b ha ha'
    obtain ⟨h1, _, i, hi, hk, _⟩ := (pick_eq_some s n f a b).1 ha
    obtain ⟨h1', _, i', hi', hk', _⟩ := (pick_eq_some s n f a' b).1 ha'
    rw [hi] at hi'; cases hi'
    exact Prod.ext (h1.trans h1'.symm) (hk.symm.trans hk')

/-! ### to_graph -/

theorem graphNodes_eq (s : Reg) (h : Inv s) : graphNodes s = AL.keys s.nodes := by
  have hnd := (nodup_iff s).1 h.nodup
  have hends := (Clause.endsExist_iff s).1 h.endsExist
  unfold graphNodes
  have key : ∀ (l : List (Name × LinkInfo)) (acc : List Name),
      (∀ kv ∈ l, kv.2.start ∈ acc ∧ kv.2.end_ ∈ acc) →
      l.foldl (fun acc kv => OSet.add (OSet.add acc kv.2.start) kv.2.end_) acc = acc := by
    intro l
    induction l with
    | nil => intro acc _; rfl
    | cons hd t ih =>
      intro acc hh
      have h0 := hh hd List.mem_cons_self
      simp only [List.foldl_cons, OSet.add, h0.1, h0.2, if_true]
      exact ih acc (fun kv hkv => hh kv (List.mem_cons_of_mem _ hkv))
  apply key
  intro kv hkv
  obtain ⟨k, i⟩ := kv
  have hi := (AL.mem_iff_get? s.links hnd.2.1 k i).1 hkv
  obtain ⟨⟨a, ha⟩, ⟨b, hb⟩⟩ := hends k i hi
  exact ⟨(AL.mem_keys_iff _ _).2 ⟨a, ha⟩, (AL.mem_keys_iff _ _).2 ⟨b, hb⟩⟩

theorem graphEdges_nodup (s : Reg) (h : Inv s) : (graphEdges s).Nodup := by
  have hnd := (nodup_iff s).1 h.nodup
  unfold graphEdges
  apply List.Nodup.of_map (fun e => e.2.2)
  simp only [List.map_map]
  exact hnd.2.1

/-! ### counts (`num_junctions`, `num_pumps`, ..., `describe(level)`): the length of a typed set is the number of elements of its class -/

theorem typed_sameSet (s : Reg) (h : Inv s) (t : TSet) (ht : t ∈ nodeSets ∨ t ∈ allLinkSets) :
    sameSet (s.typed t) (namesOfSet s t) = true := by
  have hnd := (nodup_iff s).1 h.nodup
  have htn : (s.typed t).Nodup := hnd.2.2.2.2.2 t
  rw [sameSet_iff]
  rcases ht with ht | ht
  · have hs := h.typedNodeSound t ht
    simp only [namesOfSet, ht, if_true]
    refine ⟨?_, ?_, htn⟩
    · intro k hk
      obtain ⟨i, hi, hik⟩ := hs k hk
      exact (AL.mem_filter_map s.nodes hnd.1 _ k).2 ⟨i, hi, by simpa using hik⟩
    · intro k hk
      obtain ⟨i, hi, hik⟩ := (AL.mem_filter_map s.nodes hnd.1 _ k).1 hk
      have := (Clause.typedNodeComplete_iff s).1 h.typedNodeComplete k i hi
      simp only [decide_eq_true_eq] at hik
      rwa [hik] at this
  · have hs := h.typedLinkSound t ht
    have hn : t ∉ nodeSets := fun hh => nodeSets_not_link t hh ht
    simp only [namesOfSet, hn, if_false]
    refine ⟨?_, ?_, htn⟩
    · intro k hk
      obtain ⟨i, hi, hik⟩ := hs k hk
      exact (AL.mem_filter_map s.links hnd.2.1 _ k).2 ⟨i, hi, by simpa using hik⟩
    · intro k hk
      obtain ⟨i, hi, hik⟩ := (AL.mem_filter_map s.links hnd.2.1 _ k).1 hk
      simp only [decide_eq_true_eq] at hik
      exact (Clause.typedLinkComplete_iff s).1 h.typedLinkComplete k i hi t hik

theorem namesOfSet_nodup (s : Reg) (h : Inv s) (t : TSet) : (namesOfSet s t).Nodup := by
  have hnd := (nodup_iff s).1 h.nodup
  unfold namesOfSet
  split
  · exact AL.nodup_filter_map s.nodes hnd.1 _
  · exact AL.nodup_filter_map s.links hnd.2.1 _

/-- **typed_count**: `num_junctions`, `num_tanks`, `num_pipes`, `num_head_pumps`, ... (the lengths of the typed sets, which is
what `describe` and the `num_*` properties report) are the numbers of existing elements of the class -/
theorem typed_count (s : Reg) (h : Inv s) (t : TSet) (ht : t ∈ nodeSets ∨ t ∈ allLinkSets) :
    (s.typed t).length = (namesOfSet s t).length := by
  obtain ⟨h1, h2, h3⟩ := (sameSet_iff _ _).1 (typed_sameSet s h t ht)
  exact List.Perm.length_eq ((List.perm_ext_iff_of_nodup h3 (namesOfSet_nodup s h t)).2 (fun a => ⟨h1 a, h2 a⟩))

/-- every node is in exactly one typed node set: `num_nodes = num_junctions + num_tanks + num_reservoirs` -/
theorem node_count (s : Reg) (h : Inv s) :
    s.nodes.length = (s.typed .junctions).length + (s.typed .tanks).length + (s.typed .reservoirs).length := by
  rw [typed_count s h .junctions (Or.inl (by decide)), typed_count s h .tanks (Or.inl (by decide)),
    typed_count s h .reservoirs (Or.inl (by decide))]
  simp only [namesOfSet, show TSet.junctions ∈ nodeSets by decide, show TSet.tanks ∈ nodeSets by decide,
    show TSet.reservoirs ∈ nodeSets by decide, if_true, List.length_map]
  generalize s.nodes = l
  induction l with
  | nil => rfl
  | cons hd t ih =>
    obtain ⟨k, i⟩ := hd
    simp only [List.length_cons, List.filter_cons, ih]
    cases hk : i.kind <;> simp [nodeSet] <;> omega

/-! ### all derived views -/

/-- **views_of_inv**: under the invariant every derived view is the specification: typed iterators do not raise and enumerate
exactly the elements of their class, `get_links_for_node(n, ALL|INLET|OUTLET)` is the incidence relation, `to_graph` has exactly
the nodes and the links of the model -/
theorem views_of_inv (s : Reg) (h : Inv s) (hu : UsageNodup s) : viewsOk s (views s) = true := by
  have hnd := (nodup_iff s).1 h.nodup
  unfold viewsOk views
  simp only [Bool.and_eq_true, List.all_eq_true, List.mem_map]
  refine ⟨⟨⟨?_, ?_⟩, ?_⟩, ?_⟩
  · rintro ⟨t, r⟩ ⟨t', _, ht'⟩
    cases ht'
    exact iterOk_of_inv s h _
  · rintro ⟨n, a, b, c⟩ ⟨n', _, hn'⟩
    cases hn'
    simp only [linksFor_ok s h hu, and_self]
  · rw [graphNodes_eq s h, sameSet_iff]
    exact ⟨fun _ hx => hx, fun _ hx => hx, hnd.1⟩
  · rw [sameSet_iff]
    exact ⟨fun _ hx => hx, fun _ hx => hx, graphEdges_nodup s h⟩

end Wntr.Registry
