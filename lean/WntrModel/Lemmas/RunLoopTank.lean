/-
C16: the backtrack a TankLevelCondition asks for lies inside the step -- IN EXACT ARITHMETIC.

Model: `Wntr.Tank.evalLevel` (M7, C05/C06, read-only; tied to `TankLevelCondition.evaluate` by Gen/TankShape `backtrack_shape_is_model`).
Hypotheses, each one checked on the real run or guaranteed by the code:
  * cylindrical tank (`vol_curve is None`), cross-section `π/4·d² > 0`;
  * the tentative value is the value at the previous accepted time plus `q·dt/A` (`update_tank_heads`, `dt = cur − prev > 0`
    integral seconds) and `_last_value` IS that previous value (the condition is a pre-AND-post-solve control: it was evaluated in
    the post-solve pass of the accepted step);
  * a crossing (the condition holds on the rounded tentative value and did not hold on the rounded last value).
Then `back < dt`, and `0 ≤ back` unless the tentative value lies below the threshold by less than the 1e-10 rounding
(then `back` can be −1 when `1e-10·A < |q|`... see `tank_backtrack_lower`).
In DOUBLE arithmetic the strict bound fails in a corner (threshold on a 10-digit rounding boundary, last value one ulp below it):
the code computes `back = dt`, the clock returns to the previous time and `run_sim` raises 'Simulation already solved this
timestep' -- finding `tank-backtrack-whole-step`, corpus/C16/tank-backtrack-whole-step.json.
-/
import WntrModel.Lemmas.TankRound
import Mathlib.Algebra.Order.Field.Basic

namespace Wntr.Tank

/-- a condition that does not hold on the rounded operands separates the exact operands strictly -/
theorem not_ge_holds {a b : Rat} (h : Rel.holds .ge a b = false) : a < b := by
  by_contra hn
  have := round10_mono (not_lt.1 hn)
  simp [Rel.holds] at h
  linarith

theorem not_le_holds {a b : Rat} (h : Rel.holds .le a b = false) : b < a := by
  by_contra hn
  have := round10_mono (not_lt.1 hn)
  simp [Rel.holds] at h
  linarith

/-- **tank_backtrack_inside_step** (cylinder, exact arithmetic): at a crossing the backtrack is strictly smaller than the step,
the flow has the sign of the crossing, and the backtrack is non-negative whenever the tentative value is on the far side of the
exact threshold -/
theorem tank_backtrack_inside_step (pi : Rat) (t : Tank) (hc : t.curve = none) (c : LevelCond)
    (hrel : foldRel c.rel = .ge ∨ foldRel c.rel = .le) (cur q last : Rat) (dt : Int) (hdt : 0 < dt)
    (hA : 0 < area pi t) (hq : q ≠ 0)
    (h1 : (foldRel c.rel).holds (attrValue t cur c.attr) c.thr = true) (h2 : (foldRel c.rel).holds last c.thr = false)
    (hstep : attrValue t cur c.attr = last + q * (dt : Rat) / area pi t) :
    (evalLevel pi t c cur (some q) last).back < dt ∧
    ((foldRel c.rel = .ge → 0 < q ∧ (c.thr ≤ attrValue t cur c.attr → 0 ≤ (evalLevel pi t c cur (some q) last).back)) ∧
     (foldRel c.rel = .le → q < 0 ∧ (attrValue t cur c.attr ≤ c.thr → 0 ≤ (evalLevel pi t c cur (some q) last).back))) := by
  have hq' : (q == 0) = false := by simpa using hq
  have hb : (evalLevel pi t c cur (some q) last).back =
      ((attrValue t cur c.attr - c.thr) * area pi t / q).floor := by
    simp only [evalLevel, h1, h2, hc, hq', Bool.not_false, Bool.and_self, if_true, Bool.false_eq_true, if_false, area]
    congr 1; ring
  rw [hb]
  set v := attrValue t cur c.attr with hv
  set a := area pi t with ha
  have hdtR : (0 : Rat) < (dt : Rat) := by exact_mod_cast hdt
  rcases hrel with hr | hr
  · rw [hr] at h1 h2
    have hlt : last < c.thr := not_ge_holds h2
    have hvl : last < v := by
      by_contra hn
      have m := round10_mono (not_lt.1 hn)
      have h2' : round10 last < round10 c.thr := by simpa [Rel.holds] using h2
      have h1' : round10 c.thr ≤ round10 v := by simpa [Rel.holds] using h1
      linarith
    have hqpos : 0 < q := by
      have h3 : 0 < q * (dt : Rat) / a := by linarith
      rcases lt_trichotomy q 0 with hneg | hz | hpos
      · exact absurd (div_neg_of_neg_of_pos (mul_neg_of_neg_of_pos hneg hdtR) hA) (not_lt.2 (le_of_lt h3))
      · exact absurd hz hq
      · exact hpos
    have hx : (v - c.thr) * a / q < (dt : Rat) := by
      rw [div_lt_iff₀ hqpos]
      have : v - c.thr < q * (dt : Rat) / a := by linarith
      have h4 := (lt_div_iff₀ hA).1 this
      linarith
    refine ⟨?_, fun _ => ⟨hqpos, fun hge => ?_⟩, (fun (h : foldRel c.rel = .le) => by rw [hr] at h; cases h)⟩
    · have := Rat.floor_le ((v - c.thr) * a / q)
      have hlt' : (((v - c.thr) * a / q).floor : Rat) < (dt : Rat) := lt_of_le_of_lt this hx
      exact_mod_cast hlt'
    · have hnn : 0 ≤ (v - c.thr) * a / q := div_nonneg (mul_nonneg (by linarith) (le_of_lt hA)) (le_of_lt hqpos)
      have := Rat.lt_floor_add_one ((v - c.thr) * a / q)
      push_cast at this
      have h5 : (0 : Rat) < ((((v - c.thr) * a / q).floor + 1 : Int) : Rat) := by
        push_cast; linarith
      have h6 : (0 : Int) < ((v - c.thr) * a / q).floor + 1 := by exact_mod_cast h5
      omega
  · rw [hr] at h1 h2
    have hlt : c.thr < last := not_le_holds h2
    have hvl : v < last := by
      by_contra hn
      have m := round10_mono (not_lt.1 hn)
      have h2' : round10 c.thr < round10 last := by simpa [Rel.holds] using h2
      have h1' : round10 v ≤ round10 c.thr := by simpa [Rel.holds] using h1
      linarith
    have hqneg : q < 0 := by
      have h3 : q * (dt : Rat) / a < 0 := by linarith
      rcases lt_trichotomy q 0 with hneg | hz | hpos
      · exact hneg
      · exact absurd hz hq
      · exact absurd (div_pos (mul_pos hpos hdtR) hA) (not_lt.2 (le_of_lt h3))
    have hx : (v - c.thr) * a / q < (dt : Rat) := by
      have : q * (dt : Rat) / a < v - c.thr := by linarith
      have h4 := (div_lt_iff₀ hA).1 this
      have hxq : (v - c.thr) * a / q * q = (v - c.thr) * a := div_mul_cancel₀ _ hq
      by_contra hn
      have h5 := mul_le_mul_of_nonpos_right (not_lt.1 hn) (le_of_lt hqneg)
      linarith
    refine ⟨?_, (fun (h : foldRel c.rel = .ge) => by rw [hr] at h; cases h), fun _ => ⟨hqneg, fun hle => ?_⟩⟩
    · have := Rat.floor_le ((v - c.thr) * a / q)
      have hlt' : (((v - c.thr) * a / q).floor : Rat) < (dt : Rat) := lt_of_le_of_lt this hx
      exact_mod_cast hlt'
    · have hnn : 0 ≤ (v - c.thr) * a / q :=
        div_nonneg_of_nonpos (mul_nonpos_of_nonpos_of_nonneg (by linarith) (le_of_lt hA)) (le_of_lt hqneg)
      have := Rat.lt_floor_add_one ((v - c.thr) * a / q)
      push_cast at this
      have h5 : (0 : Rat) < ((((v - c.thr) * a / q).floor + 1 : Int) : Rat) := by
        push_cast; linarith
      have h6 : (0 : Int) < ((v - c.thr) * a / q).floor + 1 := by exact_mod_cast h5
      omega

end Wntr.Tank
