/-
Lemmas for C15: operator lists BUILT by the overloads are well formed and consistent — the two structural hypotheses of
`getRpn_total`, `reverseSd_is_derivative`, … are properties of the construction, not of the input.

`expression._binary_operation_helper` (expr.py): `expr = expression(self)` (a copy of self's operator list), then the
other operand's operators are appended, then the new operator: `ops(self) ++ ops(other) ++ [new]`; `if_else` and
`inequality` likewise. Operator OBJECTS live on the Python heap: `Heap` maps an identity to the object's fields; a list is
`FromHeap` when each of its entries is the heap's object with that identity — so the same object has the same fields
wherever it occurs.
-/
import WntrModel.Model.Rpn
import WntrModel.Lemmas.AmlRpn
import Mathlib.Data.List.Basic

namespace Wntr.Aml

/-- a Python-level aml value that is not a native number: a leaf, or an expression with its operator list -/
structure PyExpr where
  ops : OpList
  leaf : PLeaf            -- meaningful when `ops = []`

/-- `x.last_node()` as an operand -/
def PyExpr.last (e : PyExpr) : Operand :=
  match e.ops.getLast? with
  | some n => .op n.id
  | none => .leaf e.leaf

def mkBin (op : Bin) (a b : PyExpr) (id : Nat) : PyExpr :=
  ⟨a.ops ++ b.ops ++ [⟨id, .bin op a.last b.last⟩], a.leaf⟩

def mkUn (op : Un) (a : PyExpr) (id : Nat) : PyExpr := ⟨a.ops ++ [⟨id, .un op a.last⟩], a.leaf⟩

def mkIneq (a : PyExpr) (lb ub : PLeaf) (id : Nat) : PyExpr := ⟨a.ops ++ [⟨id, .ineq a.last lb ub⟩], a.leaf⟩

def mkIfElse (c t e : PyExpr) (id : Nat) : PyExpr :=
  ⟨c.ops ++ t.ops ++ e.ops ++ [⟨id, .ifElse c.last t.last e.last⟩], c.leaf⟩

/-! ### well-formedness -/

theorem operandOk_mono {s s' : List Nat} (h : ∀ i, i ∈ s → i ∈ s') (o : Operand) (ho : operandOk s o = true) :
    operandOk s' o = true := by
  cases o with
  | leaf l => rfl
  | op i =>
    simp only [operandOk, List.contains_eq_mem, decide_eq_true_eq] at ho ⊢
    exact h i ho

theorem wellFormedFrom_mono {s s' : List Nat} (h : ∀ i, i ∈ s → i ∈ s') (l : OpList)
    (hl : wellFormedFrom s l = true) : wellFormedFrom s' l = true := by
  induction l generalizing s s' with
  | nil => rfl
  | cons n r ih =>
    simp only [wellFormedFrom, Bool.and_eq_true, List.all_eq_true] at hl ⊢
    refine ⟨fun o ho => operandOk_mono h o (hl.1 o ho), ih ?_ hl.2⟩
    intro i hi
    simp only [List.mem_cons] at hi ⊢
    exact hi.imp id (h i)

theorem wellFormedFrom_append (s : List Nat) (a b : OpList) :
    wellFormedFrom s (a ++ b) = (wellFormedFrom s a && wellFormedFrom ((a.map (·.id)).reverse ++ s) b) := by
  induction a generalizing s with
  | nil => simp [wellFormedFrom]
  | cons n r ih =>
    simp only [List.cons_append, wellFormedFrom, ih, List.map_cons, List.reverse_cons, List.append_assoc,
      List.cons_append, List.nil_append, Bool.and_assoc]

/-- the last node of a non-empty list is among its identities -/
theorem last_ok (e : PyExpr) (s : List Nat) : operandOk ((e.ops.map (·.id)).reverse ++ s) e.last = true := by
  unfold PyExpr.last
  cases h : e.ops.getLast? with
  | none => rfl
  | some n =>
    simp only [operandOk, List.contains_eq_mem, decide_eq_true_eq, List.mem_append, List.mem_reverse, List.mem_map]
    exact Or.inl ⟨n, List.mem_of_getLast? h, rfl⟩

theorem mkBin_wellFormed (op : Bin) (a b : PyExpr) (id : Nat) (ha : wellFormed a.ops = true)
    (hb : wellFormed b.ops = true) : wellFormed (mkBin op a b id).ops = true := by
  unfold wellFormed mkBin at *
  simp only [wellFormedFrom_append, List.append_nil, Bool.and_eq_true, wellFormedFrom, PyOp.operands, List.all_cons,
    List.all_nil, Bool.and_true]
  refine ⟨⟨ha, wellFormedFrom_mono (by simp) _ hb⟩, ⟨?_, ?_⟩⟩
  · refine operandOk_mono ?_ _ (last_ok a [])
    intro i hi; simp only [List.map_append, List.reverse_append, List.mem_append] at hi ⊢; tauto
  · refine operandOk_mono ?_ _ (last_ok b [])
    intro i hi; simp only [List.map_append, List.reverse_append, List.mem_append] at hi ⊢; tauto

theorem mkUn_wellFormed (op : Un) (a : PyExpr) (id : Nat) (ha : wellFormed a.ops = true) :
    wellFormed (mkUn op a id).ops = true := by
  unfold wellFormed mkUn at *
  simp only [wellFormedFrom_append, List.append_nil, Bool.and_eq_true, wellFormedFrom, PyOp.operands, List.all_cons,
    List.all_nil, Bool.and_true]
  exact ⟨ha, by simpa using last_ok a []⟩

theorem mkIneq_wellFormed (a : PyExpr) (lb ub : PLeaf) (id : Nat) (ha : wellFormed a.ops = true) :
    wellFormed (mkIneq a lb ub id).ops = true := by
  unfold wellFormed mkIneq at *
  simp only [wellFormedFrom_append, List.append_nil, Bool.and_eq_true, wellFormedFrom, PyOp.operands, List.all_cons,
    List.all_nil, Bool.and_true]
  exact ⟨ha, by simpa using last_ok a []⟩

theorem mkIfElse_wellFormed (c t e : PyExpr) (id : Nat) (hc : wellFormed c.ops = true) (ht : wellFormed t.ops = true)
    (he : wellFormed e.ops = true) : wellFormed (mkIfElse c t e id).ops = true := by
  unfold wellFormed mkIfElse at *
  simp only [wellFormedFrom_append, List.append_nil, Bool.and_eq_true, wellFormedFrom, PyOp.operands, List.all_cons,
    List.all_nil, Bool.and_true]
  refine ⟨⟨⟨hc, wellFormedFrom_mono (by simp) _ ht⟩, wellFormedFrom_mono (by simp) _ he⟩, ⟨?_, ?_, ?_⟩⟩
  · refine operandOk_mono ?_ _ (last_ok c [])
    intro i hi; simp only [List.map_append, List.reverse_append, List.mem_append] at hi ⊢; tauto
  · refine operandOk_mono ?_ _ (last_ok t [])
    intro i hi; simp only [List.map_append, List.reverse_append, List.mem_append] at hi ⊢; tauto
  · refine operandOk_mono ?_ _ (last_ok e [])
    intro i hi; simp only [List.map_append, List.reverse_append, List.mem_append] at hi ⊢; tauto

/-! ### consistency: objects on a heap -/

/-- the Python heap of operator objects: identity ↦ fields -/
abbrev Heap := Nat → Option PyOp

def FromHeap (H : Heap) (l : OpList) : Prop := ∀ n ∈ l, H n.id = some n.op

theorem FromHeap.consistent {H : Heap} {l : OpList} (h : FromHeap H l) : consistent l := by
  intro a ha b hb e
  have h1 := h a ha
  have h2 := h b hb
  rw [e] at h1
  exact Option.some.inj (h1.symm.trans h2)

theorem FromHeap.append {H : Heap} {a b : OpList} (ha : FromHeap H a) (hb : FromHeap H b) : FromHeap H (a ++ b) := by
  intro n hn
  rcases List.mem_append.mp hn with h | h
  · exact ha n h
  · exact hb n h

/-- allocating a new operator object at a fresh identity -/
def Heap.alloc (H : Heap) (id : Nat) (op : PyOp) : Heap := fun i => if i = id then some op else H i

theorem FromHeap.alloc {H : Heap} {l : OpList} (h : FromHeap H l) (id : Nat) (op : PyOp) (hfresh : H id = none) :
    FromHeap (H.alloc id op) l := by
  intro n hn
  have := h n hn
  unfold Heap.alloc
  by_cases e : n.id = id
  · rw [e, hfresh] at this; cases this
  · simp [e, this]

/-- **every binary overload keeps the lists on the heap**: the operands' lists are on the heap, the new operator object is
allocated at a fresh identity ⇒ the result's list is on the (extended) heap, hence `consistent` -/
theorem mkBin_fromHeap (H : Heap) (op : Bin) (a b : PyExpr) (id : Nat) (ha : FromHeap H a.ops) (hb : FromHeap H b.ops)
    (hfresh : H id = none) :
    FromHeap (H.alloc id (.bin op a.last b.last)) (mkBin op a b id).ops := by
  unfold mkBin
  refine ((ha.alloc id _ hfresh).append (hb.alloc id _ hfresh)).append ?_
  intro n hn
  simp only [List.mem_singleton] at hn
  subst hn
  simp [Heap.alloc]

theorem mkUn_fromHeap (H : Heap) (op : Un) (a : PyExpr) (id : Nat) (ha : FromHeap H a.ops) (hfresh : H id = none) :
    FromHeap (H.alloc id (.un op a.last)) (mkUn op a id).ops := by
  unfold mkUn
  refine (ha.alloc id _ hfresh).append ?_
  intro n hn
  simp only [List.mem_singleton] at hn
  subst hn
  simp [Heap.alloc]

theorem mkIneq_fromHeap (H : Heap) (a : PyExpr) (lb ub : PLeaf) (id : Nat) (ha : FromHeap H a.ops)
    (hfresh : H id = none) : FromHeap (H.alloc id (.ineq a.last lb ub)) (mkIneq a lb ub id).ops := by
  unfold mkIneq
  refine (ha.alloc id _ hfresh).append ?_
  intro n hn
  simp only [List.mem_singleton] at hn
  subst hn
  simp [Heap.alloc]

theorem mkIfElse_fromHeap (H : Heap) (c t e : PyExpr) (id : Nat) (hc : FromHeap H c.ops) (ht : FromHeap H t.ops)
    (he : FromHeap H e.ops) (hfresh : H id = none) :
    FromHeap (H.alloc id (.ifElse c.last t.last e.last)) (mkIfElse c t e id).ops := by
  unfold mkIfElse
  refine (((hc.alloc id _ hfresh).append (ht.alloc id _ hfresh)).append (he.alloc id _ hfresh)).append ?_
  intro n hn
  simp only [List.mem_singleton] at hn
  subst hn
  simp [Heap.alloc]

end Wntr.Aml
