/- Helper lemmas for C19 (skeletonization): moving a junction's demand entries / skeleton-map list into another
   node is a permutation of the flattened lists. -/
import WntrModel.Model.Morph
namespace Wntr.Morph

def names (ns : List SNode) : List String := ns.map (·.name)
def allDemands (ns : List SNode) : List Dem := ns.flatMap (·.demands)

def addDem (c : String) (ds : List Dem) (n : SNode) : SNode :=
  if n.name == c then { n with demands := n.demands ++ ds } else n

theorem absorbNode_eq (nodes : List SNode) (j c : String) (dj : List Dem) :
    absorbNode nodes j c dj = (nodes.filter (fun n => n.name != j)).map (addDem c dj) := rfl

theorem addDem_name (c : String) (ds : List Dem) (n : SNode) : (addDem c ds n).name = n.name := by
  unfold addDem; split <;> rfl

theorem addDem_kind (c : String) (ds : List Dem) (n : SNode) : (addDem c ds n).kind = n.kind := by
  unfold addDem; split <;> rfl

theorem names_absorb (nodes : List SNode) (j c : String) (dj : List Dem) :
    names (absorbNode nodes j c dj) = (names nodes).filter (· != j) := by
  rw [absorbNode_eq]
  unfold names
  rw [List.map_map]
  have : (fun n => n.name) ∘ addDem c dj = fun n : SNode => n.name := by funext n; exact addDem_name c dj n
  rw [this, List.filter_map]
  rfl

theorem map_eq_self {α : Type} (f : α → α) (l : List α) (h : ∀ x ∈ l, f x = x) : l.map f = l := by
  induction l with
  | nil => rfl
  | cons a t ih =>
    rw [List.map_cons, h a (List.mem_cons_self ..), ih (fun x hx => h x (List.mem_cons_of_mem _ hx))]

theorem filter_name_id (t : List SNode) (j : String) (h : j ∉ names t) : t.filter (fun n => n.name != j) = t := by
  rw [List.filter_eq_self]
  intro n hn
  have : n.name ≠ j := fun e => h (e ▸ List.mem_map_of_mem hn)
  simpa using this

theorem map_addDem_id (t : List SNode) (c : String) (ds : List Dem) (h : c ∉ names t) : t.map (addDem c ds) = t := by
  apply map_eq_self
  intro n hn
  have : n.name ≠ c := fun e => h (e ▸ List.mem_map_of_mem hn)
  have hb : (n.name == c) = false := by simpa using this
  simp [addDem, hb]

theorem find_name {ns : List SNode} {j : String} {nj : SNode} (h : ns.find? (·.name == j) = some nj) :
    nj ∈ ns ∧ nj.name = j := by
  refine ⟨List.mem_of_find?_eq_some h, ?_⟩
  have := List.find?_some h
  simpa using this

/-- removing node `j` loses exactly its demand entries -/
theorem demands_filter (ns : List SNode) (j : String) (nj : SNode) (hn : (names ns).Nodup)
    (hf : ns.find? (·.name == j) = some nj) :
    (allDemands (ns.filter (fun n => n.name != j)) ++ nj.demands).Perm (allDemands ns) := by
  induction ns with
  | nil => simp at hf
  | cons n t ih =>
    have hnd : n.name ∉ names t ∧ (names t).Nodup := by simpa [names] using hn
    by_cases hnj : n.name = j
    · have hb : (n.name == j) = true := by simpa using hnj
      have : nj = n := by simpa [List.find?, hb] using hf.symm
      subst this
      have hj : j ∉ names t := hnj ▸ hnd.1
      have hbn : (nj.name != j) = false := by simp [hnj]
      rw [List.filter_cons_of_neg (by simp [hnj]), filter_name_id t j hj]
      simp only [allDemands, List.flatMap_cons]
      exact List.perm_append_comm
    · have hb : (n.name == j) = false := by simpa using hnj
      have hf' : t.find? (·.name == j) = some nj := by simpa [List.find?, hb] using hf
      have := ih hnd.2 hf'
      rw [List.filter_cons_of_pos (by simpa using hnj)]
      simp only [allDemands, List.flatMap_cons, List.append_assoc] at this ⊢
      exact List.Perm.append_left _ this

/-- appending entries to the (unique) node `c` adds exactly these entries -/
theorem demands_add (ns : List SNode) (c : String) (ds : List Dem) (hn : (names ns).Nodup) (hc : c ∈ names ns) :
    (allDemands (ns.map (addDem c ds))).Perm (allDemands ns ++ ds) := by
  induction ns with
  | nil => simp [names] at hc
  | cons n t ih =>
    have hnd : n.name ∉ names t ∧ (names t).Nodup := by simpa [names] using hn
    by_cases hnc : n.name = c
    · have hb : (n.name == c) = true := by simpa using hnc
      have hct : c ∉ names t := hnc ▸ hnd.1
      rw [List.map_cons, map_addDem_id t c ds hct]
      simp only [allDemands, List.flatMap_cons, addDem, hb, if_true, List.append_assoc]
      exact List.Perm.append_left _ List.perm_append_comm
    · have hb : (n.name == c) = false := by simpa using hnc
      have hct : c ∈ names t := by
        have : c = n.name ∨ c ∈ names t := by simpa [names] using hc
        rcases this with h | h
        · exact absurd h.symm hnc
        · exact h
      have := ih hnd.2 hct
      rw [List.map_cons]
      simp only [allDemands, List.flatMap_cons, addDem, hb, List.append_assoc] at this ⊢
      exact List.Perm.append_left _ this

/-- **moving the demands of `j` to `c` and removing `j` permutes the demand entries of the network** -/
theorem demands_absorb (ns : List SNode) (j c : String) (nj : SNode) (hn : (names ns).Nodup)
    (hf : ns.find? (·.name == j) = some nj) (hc : c ∈ names ns) (hjc : c ≠ j) :
    (allDemands (absorbNode ns j c nj.demands)).Perm (allDemands ns) := by
  rw [absorbNode_eq]
  have hn' : (names (ns.filter (fun n => n.name != j))).Nodup := by
    unfold names; exact (List.Sublist.map _ List.filter_sublist).nodup hn
  have hc' : c ∈ names (ns.filter (fun n => n.name != j)) := by
    unfold names at hc ⊢
    obtain ⟨n, hn1, hn2⟩ := List.mem_map.mp hc
    exact List.mem_map.mpr ⟨n, List.mem_filter.mpr ⟨hn1, by simpa [hn2] using hjc⟩, hn2⟩
  exact (demands_add _ c nj.demands hn' hc').trans (demands_filter ns j nj hn hf)

/-! the same for the skeleton map -/

abbrev SMap := List (String × List String)
def keys (m : SMap) : List String := m.map Prod.fst
def flat (m : SMap) : List String := m.flatMap Prod.snd

def setEmpty (j : String) (kl : String × List String) : String × List String := if kl.1 == j then (kl.1, []) else kl
def appTo (c : String) (l : List String) (kl : String × List String) : String × List String :=
  if kl.1 == c then (kl.1, kl.2 ++ l) else kl

theorem mapMerge_eq (m : SMap) (j c : String) (hjc : c ≠ j) :
    mapMerge m j c = (m.map (setEmpty j)).map (appTo c (mapGet m j)) := by
  unfold mapMerge
  rw [List.map_map]
  apply List.map_congr_left
  intro kl _
  obtain ⟨k, l⟩ := kl
  by_cases h1 : k = j
  · subst h1
    have : (k == c) = false := by simpa using (Ne.symm hjc)
    simp [setEmpty, appTo, this]
  · have hb : (k == j) = false := by simpa using h1
    by_cases h2 : k = c
    · subst h2; simp [setEmpty, appTo, hb]
    · have hb2 : (k == c) = false := by simpa using h2
      simp [setEmpty, appTo, hb, hb2]

theorem keys_setEmpty (m : SMap) (j : String) : keys (m.map (setEmpty j)) = keys m := by
  unfold keys; rw [List.map_map]; apply List.map_congr_left; intro kl _; unfold setEmpty; simp; split <;> rfl

theorem keys_appTo (m : SMap) (c : String) (l : List String) : keys (m.map (appTo c l)) = keys m := by
  unfold keys; rw [List.map_map]; apply List.map_congr_left; intro kl _; unfold appTo; simp; split <;> rfl

theorem keys_mapMerge (m : SMap) (j c : String) : keys (mapMerge m j c) = keys m := by
  unfold keys mapMerge; rw [List.map_map]; apply List.map_congr_left; intro kl _
  obtain ⟨k, l⟩ := kl
  simp only [Function.comp]
  split
  · rfl
  · split <;> rfl

theorem map_setEmpty_id (t : SMap) (j : String) (h : j ∉ keys t) : t.map (setEmpty j) = t := by
  apply map_eq_self
  intro kl hkl
  have : kl.1 ≠ j := fun e => h (e ▸ List.mem_map_of_mem hkl)
  have hb : (kl.1 == j) = false := by simpa using this
  simp [setEmpty, hb]

theorem map_appTo_id (t : SMap) (c : String) (l : List String) (h : c ∉ keys t) : t.map (appTo c l) = t := by
  apply map_eq_self
  intro kl hkl
  have : kl.1 ≠ c := fun e => h (e ▸ List.mem_map_of_mem hkl)
  have hb : (kl.1 == c) = false := by simpa using this
  simp [appTo, hb]

theorem mapGet_cons_ne (k j : String) (l : List String) (t : SMap) (h : k ≠ j) : mapGet ((k, l) :: t) j = mapGet t j := by
  have hb : (k == j) = false := by simpa using h
  simp [mapGet, List.find?, hb]

theorem mapGet_cons_eq (k : String) (l : List String) (t : SMap) : mapGet ((k, l) :: t) k = l := by
  simp [mapGet, List.find?]

theorem flat_setEmpty (m : SMap) (j : String) (hn : (keys m).Nodup) :
    (flat (m.map (setEmpty j)) ++ mapGet m j).Perm (flat m) := by
  induction m with
  | nil => simp [flat, mapGet]
  | cons kl t ih =>
    obtain ⟨k, l⟩ := kl
    have hnd : k ∉ keys t ∧ (keys t).Nodup := by simpa [keys] using hn
    by_cases hkj : k = j
    · subst hkj
      rw [List.map_cons, map_setEmpty_id t k hnd.1, mapGet_cons_eq]
      simp only [flat, List.flatMap_cons, setEmpty, beq_self_eq_true, if_true, List.nil_append]
      exact List.perm_append_comm
    · have hb : (k == j) = false := by simpa using hkj
      rw [List.map_cons, mapGet_cons_ne k j l t hkj]
      have := ih hnd.2
      simp only [flat, List.flatMap_cons, setEmpty, hb, List.append_assoc] at this ⊢
      exact List.Perm.append_left _ this

theorem flat_appTo (m : SMap) (c : String) (l : List String) (hn : (keys m).Nodup) (hc : c ∈ keys m) :
    (flat (m.map (appTo c l))).Perm (flat m ++ l) := by
  induction m with
  | nil => simp [keys] at hc
  | cons kl t ih =>
    obtain ⟨k, l0⟩ := kl
    have hnd : k ∉ keys t ∧ (keys t).Nodup := by simpa [keys] using hn
    by_cases hkc : k = c
    · subst hkc
      rw [List.map_cons, map_appTo_id t k l hnd.1]
      simp only [flat, List.flatMap_cons, appTo, beq_self_eq_true, if_true, List.append_assoc]
      exact List.Perm.append_left _ List.perm_append_comm
    · have hb : (k == c) = false := by simpa using hkc
      have hct : c ∈ keys t := by
        have : c = k ∨ c ∈ keys t := by simpa [keys] using hc
        rcases this with h | h
        · exact absurd h.symm hkc
        · exact h
      have := ih hnd.2 hct
      rw [List.map_cons]
      simp only [flat, List.flatMap_cons, appTo, hb, List.append_assoc] at this ⊢
      exact List.Perm.append_left _ this

/-- **merging the map list of `j` into `c` permutes the flattened skeleton map** -/
theorem flat_mapMerge (m : SMap) (j c : String) (hn : (keys m).Nodup) (hc : c ∈ keys m) (hjc : c ≠ j) :
    (flat (mapMerge m j c)).Perm (flat m) := by
  rw [mapMerge_eq m j c hjc]
  have h1 := flat_appTo (m.map (setEmpty j)) c (mapGet m j) (by rw [keys_setEmpty]; exact hn) (by rw [keys_setEmpty]; exact hc)
  exact h1.trans (flat_setEmpty m j hn)

theorem name_unique (ns : List SNode) (hn : (names ns).Nodup) (a b : SNode) (ha : a ∈ ns) (hb : b ∈ ns)
    (h : a.name = b.name) : a = b := by
  induction ns with
  | nil => simp at ha
  | cons n t ih =>
    have hnd : n.name ∉ names t ∧ (names t).Nodup := by simpa [names] using hn
    rcases List.mem_cons.mp ha with ha' | ha' <;> rcases List.mem_cons.mp hb with hb' | hb'
    · rw [ha', hb']
    · subst ha'; exact absurd (h ▸ List.mem_map_of_mem hb' : a.name ∈ names t) hnd.1
    · subst hb'; exact absurd (h ▸ List.mem_map_of_mem ha' : b.name ∈ names t) hnd.1
    · exact ih hnd.2 ha' hb'

end Wntr.Morph
