/-
Lemmas about the line handling of `InpFile.read` (`Wntr.InpRead` in Model/InpText.lean).
-/
import WntrModel.Model.InpText
import Mathlib.Data.List.Basic
import Mathlib.Data.List.Perm.Basic

namespace Wntr.InpRead

/-! ### blank lines -/

theorem stepC_blank (st : RState) : stepC st .blank = st := by
  unfold stepC
  split <;> rfl

theorem readC_append (a b : List LineClass) : readC (a ++ b) = b.foldl stepC (readC a) := by
  simp [readC, List.foldl_append]

theorem lstrip_all_ws (l : List Char) (h : ∀ c ∈ l, isWs c = true) : lstrip l = [] := by
  unfold lstrip
  induction l with
  | nil => rfl
  | cons c t ih =>
    rw [List.dropWhile_cons, if_pos (h c (List.mem_cons_self ..))]
    exact ih (fun x hx => h x (List.mem_cons_of_mem _ hx))

/-- a line of white space only is a blank line, whatever the section names -/
theorem classify_blank (names : List String) (raw : List Char) (h : ∀ c ∈ raw, isWs c = true) : classify names raw = .blank := by
  have : strip raw = [] := by
    unfold strip
    rw [lstrip_all_ws raw h]
    rfl
  simp [classify, this, splitWs, splitWsAux]

/-! ### comment lines inside a section -/

theorem fieldsOf_comment (l : List Char) (h : l.head? = some ';') : fieldsOf l = none := by
  cases l with
  | nil => simp at h
  | cons c t =>
    simp only [List.head?_cons, Option.some.injEq] at h
    subst h
    simp [fieldsOf, beforeSemi, splitWs, splitWsAux]

/-- the section readers never see a comment line -/
theorem rows_ignore_comment_lines (ls : List (List Char)) :
    (ls.filter fun l => l.head? != some ';').filterMap fieldsOf = ls.filterMap fieldsOf := by
  induction ls with
  | nil => rfl
  | cons l t ih =>
    by_cases h : l.head? = some ';'
    · simp [List.filter_cons, h, fieldsOf_comment l h, ih]
    · simp only [List.filter_cons, bne_iff_ne, ne_eq, h, not_false_eq_true, decide_true, if_true, List.filterMap_cons, ih]

/-! ### the stored lines are an accumulator -/

theorem stepC_lines_acc (st : RState) (c : LineClass) :
    stepC st c = { stepC { st with lines := [] } c with lines := st.lines ++ (stepC { st with lines := [] } c).lines } := by
  obtain ⟨cur, lines, top, done, err⟩ := st
  unfold stepC
  by_cases hd : done = true <;> by_cases he : err = true <;> simp [hd, he]
  cases c with
  | blank => simp
  | header h => cases h <;> simp
  | data l =>
    cases cur with
    | none => simp only; split <;> simp
    | some s => simp

theorem foldl_lines_acc (cs : List LineClass) (st : RState) :
    cs.foldl stepC st = { cs.foldl stepC { st with lines := [] } with lines := st.lines ++ (cs.foldl stepC { st with lines := [] }).lines } := by
  induction cs generalizing st with
  | nil => simp
  | cons c t ih =>
    simp only [List.foldl_cons]
    rw [ih (stepC st c), ih (stepC { st with lines := [] } c), stepC_lines_acc st c]
    simp [List.append_assoc]

/-! ### whole sections -/

theorem foldl_body (s : String) (body : List (List Char)) (st : RState) (hd : st.done = false) (he : st.err = false) (hc : st.cur = some s) :
    (body.map LineClass.data).foldl stepC st = { st with lines := st.lines ++ body.map fun l => (s, l) } := by
  induction body generalizing st with
  | nil => simp
  | cons l t ih =>
    simp only [List.map_cons, List.foldl_cons]
    have hs : stepC st (.data l) = { st with lines := st.lines ++ [(s, l)] } := by simp [stepC, hd, he, hc]
    rw [hs, ih _ (by simpa using hd) (by simpa using he) (by simpa using hc)]
    simp [List.append_assoc]

theorem foldl_blocks (blocks : List (String × List (List Char))) (st : RState) (hd : st.done = false) (he : st.err = false) :
    ((fileOf blocks).foldl stepC st).lines = st.lines ++ blocks.flatMap (fun b => b.2.map fun l => (b.1, l)) ∧
    ((fileOf blocks).foldl stepC st).done = false ∧ ((fileOf blocks).foldl stepC st).err = false ∧
    ((fileOf blocks).foldl stepC st).top = st.top := by
  induction blocks generalizing st with
  | nil => simp [fileOf, hd, he]
  | cons b t ih =>
    simp only [fileOf, List.flatMap_cons, List.foldl_append, List.foldl_cons]
    have hs : stepC st (.header (.sec b.1)) = { st with cur := some b.1 } := by simp [stepC, hd, he]
    rw [hs, foldl_body b.1 b.2 _ (by simpa using hd) (by simpa using he) rfl]
    have := ih { st with cur := some b.1, lines := st.lines ++ b.2.map fun l => (b.1, l) } (by simpa using hd) (by simpa using he)
    simp only [fileOf] at this
    refine ⟨by rw [this.1]; simp [List.append_assoc], this.2.1, this.2.2.1, this.2.2.2⟩

theorem filter_tagged (blocks : List (String × List (List Char))) (s : String) :
    ((blocks.flatMap fun b => b.2.map fun l => (b.1, l)).filter fun p => p.1 == s).map (·.2) =
      (blocks.filter fun b => b.1 == s).flatMap (·.2) := by
  induction blocks with
  | nil => rfl
  | cons b t ih =>
    by_cases h : (b.1 == s) = true
    · simp [List.filter_cons, h, List.filter_append, ih, List.filter_map, Function.comp_def, List.filter_eq_self.mpr]
    · have h' : (b.1 == s) = false := by simpa using h
      simp [List.filter_cons, h', List.filter_append, ih, List.filter_map, Function.comp_def]

/-- **closed form**: the lines stored for a section are the bodies of its blocks, in file order -/
theorem linesOf_fileOf (blocks : List (String × List (List Char))) (s : String) :
    (readC (fileOf blocks)).linesOf s = (blocks.filter fun b => b.1 == s).flatMap (·.2) := by
  have h := (foldl_blocks blocks RState.init rfl rfl).1
  simp only [readC, RState.linesOf]
  rw [h]
  simpa [RState.init] using filter_tagged blocks s

theorem filter_key_le_one {β : Type} (l : List (String × β)) (hn : (l.map (·.1)).Nodup) (s : String) :
    (l.filter fun b => b.1 == s).length ≤ 1 := by
  induction l with
  | nil => simp
  | cons b t ih =>
    simp only [List.map_cons, List.nodup_cons] at hn
    by_cases h : (b.1 == s) = true
    · have hs : b.1 = s := by simpa using h
      have : (t.filter fun x => x.1 == s) = [] := by
        rw [List.filter_eq_nil_iff]
        intro x hx hxs
        have : x.1 = s := by simpa using hxs
        exact hn.1 (List.mem_map.mpr ⟨x, hx, by rw [this, hs]⟩)
      simp [List.filter_cons, h, this]
    · have h' : (b.1 == s) = false := by simpa using h
      simp only [List.filter_cons, h', Bool.false_eq_true, if_false]
      exact ih hn.2

theorem perm_eq_of_length_le_one {β : Type} {a b : List β} (h : a.Perm b) (hl : a.length ≤ 1) : a = b := by
  match a, hl with
  | [], _ => exact (List.perm_nil.mp h.symm).symm
  | [x], _ => exact (List.perm_singleton.mp h.symm).symm

/-! ### the section readers run in a fixed order on the stored lines -/

theorem build_congr {σ : Type} (readers : String → List (List Char) → σ → σ) (order : List String) (st st' : RState) (m0 : σ)
    (h : ∀ s ∈ order, st.linesOf s = st'.linesOf s) : build readers order st m0 = build readers order st' m0 := by
  unfold build
  induction order generalizing m0 with
  | nil => rfl
  | cons s t ih =>
    simp only [List.foldl_cons]
    rw [h s (List.mem_cons_self ..)]
    exact ih _ (fun x hx => h x (List.mem_cons_of_mem _ hx))

end Wntr.InpRead
