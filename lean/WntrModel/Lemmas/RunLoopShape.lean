/- The interpretation of the reference shape IS the hand-written loop (used by Props/C16). -/
import WntrModel.Lemmas.RunLoop

namespace Wntr.RunLoop

variable {W RN RL : Type} (wd : World W RN RL) (cfg : Cfg)

/-- a statement list runs section by section -/
theorem execS_block_append (a b : List Stmt) (m : Mach W RN RL) (hf : m.l.flow = .normal) :
    execS wd cfg (block (a ++ b)) m =
      match (execS wd cfg (block a) m).l.flow with
      | .normal => execS wd cfg (block b) (execS wd cfg (block a) m)
      | _ => execS wd cfg (block a) m := by
  induction a generalizing m with
  | nil => simp [block, execS, hf]
  | cons x a ih =>
    simp only [List.cons_append, block, execS]
    cases hx : (execS wd cfg x m).l.flow with
    | normal => simp only; exact ih _ hx
    | broke => simp [hx]
    | continued => simp [hx]
    | raised e => simp [hx]

def secPre : List Stmt := [
  .ite .notResolve (block [
      .ite .notFirst (.act (.world .updateTankHeads)) .skip,
      .act .resetTrial,
      .act .presolve]) .skip,
  .act (.world .runFeasibilityControls),
  .act (.world .updateInternalGraph),
  .act (.world .getIsolated),
  .ite .notFirstAndNotResolve (.act (.world .updateTankHeads)) .skip,
  .act (.world .updateModelForControls),
  .act (.world .sourceHeadParam),
  .act (.world .expectedDemandParam)]

def secSolve : List Stmt := [
  .act .solvePrimary,
  .ite .failedAndBackup (.act .solveBackup) .skip,
  .ite .failed (block [
      .ite .convErrAttr (.raise .noConv) .skip,
      .act .warnNoConv,
      .act .setError,
      .brk]) .skip]

def secPost : List Stmt := [
  .act (.world .storeResultsInNetwork),
  .act .runPostsolve,
  .act (.world .runFeasibilityControls),
  .ite .changed (block [
      .act (.setResolve true),
      .act (.world .updateInternalGraph),
      .act (.world .updateModelForControls),
      .act .incTrial,
      .ite .trialGtMax (block [
          .ite .convErrParam (.raise .trials) .skip,
          .act .setError,
          .act .warnTrials,
          .brk]) .skip,
      .cont]) .skip]

def secAccept : List Stmt := [
  .act (.setResolve false),
  .ite .reportNumeric
    (block [
      .act .readReportStart,
      .ite .onGrid (block [
        .act .save,
        .ite .alreadySolved (.ite .nonIntegral (.raise .subSecond) (.raise .alreadySolved)) .skip,
        .act .appendTime]) .skip])
    (.ite .reportAll (block [
        .act .save,
        .ite .alreadySolved (.raise .alreadySolved) .skip,
        .act .appendTime]) .skip),
  .act .updatePrev,
  .act .clearFirst,
  .act .advance,
  .ite .pastDuration .brk .skip]

theorem refBody_sections : refBody = block (secPre ++ (secSolve ++ (secPost ++ secAccept))) := by decide

theorem exec_secPre (s : St W RN RL) (ok ch err wt : Bool) :
    execS wd cfg (block secPre) ⟨s, ⟨ok, ch, err, wt, .normal⟩⟩ = ⟨presolvePhase wd s, ⟨ok, ch, err, wt, .normal⟩⟩ := by
  cases hr : s.resolve <;> cases hf : s.firstStep <;>
    simp [secPre, block, execS, doAct, evalCond, presolvePhase, hr, hf]

theorem exec_secSolve (s : St W RN RL) (ok ch err wt : Bool) :
    execS wd cfg (block secSolve) ⟨s, ⟨ok, ch, err, wt, .normal⟩⟩ =
      if (solvePhase wd cfg s).2.ok then ⟨(solvePhase wd cfg s).1, ⟨true, ch, err, wt, .normal⟩⟩
      else if cfg.convErr then ⟨(solvePhase wd cfg s).1, ⟨false, ch, err, wt, .raised .noConv⟩⟩
      else ⟨(solvePhase wd cfg s).1, ⟨false, ch, true, wt, .broke⟩⟩ := by
  have e : solvePhase wd cfg s =
      if (!(solveCall wd s false).2.ok && cfg.backup) = true then solveCall wd (solveCall wd s false).1 true
      else solveCall wd s false := rfl
  rw [e]
  cases h1 : (solveCall wd s false).2.ok <;> cases hb : cfg.backup <;> cases hc : cfg.convErr <;>
    simp [secSolve, block, execS, doAct, evalCond, h1, hb, hc]
  all_goals (cases h2 : (solveCall wd (solveCall wd s false).1 true).2.ok <;> simp_all)

theorem exec_secPost (s : St W RN RL) (ok ch err wt : Bool) :
    execS wd cfg (block secPost) ⟨s, ⟨ok, ch, err, wt, .normal⟩⟩ =
      if (wd.post s.w).2 then
        if s.trial + 1 > cfg.maxTrials then
          if cfg.convErr then
            ⟨{ s with w := (wd.post s.w).1, resolve := true, trial := s.trial + 1 }, ⟨ok, true, err, wt, .raised .trials⟩⟩
          else ⟨{ s with w := (wd.post s.w).1, resolve := true, trial := s.trial + 1 }, ⟨ok, true, true, true, .broke⟩⟩
        else ⟨{ s with w := (wd.post s.w).1, resolve := true, trial := s.trial + 1 }, ⟨ok, true, err, wt, .continued⟩⟩
      else ⟨{ s with w := (wd.post s.w).1 }, ⟨ok, false, err, wt, .normal⟩⟩ := by
  cases h1 : (wd.post s.w).2 <;> cases hc : cfg.convErr <;>
    by_cases ht : s.trial + 1 > cfg.maxTrials <;>
    simp [secPost, block, execS, doAct, evalCond, h1, hc, ht]

/-- the state a pass leaves behind -/
def fin (m : Mach W RN RL) : St W RN RL := { m.s with halt := haltOf m.l }

theorem exec_secAccept (s : St W RN RL) (hs : s.halt = none) (ok ch wt : Bool) :
    fin (execS wd cfg (block secAccept) ⟨s, ⟨ok, ch, false, wt, .normal⟩⟩) = acceptPhase wd cfg s := by
  by_cases hrep : cfg.report = 0
  · by_cases hal : s.times.getLast? = some s.simTime <;>
      by_cases hp : cfg.duration < s.simTime + cfg.hyd - s.simTime % cfg.hyd <;>
      simp [fin, secAccept, block, execS, doAct, evalCond, haltOf, acceptPhase, reportNow, hrep, hal, hp, hs]
  · by_cases hge : cfg.reportStart ≤ s.simTime <;>
      by_cases hg : (s.simTime - cfg.reportStart) % cfg.report = 0 <;>
      by_cases hal : s.times.getLast? = some s.simTime <;>
      by_cases hp : cfg.duration < s.simTime + cfg.hyd - s.simTime % cfg.hyd <;>
      simp [fin, secAccept, block, execS, doAct, evalCond, haltOf, acceptPhase, reportNow, hrep, hge, hg, hal, hp, hs]

theorem presolvePhase_halt (s : St W RN RL) : (presolvePhase wd s).halt = s.halt := by
  cases hr : s.resolve with
  | true => rw [presolvePhase_resolve wd hr]
  | false => rw [presolvePhase_fresh wd hr]

theorem solvePhase_halt (s : St W RN RL) : (solvePhase wd cfg s).1.halt = s.halt := by
  obtain ⟨w', l, heq, _⟩ := solvePhase_spec wd cfg s
  rw [heq]

/-- running two sections when the first one is known to end in normal flow -/
theorem exec_two (a b : List Stmt) (m : Mach W RN RL) (hf : m.l.flow = .normal) (s1 : St W RN RL) (ok ch err wt : Bool)
    (h : execS wd cfg (block a) m = ⟨s1, ⟨ok, ch, err, wt, .normal⟩⟩) :
    execS wd cfg (block (a ++ b)) m = execS wd cfg (block b) ⟨s1, ⟨ok, ch, err, wt, .normal⟩⟩ := by
  rw [execS_block_append wd cfg a b m hf, h]

/-- ... and when the first one leaves the pass -/
theorem exec_stop (a b : List Stmt) (m : Mach W RN RL) (hf : m.l.flow = .normal) (m1 : Mach W RN RL)
    (h : execS wd cfg (block a) m = m1) (hn : m1.l.flow ≠ .normal) :
    execS wd cfg (block (a ++ b)) m = m1 := by
  rw [execS_block_append wd cfg a b m hf, h]
  cases hfl : m1.l.flow with
  | normal => exact absurd hfl hn
  | broke => rfl
  | continued => rfl
  | raised e => rfl

/-- **the interpreter on the reference body is `step`** -/
theorem stepS_ref (s : St W RN RL) : stepS refShape wd cfg s = step wd cfg s := by
  cases hh : s.halt with
  | some h => simp [stepS, step, hh]
  | none =>
    rw [step_running wd cfg hh]
    have e0 : stepS refShape wd cfg s =
        fin (execS wd cfg refBody ⟨s, ⟨true, false, false, false, .normal⟩⟩) := by
      simp [stepS, hh, fin, refShape]
    rw [e0, refBody_sections, exec_two wd cfg _ _ _ rfl _ _ _ _ _ (exec_secPre wd cfg s true false false false)]
    have h2 : (solvePhase wd cfg (presolvePhase wd s)).1.halt = none := by
      rw [solvePhase_halt, presolvePhase_halt, hh]
    cases hok : (solvePhase wd cfg (presolvePhase wd s)).2.ok with
    | false =>
      cases hc : cfg.convErr with
      | true =>
        rw [exec_stop wd cfg _ _ _ rfl ⟨(solvePhase wd cfg (presolvePhase wd s)).1, ⟨false, false, false, false, .raised .noConv⟩⟩
          (by rw [exec_secSolve]; simp [hok, hc]) (by simp)]
        simp [fin, haltOf, failHalt, hc]
      | false =>
        rw [exec_stop wd cfg _ _ _ rfl ⟨(solvePhase wd cfg (presolvePhase wd s)).1, ⟨false, false, true, false, .broke⟩⟩
          (by rw [exec_secSolve]; simp [hok, hc]) (by simp)]
        simp [fin, haltOf, failHalt, hc]
    | true =>
      rw [exec_two wd cfg _ _ _ rfl (solvePhase wd cfg (presolvePhase wd s)).1 true false false false
        (by rw [exec_secSolve]; simp [hok])]
      simp only [if_true, postPhase]
      cases hp : (wd.post (solvePhase wd cfg (presolvePhase wd s)).1.w).2 with
      | false =>
        rw [exec_two wd cfg _ _ _ rfl _ true false false false (by rw [exec_secPost]; simp [hp]; rfl)]
        simp only [Bool.false_eq_true, if_false]
        exact exec_secAccept wd cfg
          { (solvePhase wd cfg (presolvePhase wd s)).1 with w := (wd.post (solvePhase wd cfg (presolvePhase wd s)).1.w).1 }
          h2 true false false
      | true =>
        simp only [if_true]
        by_cases ht : (solvePhase wd cfg (presolvePhase wd s)).1.trial + 1 > cfg.maxTrials
        · cases hc : cfg.convErr with
          | true =>
            rw [exec_stop wd cfg _ _ _ rfl ⟨{ (solvePhase wd cfg (presolvePhase wd s)).1 with w := (wd.post (solvePhase wd cfg (presolvePhase wd s)).1.w).1, resolve := true, trial := (solvePhase wd cfg (presolvePhase wd s)).1.trial + 1 }, ⟨true, true, false, false, .raised .trials⟩⟩
              (by rw [exec_secPost]; simp [hp, ht, hc]) (by simp)]
            simp [fin, haltOf, trialHalt, hc, ht]
          | false =>
            rw [exec_stop wd cfg _ _ _ rfl ⟨{ (solvePhase wd cfg (presolvePhase wd s)).1 with w := (wd.post (solvePhase wd cfg (presolvePhase wd s)).1.w).1, resolve := true, trial := (solvePhase wd cfg (presolvePhase wd s)).1.trial + 1 }, ⟨true, true, true, true, .broke⟩⟩
              (by rw [exec_secPost]; simp [hp, ht, hc]) (by simp)]
            simp [fin, haltOf, trialHalt, hc, ht]
        · rw [exec_stop wd cfg _ _ _ rfl ⟨{ (solvePhase wd cfg (presolvePhase wd s)).1 with w := (wd.post (solvePhase wd cfg (presolvePhase wd s)).1.w).1, resolve := true, trial := (solvePhase wd cfg (presolvePhase wd s)).1.trial + 1 }, ⟨true, true, false, false, .continued⟩⟩
            (by rw [exec_secPost]; simp [hp, ht]) (by simp)]
          simp [fin, haltOf, ht, h2]

theorem iterS_ref (n : Nat) (s : St W RN RL) : iterS refShape wd cfg n s = iter wd cfg n s := by
  induction n generalizing s with
  | zero => rfl
  | succ n ih => rw [iterS, iter, stepS_ref, ih]

theorem enterS_ref (w : W) (simTime prevTime : Int) :
    enterS (RN := RN) (RL := RL) refShape cfg w simTime prevTime = enter cfg w simTime prevTime := by
  simp [enterS, enter, refShape, init]

/-- **the interpretation of the reference shape is `runSim`** -/
theorem runSimS_ref (w : W) (simTime prevTime : Int) :
    runSimS refShape wd cfg w simTime prevTime = runSim wd cfg w simTime prevTime := by
  unfold runSimS runSim
  rw [enterS_ref]
  exact iterS_ref wd cfg _ _

end Wntr.RunLoop
