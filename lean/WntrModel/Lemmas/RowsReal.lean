/-
The real-number instance of `Wntr.Aml.Ops` (theorems of C07/C08 are stated at ℝ; `pow` is `Real.rpow`,
which agrees with the C `pow` wherever the rows use it: natural-number exponents on any base, real
exponents on positive bases), and the simp lemmas that unfold it.
-/
import WntrModel.Model.Rows
import Mathlib.Analysis.SpecialFunctions.Pow.Real
import Mathlib.Analysis.SpecialFunctions.Trigonometric.Inverse
import Mathlib.Analysis.SpecialFunctions.Trigonometric.Arctan
import Mathlib.Tactic.Ring
import Mathlib.Tactic.FieldSimp
import Mathlib.Tactic.Linarith
import Mathlib.Tactic.Positivity
import Mathlib.Tactic.NormNum

namespace Wntr.Rows
open Wntr.Aml

noncomputable section

def realOps : Ops ℝ where
  ofRat q := (q : ℝ)
  add := (· + ·)
  sub := (· - ·)
  mul := (· * ·)
  div := (· / ·)
  pow := fun x y => x ^ y
  neg := fun x => -x
  abs := fun x => |x|
  sign := fun x => if 0 ≤ x then 1 else -1
  exp := Real.exp
  log := Real.log
  sin := Real.sin
  cos := Real.cos
  tan := Real.tan
  asin := Real.arcsin
  acos := Real.arccos
  atan := Real.arctan
  le := fun a b => decide (a ≤ b)
  isOne := fun x => decide (x = 1)

@[simp] theorem realOps_add (a b : ℝ) : realOps.add a b = a + b := rfl
@[simp] theorem realOps_sub (a b : ℝ) : realOps.sub a b = a - b := rfl
@[simp] theorem realOps_mul (a b : ℝ) : realOps.mul a b = a * b := rfl
@[simp] theorem realOps_div (a b : ℝ) : realOps.div a b = a / b := rfl
@[simp] theorem realOps_pow (a b : ℝ) : realOps.pow a b = a ^ b := rfl
@[simp] theorem realOps_neg (a : ℝ) : realOps.neg a = -a := rfl
@[simp] theorem realOps_ofRat (q : ℚ) : realOps.ofRat q = (q : ℝ) := rfl
@[simp] theorem realOps_le (a b : ℝ) : realOps.le a b = decide (a ≤ b) := rfl
@[simp] theorem realOps_isOne (a : ℝ) : realOps.isOne a = decide (a = 1) := rfl

theorem isOne_ofBool (b : Bool) : realOps.isOne (realOps.ofBool b) = b := by
  cases b <;> simp [Ops.ofBool]

theorem rpow_three (x : ℝ) : x ^ ((3 : ℚ) : ℝ) = x ^ 3 := by
  have : ((3 : ℚ) : ℝ) = ((3 : ℕ) : ℝ) := by norm_num
  rw [this, Real.rpow_natCast]

theorem rpow_two (x : ℝ) : x ^ ((2 : ℚ) : ℝ) = x ^ 2 := by
  have : ((2 : ℚ) : ℝ) = ((2 : ℕ) : ℝ) := by norm_num
  rw [this, Real.rpow_natCast]

end

end Wntr.Rows
