/-
`EnginesTree` — the mathematics behind the engine-comparison certificate of C03 (`Model/Engines.lean`).

On a tree-shaped network (`Peelable`) a state that satisfies every mass-balance row and every link row within
`tol` is determined by the rows up to an explicit multiple of `tol`:
  * `tree_flow_bound` / `certificate_sound_flows(_dd)`: link flows are determined by the node imbalances;
  * `tree_potential_bound` / `certificate_sound_heads`: junction heads are determined along the paths from the
    fixed-head nodes (given a Lipschitz bound of the head-loss laws);
  * `tree_exact_unique`: `tol = 0` ⇒ equal flows and heads, no hypothesis on the head-loss laws;
  * `looped_exact_unique_flows`: on ANY network, exact solutions of strictly increasing head-loss laws have equal flows.
-/
import WntrModel.Model.Engines
import Mathlib.Tactic.Ring
import Mathlib.Tactic.Linarith
import Mathlib.Tactic.Positivity
import Mathlib.Tactic.NormNum
import Mathlib.Algebra.Order.Field.Rat
import Mathlib.Algebra.Order.AbsoluteValue.Basic
import Mathlib.Data.List.Basic

namespace Wntr.Engines

/-! ### `sumR` -/

theorem sumR_nonneg (L : List Rat) (h0 : ∀ x ∈ L, 0 ≤ x) : 0 ≤ sumR L := by
  induction L with
  | nil => simp [sumR]
  | cons y t ih =>
    simp only [sumR]
    have h1 := h0 y (List.mem_cons.2 (Or.inl rfl))
    have h2 := ih (fun x hx => h0 x (List.mem_cons.2 (Or.inr hx)))
    linarith

theorem sumR_map_nonneg (L : List Nat) (c : Nat → Rat) (hc : ∀ j ∈ L, 0 ≤ c j) : 0 ≤ sumR (L.map c) := by
  apply sumR_nonneg
  intro x hx
  obtain ⟨j, hj, rfl⟩ := List.mem_map.1 hx
  exact hc j hj

theorem sumR_eq_zero_of_nonneg (L : List Rat) (h0 : ∀ x ∈ L, 0 ≤ x) (hs : sumR L = 0) : ∀ x ∈ L, x = 0 := by
  induction L with
  | nil => intro x hx; cases hx
  | cons y t ih =>
    have hy := h0 y (List.mem_cons.2 (Or.inl rfl))
    have ht0 : ∀ x ∈ t, 0 ≤ x := fun x hx => h0 x (List.mem_cons.2 (Or.inr hx))
    have hts := sumR_nonneg t ht0
    simp only [sumR] at hs
    intro x hx
    rcases List.mem_cons.1 hx with rfl | hx
    · linarith
    · exact ih ht0 (by linarith) x hx

theorem sumR_map_bump_not_mem (L : List Nat) (c : Nat → Rat) (u : Nat) (a : Rat) (hu : u ∉ L) :
    sumR (L.map (fun j => if j = u then c j + a else c j)) = sumR (L.map c) := by
  induction L with
  | nil => rfl
  | cons x t ih =>
    have hx : x ≠ u := fun h => hu (List.mem_cons.2 (Or.inl h.symm))
    have ht : u ∉ t := fun h => hu (List.mem_cons.2 (Or.inr h))
    simp only [List.map_cons, sumR, if_neg hx, ih ht]

theorem sumR_map_bump_le (L : List Nat) (hL : L.Nodup) (c : Nat → Rat) (u : Nat) (a : Rat) (ha : 0 ≤ a) :
    sumR (L.map (fun j => if j = u then c j + a else c j)) ≤ sumR (L.map c) + a := by
  induction L with
  | nil => simpa [sumR] using ha
  | cons x t ih =>
    rw [List.nodup_cons] at hL
    by_cases hx : x = u
    · have ht : u ∉ t := hx ▸ hL.1
      simp only [List.map_cons, sumR, if_pos hx, sumR_map_bump_not_mem t c u a ht]
      linarith
    · have := ih hL.2
      simp only [List.map_cons, sumR, if_neg hx]
      linarith

theorem sumR_map_const_on (L : List Nat) (f : Nat → Rat) (a : Rat) (h : ∀ j ∈ L, f j = a) :
    sumR (L.map f) = a * (L.length : Rat) := by
  induction L with
  | nil => simp [sumR]
  | cons x t ih =>
    simp only [List.map_cons, sumR, List.length_cons, Nat.cast_succ]
    rw [h x (List.mem_cons.2 (Or.inl rfl)), ih (fun j hj => h j (List.mem_cons.2 (Or.inr hj)))]
    ring

theorem sumR_map_congr (L : List Nat) (f g : Nat → Rat) (h : ∀ j ∈ L, f j = g j) :
    sumR (L.map f) = sumR (L.map g) := by
  induction L with
  | nil => rfl
  | cons x t ih =>
    simp only [List.map_cons, sumR]
    rw [h x (List.mem_cons.2 (Or.inl rfl)), ih (fun j hj => h j (List.mem_cons.2 (Or.inr hj)))]

theorem sumR_map_add (L : List Nat) (f g : Nat → Rat) :
    sumR (L.map (fun j => f j + g j)) = sumR (L.map f) + sumR (L.map g) := by
  induction L with
  | nil => simp [sumR]
  | cons x t ih => simp only [List.map_cons, sumR, ih]; ring

theorem sumR_map_sub (L : List Nat) (f g : Nat → Rat) :
    sumR (L.map (fun j => f j - g j)) = sumR (L.map f) - sumR (L.map g) := by
  induction L with
  | nil => simp [sumR]
  | cons x t ih => simp only [List.map_cons, sumR, ih]; ring

/-- `Σ_{j ∈ L} g j · [a = j] x` over a duplicate-free list -/
theorem sumR_map_indicator (L : List Nat) (hL : L.Nodup) (g : Nat → Rat) (a : Nat) (x : Rat) :
    sumR (L.map (fun j => g j * (if a = j then x else 0))) = if a ∈ L then g a * x else 0 := by
  induction L with
  | nil => simp [sumR]
  | cons y t ih =>
    rw [List.nodup_cons] at hL
    simp only [List.map_cons, sumR, ih hL.2, List.mem_cons]
    by_cases hay : a = y
    · subst hay
      simp [hL.1]
    · by_cases hat : a ∈ t <;> simp [hay, hat]

/-! ### `contrib` and `inflow` -/

theorem contrib_sub (l : Link) (x y : Rat) (j : Nat) :
    contrib l (x - y) j = contrib l x j - contrib l y j := by
  unfold contrib; split_ifs <;> ring

/-- linearity of the net inflow in the link flows -/
theorem inflow_sub (links : List Link) (q1 q2 : Nat → Rat) (j : Nat) :
    inflow links (fun i => q1 i - q2 i) j = inflow links q1 j - inflow links q2 j := by
  induction links with
  | nil => simp [inflow]
  | cons l rest ih => simp only [inflow, ih, contrib_sub]; ring

theorem abs_contrib_le (e : Link) (x : Rat) (j : Nat) : |contrib e x j| ≤ |x| := by
  by_cases h1 : e.stop = j <;> by_cases h2 : e.start = j <;> simp [contrib, h1, h2]

theorem abs_contrib_end {e : Link} {v : Nat} (hev : e.start = v ∨ e.stop = v) (hne : e.start ≠ e.stop)
    (x : Rat) : |contrib e x v| = |x| := by
  rcases hev with h | h
  · have h' : e.stop ≠ v := fun h2 => hne (h.trans h2.symm)
    simp [contrib, h, h']
  · have h' : e.start ≠ v := fun h2 => hne (h2.trans h.symm)
    simp [contrib, h, h']

theorem contrib_other {e : Link} {j : Nat} (h1 : j ≠ e.start) (h2 : j ≠ e.stop) (x : Rat) :
    contrib e x j = 0 := by
  simp [contrib, Ne.symm h1, Ne.symm h2]

/-- a node that no link touches has no inflow -/
theorem inflow_untouched (rest : List Link) (δ : Nat → Rat) (v : Nat)
    (h : ∀ l ∈ rest, l.start ≠ v ∧ l.stop ≠ v) : inflow rest δ v = 0 := by
  induction rest with
  | nil => rfl
  | cons l t ih =>
    have hl := h l (List.mem_cons.2 (Or.inl rfl))
    simp only [inflow, ih (fun l' hl' => h l' (List.mem_cons.2 (Or.inr hl'))),
      contrib_other (Ne.symm hl.1) (Ne.symm hl.2), add_zero]

/-! ### peeling orders -/

theorem Peelable.nodup {links : List Link} {nodes : List Nat} (hp : Peelable links nodes) : nodes.Nodup := by
  induction hp with
  | nil => exact List.nodup_nil
  | cons e v rest nodes _ _ _ hv _ ih => exact List.nodup_cons.2 ⟨hv, ih⟩

theorem Peelable.length_eq {links : List Link} {nodes : List Nat} (hp : Peelable links nodes) :
    links.length = nodes.length := by
  induction hp with
  | nil => rfl
  | cons e v rest nodes _ _ _ _ _ ih => simp [ih]

/-- the 3-node tree  reservoir 0 — junction 1 — junction 2  is peelable (leaf 2 first, then 1) -/
theorem peelable_example : Peelable [⟨11, 1, 2⟩, ⟨10, 0, 1⟩] [2, 1] :=
  Peelable.cons ⟨11, 1, 2⟩ 2 [⟨10, 0, 1⟩] [1] (Or.inr rfl) (by decide) (by simp) (by decide)
    (Peelable.cons ⟨10, 0, 1⟩ 1 [] [] (Or.inr rfl) (by decide) (by simp) (by simp) Peelable.nil)

/-- **flows on a tree are determined by the node imbalances** -/
theorem tree_flow_bound {links : List Link} {nodes : List Nat} (hp : Peelable links nodes)
    (δ : Nat → Rat) (c : Nat → Rat) (hc : ∀ j, 0 ≤ c j)
    (himb : ∀ j ∈ nodes, |inflow links δ j| ≤ c j) :
    ∀ l ∈ links, |δ l.id| ≤ sumR (nodes.map c) := by
  induction hp generalizing c with
  | nil => intro l hl; cases hl
  | cons e v rest nodes hev hne hrest hv hp ih =>
    -- the flow of the leaf link
    have hleaf : |δ e.id| ≤ c v := by
      have h := himb v (List.mem_cons.2 (Or.inl rfl))
      simp only [inflow, inflow_untouched rest δ v hrest, add_zero, abs_contrib_end hev hne] at h
      exact h
    -- the other end of the leaf link
    let u : Nat := if e.start = v then e.stop else e.start
    have hu : ∀ j, j ≠ v → j ≠ u → j ≠ e.start ∧ j ≠ e.stop := by
      intro j hjv hju
      by_cases hs : e.start = v
      · have : u = e.stop := if_pos hs
        exact ⟨hs ▸ hjv, this ▸ hju⟩
      · have hu' : u = e.start := if_neg hs
        have hst : e.stop = v := hev.resolve_left hs
        exact ⟨hu' ▸ hju, hst ▸ hjv⟩
    let c' : Nat → Rat := fun j => if j = u then c j + c v else c j
    have hc' : ∀ j, 0 ≤ c' j := by
      intro j
      show 0 ≤ (if j = u then c j + c v else c j)
      split_ifs
      · have := hc j; have := hc v; linarith
      · exact hc j
    have himb' : ∀ j ∈ nodes, |inflow rest δ j| ≤ c' j := by
      intro j hj
      have hjv : j ≠ v := fun h => hv (h ▸ hj)
      have h := himb j (List.mem_cons.2 (Or.inr hj))
      simp only [inflow] at h
      show _ ≤ (if j = u then c j + c v else c j)
      by_cases hju : j = u
      · rw [if_pos hju]
        have hcb := abs_contrib_le e (δ e.id) j
        rw [abs_le] at h hcb ⊢
        constructor <;> linarith [hcb.1, hcb.2, h.1, h.2, hleaf]
      · rw [if_neg hju]
        have h0 := contrib_other (hu j hjv hju).1 (hu j hjv hju).2 (δ e.id)
        rw [h0, zero_add] at h
        exact h
    have hrec := ih c' hc' himb'
    have hsum : sumR (nodes.map c') ≤ sumR (nodes.map c) + c v :=
      sumR_map_bump_le nodes hp.nodup c u (c v) (hc v)
    intro l hl
    simp only [List.map_cons, sumR]
    rcases List.mem_cons.1 hl with rfl | hl
    · have := sumR_map_nonneg nodes c (fun j _ => hc j)
      linarith
    · have := hrec l hl
      linarith

/-- non-vacuity of `tree_flow_bound` on the 3-node tree: imbalance `1` at junction 2 and `3` at junction 1
bounds both link flows by `4` -/
example (δ : Nat → Rat)
    (h2 : |inflow [⟨11, 1, 2⟩, ⟨10, 0, 1⟩] δ 2| ≤ 1) (h1 : |inflow [⟨11, 1, 2⟩, ⟨10, 0, 1⟩] δ 1| ≤ 3) :
    |δ 11| ≤ 4 ∧ |δ 10| ≤ 4 := by
  have h := tree_flow_bound peelable_example δ (fun j => if j = 2 then 1 else 3)
    (by intro j; split_ifs <;> norm_num)
    (by
      intro j hj
      simp only [List.mem_cons, List.not_mem_nil, or_false] at hj
      rcases hj with rfl | rfl
      · simpa using h2
      · simpa using h1)
  have e : sumR ([2, 1].map (fun j : Nat => if j = 2 then (1 : Rat) else 3)) = 4 := by
    norm_num [sumR]
  rw [e] at h
  exact ⟨h ⟨11, 1, 2⟩ (by simp), h ⟨10, 0, 1⟩ (by simp)⟩

/-- **heads on a tree are determined along the paths from the fixed-head nodes** -/
theorem tree_potential_bound {links : List Link} {nodes : List Nat} (hp : Peelable links nodes)
    (g : Nat → Rat) (B : Rat) (hB : 0 ≤ B)
    (hfix : ∀ j, j ∉ nodes → g j = 0)
    (hlink : ∀ l ∈ links, |g l.start - g l.stop| ≤ B) :
    ∀ j ∈ nodes, |g j| ≤ (nodes.length : Rat) * B := by
  induction hp generalizing g with
  | nil => intro j hj; cases hj
  | cons e v rest nodes hev hne hrest hv hp ih =>
    let g' : Nat → Rat := fun j => if j = v then 0 else g j
    have hg' : ∀ j, j ≠ v → g' j = g j := fun j hj => if_neg hj
    have hfix' : ∀ j, j ∉ nodes → g' j = 0 := by
      intro j hj
      by_cases hjv : j = v
      · exact if_pos hjv
      · rw [hg' j hjv]
        exact hfix j (fun h => (List.mem_cons.1 h).elim hjv hj)
    have hlink' : ∀ l ∈ rest, |g' l.start - g' l.stop| ≤ B := by
      intro l hl
      rw [hg' _ (hrest l hl).1, hg' _ (hrest l hl).2]
      exact hlink l (List.mem_cons.2 (Or.inr hl))
    have hrec := ih g' hfix' hlink'
    have hn : (0 : Rat) ≤ (nodes.length : Rat) * B := mul_nonneg (Nat.cast_nonneg _) hB
    have hlen : (((v :: nodes).length : Nat) : Rat) * B = (nodes.length : Rat) * B + B := by
      simp only [List.length_cons, Nat.cast_succ]; ring
    -- every node other than `v` is within `nodes.length * B`
    have hother : ∀ u, u ≠ v → |g u| ≤ (nodes.length : Rat) * B := by
      intro u huv
      by_cases hun : u ∈ nodes
      · have := hrec u hun
        rwa [hg' u huv] at this
      · rw [hfix u (fun h => (List.mem_cons.1 h).elim huv hun)]
        simpa using hn
    -- `v` is one link away from such a node
    have hvb : |g v| ≤ (nodes.length : Rat) * B + B := by
      have he := hlink e (List.mem_cons.2 (Or.inl rfl))
      rcases hev with h | h
      · have hu := hother e.stop (fun h2 => hne (h.trans h2.symm))
        rw [h] at he
        rw [abs_le] at he hu ⊢
        constructor <;> linarith [he.1, he.2, hu.1, hu.2]
      · have hu := hother e.start (fun h2 => hne (h2.trans h.symm))
        rw [h] at he
        rw [abs_le] at he hu ⊢
        constructor <;> linarith [he.1, he.2, hu.1, hu.2]
    intro j hj
    rw [hlen]
    rcases List.mem_cons.1 hj with rfl | hj
    · exact hvb
    · have hjv : j ≠ v := fun h => hv (h ▸ hj)
      have := hother j hjv
      linarith

/-! ### the certificate -/

theorem within_abs {tol r : Rat} (h : Within tol r) : |r| ≤ tol := abs_le.2 h

theorem within_zero {r : Rat} (h : Within 0 r) : r = 0 := by
  have h1 := h.1; have h2 := h.2
  simp only [neg_zero] at h1
  exact le_antisymm h2 h1

/-- **engine-comparison certificate, flows**: two states that both satisfy every row of a tree network within
`tol` carry flows that differ by at most the accumulated row tolerances and demand differences. -/
theorem certificate_sound_flows (net : Net) (law : Nat → LinkLaw) (tol : Rat) (s1 s2 : St)
    (hp : Peelable net.links net.juncs) (htol : 0 ≤ tol)
    (h1 : IsSolution net law tol s1) (h2 : IsSolution net law tol s2) :
    ∀ l ∈ net.links, |s1.q l.id - s2.q l.id| ≤
      sumR (net.juncs.map (fun j => 2 * tol + |s1.d j - s2.d j|)) := by
  have h := tree_flow_bound hp (fun i => s1.q i - s2.q i) (fun j => 2 * tol + |s1.d j - s2.d j|)
    (by intro j; have := abs_nonneg (s1.d j - s2.d j); linarith)
    (by
      intro j hj
      rw [inflow_sub]
      have a1 := h1.1 j hj
      have a2 := h2.1 j hj
      unfold Within mbRes at a1 a2
      have b1 := le_abs_self (s1.d j - s2.d j)
      have b2 := neg_abs_le (s1.d j - s2.d j)
      rw [abs_le]
      constructor <;> linarith [a1.1, a1.2, a2.1, a2.2])
  exact h

/-- equal demands (demand-driven analysis of the same model): the flows agree within `2·tol` per junction -/
theorem certificate_sound_flows_dd (net : Net) (law : Nat → LinkLaw) (tol : Rat) (s1 s2 : St)
    (hp : Peelable net.links net.juncs) (htol : 0 ≤ tol)
    (h1 : IsSolution net law tol s1) (h2 : IsSolution net law tol s2)
    (hd : ∀ j ∈ net.juncs, s1.d j = s2.d j) :
    ∀ l ∈ net.links, |s1.q l.id - s2.q l.id| ≤ 2 * tol * (net.juncs.length : Rat) := by
  have h := certificate_sound_flows net law tol s1 s2 hp htol h1 h2
  rw [sumR_map_const_on net.juncs _ (2 * tol) (by intro j hj; simp [hd j hj])] at h
  exact h

/-- non-vacuity of the certificate theorems: an exact solution of the 3-node tree with linear head loss -/
example : ∃ (net : Net) (law : Nat → LinkLaw) (s : St),
    Peelable net.links net.juncs ∧ IsSolution net law 0 s ∧ s.q 10 = 3 ∧ s.q 11 = 2 := by
  refine ⟨⟨[⟨11, 1, 2⟩, ⟨10, 0, 1⟩], [2, 1]⟩, fun _ => .loss (fun q => q),
    ⟨fun i => if i = 10 then 3 else 2,
     fun j => if j = 0 then 10 else if j = 1 then 7 else 5,
     fun j => if j = 1 then 1 else 2⟩, peelable_example, ⟨?_, ?_⟩, by simp, by simp⟩
  · intro j hj
    simp only [List.mem_cons, List.not_mem_nil, or_false] at hj
    rcases hj with rfl | rfl <;> norm_num [Within, mbRes, inflow, contrib]
  · intro l hl
    simp only [List.mem_cons, List.not_mem_nil, or_false] at hl
    rcases hl with rfl | rfl <;> norm_num [Within, linkRes]

theorem linkRes_loss {law : Nat → LinkLaw} {s : St} {l : Link} {φ : Rat → Rat} (h : law l.id = .loss φ) :
    linkRes law s l = s.h l.start - s.h l.stop - φ (s.q l.id) := by
  unfold linkRes; rw [h]

theorem linkRes_closed {law : Nat → LinkLaw} {s : St} {l : Link} (h : law l.id = .closed) :
    linkRes law s l = s.q l.id := by
  unfold linkRes; rw [h]

/-- **engine-comparison certificate, heads**: with no closed link and a Lipschitz bound `K` of every head-loss law,
flows within `Δ` give junction heads within `(2·tol + K·Δ)` per junction on the path to a fixed-head node. -/
theorem certificate_sound_heads (net : Net) (law : Nat → LinkLaw) (tol K Δ : Rat) (s1 s2 : St)
    (hp : Peelable net.links net.juncs) (htol : 0 ≤ tol) (hK : 0 ≤ K) (hΔ : 0 ≤ Δ)
    (h1 : IsSolution net law tol s1) (h2 : IsSolution net law tol s2)
    (hfix : ∀ j, j ∉ net.juncs → s1.h j = s2.h j)
    (hq : ∀ l ∈ net.links, |s1.q l.id - s2.q l.id| ≤ Δ)
    (hlip : ∀ l ∈ net.links, ∃ φ, law l.id = .loss φ ∧ ∀ a b, |φ a - φ b| ≤ K * |a - b|) :
    ∀ j ∈ net.juncs, |s1.h j - s2.h j| ≤ (net.juncs.length : Rat) * (2 * tol + K * Δ) := by
  have h := tree_potential_bound hp (fun j => s1.h j - s2.h j) (2 * tol + K * Δ)
    (by have := mul_nonneg hK hΔ; linarith)
    (by intro j hj; simp [hfix j hj])
    (by
      intro l hl
      obtain ⟨φ, hφ, hL⟩ := hlip l hl
      have a1 := h1.2 l hl
      have a2 := h2.2 l hl
      rw [linkRes_loss hφ] at a1 a2
      unfold Within at a1 a2
      have b := hL (s1.q l.id) (s2.q l.id)
      have b' : K * |s1.q l.id - s2.q l.id| ≤ K * Δ := mul_le_mul_of_nonneg_left (hq l hl) hK
      rw [abs_le] at b
      show |s1.h l.start - s2.h l.start - (s1.h l.stop - s2.h l.stop)| ≤ _
      rw [abs_le]
      constructor <;> linarith [a1.1, a1.2, a2.1, a2.2, b.1, b.2])
  exact h

/-- **`tol = 0`**: two exact solutions of a tree network with the same demands and the same fixed heads have equal
flows on every link and — if no link is closed — equal heads at every junction, whatever the head-loss laws are. -/
theorem tree_exact_unique (net : Net) (law : Nat → LinkLaw) (s1 s2 : St)
    (hp : Peelable net.links net.juncs)
    (h1 : IsSolution net law 0 s1) (h2 : IsSolution net law 0 s2)
    (hd : ∀ j ∈ net.juncs, s1.d j = s2.d j)
    (hfix : ∀ j, j ∉ net.juncs → s1.h j = s2.h j) :
    (∀ l ∈ net.links, s1.q l.id = s2.q l.id) ∧
    ((∀ l ∈ net.links, law l.id ≠ .closed) → ∀ j ∈ net.juncs, s1.h j = s2.h j) := by
  have hflow : ∀ l ∈ net.links, s1.q l.id = s2.q l.id := by
    intro l hl
    have h := certificate_sound_flows_dd net law 0 s1 s2 hp le_rfl h1 h2 hd l hl
    simp only [mul_zero, zero_mul] at h
    exact sub_eq_zero.1 (abs_nonpos_iff.1 h)
  refine ⟨hflow, fun hopen => ?_⟩
  have h := tree_potential_bound hp (fun j => s1.h j - s2.h j) 0 le_rfl
    (by intro j hj; simp [hfix j hj])
    (by
      intro l hl
      cases hlaw : law l.id with
      | closed => exact absurd hlaw (hopen l hl)
      | loss φ =>
        have a1 := within_zero (h1.2 l hl)
        have a2 := within_zero (h2.2 l hl)
        rw [linkRes_loss hlaw] at a1 a2
        rw [hflow l hl] at a1
        show |s1.h l.start - s2.h l.start - (s1.h l.stop - s2.h l.stop)| ≤ 0
        have : s1.h l.start - s2.h l.start - (s1.h l.stop - s2.h l.stop) = 0 := by linarith
        rw [this, abs_zero])
  intro j hj
  have := h j hj
  simp only [mul_zero] at this
  exact sub_eq_zero.1 (abs_nonpos_iff.1 this)

/-! ### looped networks: uniqueness of the flows for strictly increasing head-loss laws -/

/-- summation by parts: `Σ_l δ_l (g start_l − g stop_l) = − Σ_j g_j · inflow_j` -/
theorem sum_by_parts (links : List Link) (allNodes : List Nat) (hnd : allNodes.Nodup)
    (hends : ∀ l ∈ links, l.start ∈ allNodes ∧ l.stop ∈ allNodes) (δ g : Nat → Rat) :
    sumR (links.map (fun l => δ l.id * (g l.start - g l.stop))) =
      - sumR (allNodes.map (fun j => g j * inflow links δ j)) := by
  induction links with
  | nil =>
    have : sumR (allNodes.map (fun j => g j * inflow [] δ j)) = 0 := by
      rw [sumR_map_const_on allNodes _ 0 (by intro j _; simp [inflow])]; ring
    rw [this]; simp [sumR]
  | cons l rest ih =>
    have hl := hends l (List.mem_cons.2 (Or.inl rfl))
    have ih' := ih (fun l' hl' => hends l' (List.mem_cons.2 (Or.inr hl')))
    have hsplit : sumR (allNodes.map (fun j => g j * inflow (l :: rest) δ j)) =
        (sumR (allNodes.map (fun j => g j * (if l.stop = j then δ l.id else 0)))
          - sumR (allNodes.map (fun j => g j * (if l.start = j then δ l.id else 0))))
        + sumR (allNodes.map (fun j => g j * inflow rest δ j)) := by
      rw [← sumR_map_sub, ← sumR_map_add]
      apply sumR_map_congr
      intro j _
      simp only [inflow, contrib]
      ring
    rw [hsplit, sumR_map_indicator _ hnd, sumR_map_indicator _ hnd, if_pos hl.1, if_pos hl.2]
    simp only [List.map_cons, sumR, ih']
    ring

/-- **classical uniqueness on any network (loops allowed)**: exact solutions with the same demands and fixed heads,
every link closed or with a strictly increasing head-loss law, carry the same flow on every link. -/
theorem looped_exact_unique_flows (net : Net) (law : Nat → LinkLaw) (s1 s2 : St) (allNodes : List Nat)
    (hnd : allNodes.Nodup)
    (hends : ∀ l ∈ net.links, l.start ∈ allNodes ∧ l.stop ∈ allNodes)
    (h1 : IsSolution net law 0 s1) (h2 : IsSolution net law 0 s2)
    (hd : ∀ j ∈ net.juncs, s1.d j = s2.d j)
    (hfix : ∀ j ∈ allNodes, j ∉ net.juncs → s1.h j = s2.h j)
    (hmono : ∀ l ∈ net.links, law l.id = .closed ∨
      ∃ φ, law l.id = .loss φ ∧ ∀ a b, a < b → φ a < φ b) :
    ∀ l ∈ net.links, s1.q l.id = s2.q l.id := by
  let δ : Nat → Rat := fun i => s1.q i - s2.q i
  let g : Nat → Rat := fun j => s1.h j - s2.h j
  -- every summand of the left side is `≥ 0` and vanishes only if the flows agree
  have hterm : ∀ l ∈ net.links, 0 ≤ δ l.id * (g l.start - g l.stop) ∧
      (δ l.id * (g l.start - g l.stop) = 0 → s1.q l.id = s2.q l.id) := by
    intro l hl
    have a1 := within_zero (h1.2 l hl)
    have a2 := within_zero (h2.2 l hl)
    rcases hmono l hl with hc | ⟨φ, hφ, hm⟩
    · rw [linkRes_closed hc] at a1 a2
      have : δ l.id = 0 := by show s1.q l.id - s2.q l.id = 0; rw [a1, a2]; ring
      rw [this]
      exact ⟨by simp, fun _ => by rw [a1, a2]⟩
    · rw [linkRes_loss hφ] at a1 a2
      have hg : g l.start - g l.stop = φ (s1.q l.id) - φ (s2.q l.id) := by
        show s1.h l.start - s2.h l.start - (s1.h l.stop - s2.h l.stop) = _
        linarith
      rw [hg]
      show 0 ≤ (s1.q l.id - s2.q l.id) * _ ∧ ((s1.q l.id - s2.q l.id) * _ = 0 → _)
      rcases lt_trichotomy (s1.q l.id) (s2.q l.id) with hlt | heq | hgt
      · have := hm _ _ hlt
        have hpos : 0 < (s1.q l.id - s2.q l.id) * (φ (s1.q l.id) - φ (s2.q l.id)) :=
          mul_pos_of_neg_of_neg (by linarith) (by linarith)
        exact ⟨le_of_lt hpos, fun h0 => absurd h0 (ne_of_gt hpos)⟩
      · exact ⟨by rw [heq]; simp, fun _ => heq⟩
      · have := hm _ _ hgt
        have hpos : 0 < (s1.q l.id - s2.q l.id) * (φ (s1.q l.id) - φ (s2.q l.id)) :=
          mul_pos (by linarith) (by linarith)
        exact ⟨le_of_lt hpos, fun h0 => absurd h0 (ne_of_gt hpos)⟩
  -- the right side vanishes
  have hrhs : sumR (allNodes.map (fun j => g j * inflow net.links δ j)) = 0 := by
    rw [sumR_map_const_on allNodes _ 0 ?_]; · ring
    intro j hj
    by_cases hjj : j ∈ net.juncs
    · have a1 := within_zero (h1.1 j hjj)
      have a2 := within_zero (h2.1 j hjj)
      unfold mbRes at a1 a2
      have : inflow net.links δ j = 0 := by
        show inflow net.links (fun i => s1.q i - s2.q i) j = 0
        rw [inflow_sub]; have := hd j hjj; linarith
      rw [this, mul_zero]
    · have : g j = 0 := by show s1.h j - s2.h j = 0; rw [hfix j hj hjj]; ring
      rw [this, zero_mul]
  have hsum := sum_by_parts net.links allNodes hnd hends δ g
  rw [hrhs, neg_zero] at hsum
  intro l hl
  apply (hterm l hl).2
  apply sumR_eq_zero_of_nonneg _ _ hsum
  · exact List.mem_map.2 ⟨l, hl, rfl⟩
  · intro x hx
    obtain ⟨l', hl', rfl⟩ := List.mem_map.1 hx
    exact (hterm l' hl').1

end Wntr.Engines
