/-
C18: the concrete components function of `Model/Segments.lean` (`compChecked`: n sweeps of min-label relaxation over the
unvalved links, accepted when closed) satisfies the contract `CompOk` that `labels_partition_spec` assumes of
`networkx.connected_components`.
-/
import WntrModel.Lemmas.Segments

namespace Wntr.Segments

def Reach (i : Inp) : Nat → Nat → Prop := Relation.ReflTransGen (UAdj i)

theorem uadj_symm (i : Inp) {u v : Nat} (h : UAdj i u v) : UAdj i v u := by
  obtain ⟨k, hk, hv, he⟩ := h
  exact ⟨k, hk, hv, he.symm⟩

theorem reach_symm (i : Inp) {u v : Nat} (h : Reach i u v) : Reach i v u := by
  induction h with
  | refl => exact Relation.ReflTransGen.refl
  | tail _ hs ih => exact Relation.ReflTransGen.head (uadj_symm i hs) ih

/-- every label is a node of the graph that is connected to the node carrying it -/
def LabInv (i : Inp) (lab : List Nat) : Prop :=
  lab.length = i.n ∧ ∀ u, u < i.n → lab.getD u 0 < i.n ∧ Reach i u (lab.getD u 0)

theorem getD_set_eq (l : List Nat) (a v : Nat) (h : a < l.length) : (l.set a v).getD a 0 = v := by
  simp [List.getD_eq_getElem?_getD, List.getElem?_set, h]

theorem getD_set_ne (l : List Nat) (a b v : Nat) (h : a ≠ b) : (l.set a v).getD b 0 = l.getD b 0 := by
  simp [List.getD_eq_getElem?_getD, List.getElem?_set, h]

theorem valid_link (i : Inp) (hv : i.valid = true) {k : Nat} (hk : k < i.nl) :
    (i.ends k).1 ≠ (i.ends k).2 ∧ (i.ends k).1 < i.n ∧ (i.ends k).2 < i.n := by
  unfold Inp.valid at hv
  simp only [Bool.and_eq_true, List.all_eq_true] at hv
  have hmem : i.ends k ∈ i.links := by
    unfold Inp.ends
    unfold Inp.nl at hk
    rw [List.getD_eq_getElem?_getD, List.getElem?_eq_getElem hk]
    exact List.getElem_mem hk
  have := hv.1 _ hmem
  simp only [Bool.and_eq_true, bne_iff_ne, ne_eq, decide_eq_true_eq] at this
  exact ⟨this.1.1, this.1.2, this.2⟩

/-- one relaxation keeps the invariant -/
theorem relax_step_inv (i : Inp) (hv : i.valid = true) (lab : List Nat) (h : LabInv i lab) (k : Nat) (hk : k < i.nl) :
    LabInv i (if i.valved k then lab else
      let e := i.ends k
      let m := min (lab.getD e.1 0) (lab.getD e.2 0)
      (lab.set e.1 m).set e.2 m) := by
  by_cases hval : i.valved k = true
  · simp [hval, h]
  · have hval' : i.valved k = false := by simpa using hval
    simp only [hval', Bool.false_eq_true, if_false]
    obtain ⟨hne, h1, h2⟩ := valid_link i hv hk
    obtain ⟨hlen, hall⟩ := h
    have hadj : UAdj i (i.ends k).1 (i.ends k).2 := ⟨k, hk, hval', Or.inl rfl⟩
    obtain ⟨ha1, ha2⟩ := hall _ h1
    obtain ⟨hb1, hb2⟩ := hall _ h2
    -- the minimum is one of the two labels, connected to both ends
    have hm : (min (lab.getD (i.ends k).1 0) (lab.getD (i.ends k).2 0) < i.n) ∧
        Reach i (i.ends k).1 (min (lab.getD (i.ends k).1 0) (lab.getD (i.ends k).2 0)) ∧
        Reach i (i.ends k).2 (min (lab.getD (i.ends k).1 0) (lab.getD (i.ends k).2 0)) := by
      rcases Nat.le_total (lab.getD (i.ends k).1 0) (lab.getD (i.ends k).2 0) with hle | hle
      · rw [Nat.min_eq_left hle]
        exact ⟨ha1, ha2, Relation.ReflTransGen.head (uadj_symm i hadj) ha2⟩
      · rw [Nat.min_eq_right hle]
        exact ⟨hb1, Relation.ReflTransGen.head hadj hb2, hb2⟩
    refine ⟨by simp [hlen], ?_⟩
    intro u hu
    by_cases hu2 : u = (i.ends k).2
    · subst hu2
      rw [getD_set_eq _ _ _ (by simp [hlen, h2])]
      exact ⟨hm.1, hm.2.2⟩
    · rw [getD_set_ne _ _ _ _ (Ne.symm hu2)]
      by_cases hu1 : u = (i.ends k).1
      · subst hu1
        rw [getD_set_eq _ _ _ (by simp [hlen, h1])]
        exact ⟨hm.1, hm.2.1⟩
      · rw [getD_set_ne _ _ _ _ (Ne.symm hu1)]
        exact hall u hu

theorem foldl_inv {α : Type} (P : List Nat → Prop) (f : List Nat → α → List Nat) (l : List α) (Q : α → Prop)
    (hQ : ∀ x ∈ l, Q x) (hstep : ∀ lab x, P lab → Q x → P (f lab x)) (lab : List Nat) (h : P lab) : P (l.foldl f lab) := by
  induction l generalizing lab with
  | nil => exact h
  | cons x xs ih =>
    exact ih (fun y hy => hQ y (List.mem_cons_of_mem _ hy)) (f lab x) (hstep lab x h (hQ x (by simp)))

theorem relax_inv (i : Inp) (hv : i.valid = true) (lab : List Nat) (h : LabInv i lab) : LabInv i (relax i lab) := by
  unfold relax
  exact foldl_inv (LabInv i) _ (List.range i.nl) (fun k => k < i.nl) (fun k hk => List.mem_range.mp hk)
    (fun lab k hl hk => relax_step_inv i hv lab hl k hk) lab h

theorem compLabels_inv (i : Inp) (hv : i.valid = true) : LabInv i (compLabels i) := by
  unfold compLabels
  refine foldl_inv (LabInv i) _ (List.range i.n) (fun _ => True) (fun _ _ => trivial) (fun lab _ hl _ => relax_inv i hv lab hl) _ ?_
  refine ⟨by simp, ?_⟩
  intro u hu
  have : (List.range i.n).getD u 0 = u := by simp [List.getD_eq_getElem?_getD, hu]
  rw [this]
  exact ⟨hu, Relation.ReflTransGen.refl⟩

/-- closed labels are constant along unvalved adjacency, hence on connected nodes -/
theorem closed_reach (i : Inp) (lab : List Nat) (hc : i.closed lab = true) {u v : Nat} (h : Reach i u v) :
    lab.getD u 0 = lab.getD v 0 := by
  induction h with
  | refl => rfl
  | tail _ hs ih =>
    rw [ih]
    obtain ⟨k, hk, hval, he⟩ := hs
    unfold Inp.closed at hc
    rw [List.all_eq_true] at hc
    have := hc k (List.mem_range.mpr hk)
    simp only [hval, Bool.false_or, beq_iff_eq] at this
    rcases he with he | he <;> rw [he] at this
    · exact this
    · exact this.symm

/-- **`compChecked_ok`**: what the concrete components function returns satisfies the contract of `connected_components` -/
theorem compChecked_ok (i : Inp) (hv : i.valid = true) (lab : List Nat) (h : compChecked i = some lab) :
    CompOk i (fun u => lab.getD u 0) := by
  unfold compChecked at h
  simp only at h
  split at h
  · rename_i hc
    cases h
    obtain ⟨_, hall⟩ := compLabels_inv i hv
    intro u v hu hv'
    constructor
    · intro heq
      have h1 := (hall u hu).2
      have h2 := (hall v hv').2
      simp only at heq
      rw [heq] at h1
      exact h1.trans (reach_symm i h2)
    · intro hr
      exact closed_reach i _ hc hr
  · cases h

end Wntr.Segments
