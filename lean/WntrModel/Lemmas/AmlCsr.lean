/-
Lemmas for C15, C++ `Evaluator`: what `set_structure` flattens the plain constraints into, and that `evaluate` /
`evaluate_csr_jacobian` read every plain constraint's own programs and leaves back out of the flat vectors
(`row_nnz` prefix sums, `jac_rpn` blocks, `col_ndx` blocks).
-/
import WntrModel.Model.AmlModel
import WntrModel.Lemmas.AmlStruct
import Mathlib.Data.List.Basic

namespace Wntr.Aml

/-- running sums: `sums b [x₁, x₂, …] = [b + x₁, b + x₁ + x₂, …]` -/
def sums (base : Nat) : List Nat → List Nat
  | [] => []
  | x :: xs => (base + x) :: sums (base + x) xs

theorem sums_length (b : Nat) (xs : List Nat) : (sums b xs).length = xs.length := by
  induction xs generalizing b with
  | nil => rfl
  | cons x r ih => simp [sums, ih]

/-- `Option` sequencing, the shape of all the row loops -/
def seqOpt : List (Option β) → Option (List β)
  | [] => some []
  | x :: xs => do let v ← x; let rest ← seqOpt xs; pure (v :: rest)

/-! ### `structCons` in closed form -/

theorem structCons_struct (vars : List (CLeaf α)) (cs : List CCon) (ndx : Nat) (s : Structure)
    (hlen : s.rowNnz.length = ndx + 1) :
    let s' := (structCons vars cs ndx s).2.2
    s'.leaves = s.leaves ++ cs.map (·.leaves) ∧
    s'.fnRpn = s.fnRpn ++ cs.map (·.fnRpn) ∧
    s'.rowNnz = s.rowNnz ++ sums (s.rowNnz.getD ndx 0) (cs.map (·.jacRpn.length)) ∧
    s'.colNdx = s.colNdx ++ cs.flatMap (fun c => c.jacRpn.map fun p => varIndex vars p.1) ∧
    s'.jacRpn = s.jacRpn ++ cs.flatMap (fun c => c.jacRpn.map (·.2)) ∧
    s'.nConditions = s.nConditions ∧ s'.ifCondRpn = s.ifCondRpn ∧ s'.ifFnRpn = s.ifFnRpn ∧
    s'.ifJacRpn = s.ifJacRpn ∧ s'.varVector = s.varVector := by
  induction cs generalizing ndx s with
  | nil => simp [structCons, sums]
  | cons c r ih =>
    have hlast : (s.rowNnz ++ [s.rowNnz.getD ndx 0 + c.jacRpn.length]).getD (ndx + 1) 0 =
        s.rowNnz.getD ndx 0 + c.jacRpn.length := by
      rw [List.getD_eq_getElem?_getD, List.getElem?_append_right (by omega)]
      simp [hlen]
    have := ih (ndx + 1) { s with
      leaves := s.leaves ++ [c.leaves]
      fnRpn := s.fnRpn ++ [c.fnRpn]
      rowNnz := s.rowNnz ++ [s.rowNnz.getD ndx 0 + c.jacRpn.length]
      colNdx := s.colNdx ++ c.jacRpn.map (fun p => varIndex vars p.1)
      jacRpn := s.jacRpn ++ c.jacRpn.map (·.2) } (by simp [hlen])
    simp only [structCons]
    simp only [hlast] at this
    obtain ⟨h1, h2, h3, h4, h5, h6, h7, h8, h9, h10⟩ := this
    refine ⟨?_, ?_, ?_, ?_, ?_, h6, h7, h8, h9, h10⟩
    · rw [h1]; simp
    · rw [h2]; simp
    · rw [h3]; simp [sums]
    · rw [h4]; simp
    · rw [h5]; simp

/-! ### reading the rows back -/

section Rows
variable {α : Type} (O : Ops α) (I : InfVals α)

/-- residual rows: the `k`-th program is run on the `k`-th leaves vector -/
theorem evalPlainRows_spec (e : Evaluator α) (cs : List CCon) (k : Nat)
    (hleaves : ∀ j, j < cs.length → e.st.leaves.getD (k + j) [] = (cs.map (·.leaves)).getD j []) :
    evalPlainRows O I e (cs.map (·.fnRpn)) k =
      seqOpt (cs.map fun c => evalRpn O (leafValues O I e c.leaves) c.fnRpn) := by
  induction cs generalizing k with
  | nil => rfl
  | cons c r ih =>
    have h0 := hleaves 0 (by simp)
    simp only [Nat.add_zero, List.map_cons, List.getD_cons_zero] at h0
    have hr : ∀ j, j < r.length → e.st.leaves.getD (k + 1 + j) [] = (r.map (·.leaves)).getD j [] := by
      intro j hj
      have := hleaves (j + 1) (by simp; omega)
      simpa [Nat.add_assoc, Nat.add_comm 1 j] using this
    simp only [List.map_cons, evalPlainRows, seqOpt, h0, ih (k + 1) hr]

/-- the Jacobian values of a list of plain constraints, row after row -/
def jacRowsOf (e : Evaluator α) : List CCon → Option (List α)
  | [] => some []
  | c :: r => do
    let row ← evalRpnList O (leafValues O I e c.leaves) (c.jacRpn.map (·.2))
    let rest ← jacRowsOf e r
    pure (row ++ rest)

theorem sums_diff (base : Nat) (xs : List Nat) (i : Nat) (hi : i < xs.length) :
    (base :: sums base xs).getD (i + 1) 0 - (base :: sums base xs).getD i 0 = xs.getD i 0 := by
  induction xs generalizing base i with
  | nil => simp at hi
  | cons x r ih =>
    cases i with
    | zero => simp [sums]
    | succ j =>
      have := ih (base + x) j (by simpa using hi)
      simpa [sums] using this

/-- Jacobian rows: constraint `conNdx + j` owns `row_nnz[conNdx+j+1] − row_nnz[conNdx+j]` consecutive programs of
`jac_rpn`, starting where the previous constraint's block ends -/
theorem jacPlainRows_spec (e : Evaluator α) (cs : List CCon) (conNdx nnzNdx : Nat) (tail : List (List Int))
    (hleaves : ∀ j, j < cs.length → e.st.leaves.getD (conNdx + j) [] = (cs.map (·.leaves)).getD j [])
    (hnnz : ∀ j, j < cs.length →
      e.st.rowNnz.getD (conNdx + j + 1) 0 - e.st.rowNnz.getD (conNdx + j) 0 = (cs.map (·.jacRpn.length)).getD j 0)
    (hjac : e.st.jacRpn.drop nnzNdx = cs.flatMap (fun c => c.jacRpn.map (·.2)) ++ tail) :
    jacPlainRows O I e cs.length conNdx nnzNdx = jacRowsOf O I e cs := by
  induction cs generalizing conNdx nnzNdx with
  | nil => rfl
  | cons c r ih =>
    have h0 := hleaves 0 (by simp)
    have n0 := hnnz 0 (by simp)
    simp only [Nat.add_zero, List.map_cons, List.getD_cons_zero] at h0 n0
    have hr : ∀ j, j < r.length → e.st.leaves.getD (conNdx + 1 + j) [] = (r.map (·.leaves)).getD j [] := by
      intro j hj
      have := hleaves (j + 1) (by simp; omega)
      simpa [Nat.add_assoc, Nat.add_comm 1 j] using this
    have hn : ∀ j, j < r.length → e.st.rowNnz.getD (conNdx + 1 + j + 1) 0 - e.st.rowNnz.getD (conNdx + 1 + j) 0 =
        (r.map (·.jacRpn.length)).getD j 0 := by
      intro j hj
      have := hnnz (j + 1) (by simp; omega)
      simpa [Nat.add_assoc, Nat.add_comm 1 j] using this
    have hblock : (e.st.jacRpn.drop nnzNdx).take c.jacRpn.length = c.jacRpn.map (·.2) := by
      rw [hjac, List.flatMap_cons, List.append_assoc]
      exact List.take_left' (by simp)
    have hrest : e.st.jacRpn.drop (nnzNdx + c.jacRpn.length) =
        r.flatMap (fun c => c.jacRpn.map (·.2)) ++ tail := by
      rw [← List.drop_drop, hjac, List.flatMap_cons, List.append_assoc]
      exact List.drop_left' (by simp)
    simp only [List.length_cons, jacPlainRows, jacRowsOf, n0, h0, hblock]
    rw [ih (conNdx + 1) (nnzNdx + c.jacRpn.length) hr hn hrest]

end Rows

/-! ### the conditional constraints are appended AFTER the plain ones -/

theorem ifConRows_prefix (vars : List (CLeaf α)) (c : CIfCon) (k fuel : Nat) (s s' : Structure)
    (h : ifConRows vars c k fuel s = some s') :
    s'.leaves = s.leaves ∧ s'.fnRpn = s.fnRpn ∧ s'.jacRpn = s.jacRpn ∧ s'.rowNnz = s.rowNnz ∧
    (∃ z, s'.colNdx = s.colNdx ++ z) ∧ s'.nConditions = s.nConditions := by
  induction fuel generalizing s with
  | zero => simp only [ifConRows, Option.some.injEq] at h; subst h; exact ⟨rfl, rfl, rfl, rfl, ⟨[], by simp⟩, rfl⟩
  | succ f ih =>
    simp only [ifConRows] at h
    split at h
    · obtain ⟨h1, h2, h3, h4, ⟨z, h5⟩, h6⟩ := ih _ h
      refine ⟨h1, h2, h3, h4, ?_, h6⟩
      simp only at h5
      split at h5
      · exact ⟨c.jacRpn.map (fun p => varIndex vars p.1) ++ z, by rw [h5, List.append_assoc]⟩
      · exact ⟨z, h5⟩
    · cases h

theorem structIfCons_prefix (vars : List (CLeaf α)) (cs cs' : List CIfCon) (ndx : Nat) (s s' : Structure)
    (h : structIfCons vars cs ndx s = some (cs', s')) :
    (∃ x, s'.leaves = s.leaves ++ x) ∧ s'.fnRpn = s.fnRpn ∧ s'.jacRpn = s.jacRpn ∧
    (∃ y, s'.rowNnz = s.rowNnz ++ y) ∧ (∃ z, s'.colNdx = s.colNdx ++ z) := by
  induction cs generalizing ndx s cs' s' with
  | nil =>
    simp only [structIfCons, Option.some.injEq, Prod.mk.injEq] at h
    obtain ⟨_, rfl⟩ := h
    exact ⟨⟨[], by simp⟩, rfl, rfl, ⟨[], by simp⟩, ⟨[], by simp⟩⟩
  | cons c r ih =>
    simp only [structIfCons] at h
    split at h
    · cases h
    · rename_i s2 hrows
      split at h
      · cases h
      · rename_i r' s3 hrec
        simp only [Option.some.injEq, Prod.mk.injEq] at h
        obtain ⟨_, rfl⟩ := h
        obtain ⟨a1, a2, a3, a4, ⟨z1, a5⟩, _⟩ := ifConRows_prefix vars c _ _ _ _ hrows
        obtain ⟨⟨x, b1⟩, b2, b3, ⟨y, b4⟩, ⟨z, b5⟩⟩ := ih _ _ _ _ hrec
        simp only at a1 a2 a3 a4 a5
        refine ⟨⟨[c.leaves] ++ x, ?_⟩, ?_, ?_, ⟨[s.rowNnz.getD ndx 0 + c.jacRpn.length] ++ y, ?_⟩, ⟨z1 ++ z, ?_⟩⟩
        · rw [b1, a1, List.append_assoc]
        · rw [b2, a2]
        · rw [b3, a3]
        · rw [b4, a4, List.append_assoc]
        · rw [b5, a5, List.append_assoc]



/-! ### `set_structure` followed by `evaluate` / `evaluate_csr_jacobian`, plain constraints -/

theorem getD_append_left' {β : Type} (l x : List β) (j : Nat) (d : β) (hj : j < l.length) :
    (l ++ x).getD j d = l.getD j d := by
  simp [List.getD_eq_getElem?_getD, List.getElem?_append_left hj]

/-- **After `set_structure`, row `i` of the residual vector is constraint `i`'s own function program run on constraint
`i`'s own leaves, and CSR row `i` consists of constraint `i`'s own Jacobian programs (one per referenced variable, in
address order) with `col_ndx` the `index` of those variables and `row_nnz` the prefix sums** — for the plain constraints
(`i` < number of plain constraints; they are numbered first). -/
theorem setStructure_plain_rows {α : Type} (O : Ops α) (I : InfVals α) (e e' : Evaluator α)
    (h : e.setStructure = some e') :
    evalPlainRows O I e' e'.st.fnRpn 0 =
      seqOpt (e.cons.map fun c => evalRpn O (leafValues O I e' c.leaves) c.fnRpn) ∧
    jacPlainRows O I e' e'.cons.length 0 0 = jacRowsOf O I e' e.cons ∧
    (∃ z, e'.st.colNdx = e.cons.flatMap (fun c => c.jacRpn.map fun p => varIndex e'.vars p.1) ++ z) ∧
    (∃ y, e'.st.rowNnz = (0 :: sums 0 (e.cons.map (·.jacRpn.length))) ++ y) := by
  have hlenc : e'.cons.length = e.cons.length := by
    have := (setStructure_indices e e' h).2.2.2.2.1
    simpa using congrArg List.length this
  unfold Evaluator.setStructure at h
  simp only at h
  split at h
  · cases h
  · rename_i ifCons s2 hif
    simp only [Option.some.injEq] at h
    obtain ⟨c1, c2, c3, c4, c5, _⟩ := structCons_struct (numberVars e.vars 0) e.cons 0
      { varVector := (numberVars e.vars 0).map (·.addr) } rfl
    obtain ⟨⟨x, p1⟩, p2, p3, ⟨y, p4⟩, ⟨z, p5⟩⟩ := structIfCons_prefix _ _ _ _ _ _ hif
    simp only [List.nil_append] at c1 c2 c4 c5
    have c3' : (structCons (numberVars e.vars 0) e.cons 0
        { varVector := (numberVars e.vars 0).map (·.addr) }).2.2.rowNnz =
        0 :: sums 0 (e.cons.map (·.jacRpn.length)) := by rw [c3]; rfl
    have hleaves : e'.st.leaves = e.cons.map (·.leaves) ++ x := by rw [← h]; simp only; rw [p1, c1]
    have hfn : e'.st.fnRpn = e.cons.map (·.fnRpn) := by rw [← h]; simp only; rw [p2, c2]
    have hjac : e'.st.jacRpn = e.cons.flatMap (fun c => c.jacRpn.map (·.2)) := by rw [← h]; simp only; rw [p3, c5]
    have hrow : e'.st.rowNnz = (0 :: sums 0 (e.cons.map (·.jacRpn.length))) ++ y := by
      rw [← h]; simp only; rw [p4, c3']
    have hcol : e'.st.colNdx = e.cons.flatMap (fun c => c.jacRpn.map fun p => varIndex e'.vars p.1) ++ z := by
      rw [← h]; simp only; rw [p5, c4]
    have hl : ∀ j, j < e.cons.length → e'.st.leaves.getD (0 + j) [] = (e.cons.map (·.leaves)).getD j [] := by
      intro j hj
      rw [Nat.zero_add, hleaves, getD_append_left' _ _ _ _ (by simpa using hj)]
    refine ⟨?_, ?_, ⟨z, hcol⟩, ⟨y, hrow⟩⟩
    · rw [hfn]; exact evalPlainRows_spec O I e' e.cons 0 hl
    · rw [hlenc]
      refine jacPlainRows_spec O I e' e.cons 0 0 [] hl ?_ (by rw [hjac]; simp)
      intro j hj
      have hlen : (sums 0 (e.cons.map (·.jacRpn.length))).length = e.cons.length := by
        rw [sums_length]; simp
      rw [Nat.zero_add, hrow, getD_append_left' _ _ _ _ (by simp [hlen]; omega),
        getD_append_left' _ _ _ _ (by simp [hlen]; omega)]
      exact sums_diff 0 _ j (by simpa using hj)

end Wntr.Aml
