/- Lemmas for M5b `RunLoop` (used by Props/C16): phase frames, halting is absorbing, monotone logs. -/
import WntrModel.Model.RunLoop
import Mathlib.Tactic.Linarith

namespace Wntr.RunLoop

variable {W RN RL : Type} (wd : World W RN RL) (cfg : Cfg)

/-! ### halting is absorbing; `iter` algebra -/

theorem step_of_halted {s : St W RN RL} (h : s.halt ≠ none) : step wd cfg s = s := by
  unfold step
  cases hh : s.halt with
  | none => exact absurd hh h
  | some _ => rfl

theorem iter_of_halted {s : St W RN RL} (h : s.halt ≠ none) (n : Nat) : iter wd cfg n s = s := by
  induction n with
  | zero => rfl
  | succ n ih => simp only [iter, step_of_halted wd cfg h, ih]

theorem iter_succ' (n : Nat) (s : St W RN RL) : iter wd cfg (n + 1) s = step wd cfg (iter wd cfg n s) := by
  induction n generalizing s with
  | zero => rfl
  | succ n ih => rw [iter, ih (step wd cfg s)]; rfl

theorem iter_add (m n : Nat) (s : St W RN RL) : iter wd cfg (m + n) s = iter wd cfg n (iter wd cfg m s) := by
  induction m generalizing s with
  | zero => simp [iter]
  | succ m ih => rw [Nat.succ_add, iter, ih, iter]

/-- once halted, more fuel changes nothing -/
theorem iter_stable {s : St W RN RL} {n m : Nat} (h : (iter wd cfg n s).halt ≠ none) (hnm : n ≤ m) :
    iter wd cfg m s = iter wd cfg n s := by
  obtain ⟨d, rfl⟩ := Nat.exists_eq_add_of_le hnm
  rw [iter_add, iter_of_halted wd cfg h]

/-! ### phase frames -/

/-- the solver phase touches only the world, the call counter and the call trace; it makes one call, or two when the
primary failed and a backup solver is configured -/
theorem solvePhase_spec (s : St W RN RL) :
    ∃ w' l, (solvePhase wd cfg s).1 = { s with w := w', nSolve := s.nSolve + l.length, calls := s.calls ++ l } ∧
      ((l = [(false, (solvePhase wd cfg s).2)] ∧ ((solvePhase wd cfg s).2.ok = true ∨ cfg.backup = false)) ∨
       (∃ o1, l = [(false, o1), (true, (solvePhase wd cfg s).2)] ∧ o1.ok = false ∧ cfg.backup = true)) := by
  unfold solvePhase
  by_cases h : (!(solveCall wd s false).2.ok && cfg.backup) = true
  · rw [if_pos h]
    simp only [Bool.and_eq_true, Bool.not_eq_true'] at h
    refine ⟨(solveCall wd (solveCall wd s false).1 true).1.w, [(false, (solveCall wd s false).2), (true, (solveCall wd (solveCall wd s false).1 true).2)], ?_, ?_⟩
    · simp [solveCall, Nat.add_assoc]
    · exact Or.inr ⟨_, rfl, h.1, h.2⟩
  · rw [if_neg h]
    refine ⟨(solveCall wd s false).1.w, [(false, (solveCall wd s false).2)], ?_, ?_⟩
    · simp [solveCall]
    · refine Or.inl ⟨rfl, ?_⟩
      simp only [Bool.and_eq_true, Bool.not_eq_true', not_and, Bool.not_eq_true] at h
      cases hok : (solveCall wd s false).2.ok
      · exact Or.inr (h hok)
      · exact Or.inl rfl

theorem presolvePhase_resolve {s : St W RN RL} (h : s.resolve = true) : presolvePhase wd s = s := by
  simp [presolvePhase, h]

theorem presolvePhase_fresh {s : St W RN RL} (h : s.resolve = false) :
    presolvePhase wd s =
      { s with w := (wd.presolve s.w s.simTime s.prevTime s.firstStep).1,
               simTime := (wd.presolve s.w s.simTime s.prevTime s.firstStep).2, trial := 0 } := by
  simp [presolvePhase, h]

theorem failHalt_cases : failHalt cfg = .raiseNoConv ∨ failHalt cfg = .flagNoConv := by
  unfold failHalt; split <;> simp

theorem trialHalt_cases : trialHalt cfg = .raiseTrials ∨ trialHalt cfg = .flagTrials := by
  unfold trialHalt; split <;> simp

theorem step_running {s : St W RN RL} (hs : s.halt = none) :
    step wd cfg s =
      if (solvePhase wd cfg (presolvePhase wd s)).2.ok then postPhase wd cfg (solvePhase wd cfg (presolvePhase wd s)).1
      else { (solvePhase wd cfg (presolvePhase wd s)).1 with halt := some (failHalt cfg) } := by
  simp [step, hs]

/-! ### termination: invariant and potential -/

/-- `max_trials` clipped at 0, as an integer -/
def M (cfg : Cfg) : Int := (cfg.maxTrials.toNat : Int)

theorem M_nonneg : 0 ≤ M cfg := by unfold M; omega
theorem le_M : cfg.maxTrials ≤ M cfg := by unfold M; omega

/-- invariant of running states at the loop head (`D` = the later of `duration` and the initial clock) -/
structure TInv (D : Int) (s : St W RN RL) : Prop where
  prev_lt : s.prevTime < s.simTime
  le_D : s.simTime ≤ D
  trial_lo : s.resolve = true → 1 ≤ s.trial
  trial_hi : s.resolve = true → s.trial ≤ cfg.maxTrials

/-- the measure: (remaining seconds) × (trials per step) + remaining trials of the current step -/
def potential (D : Int) (s : St W RN RL) : Int :=
  if s.resolve then (D - s.simTime) * (M cfg + 1) + (M cfg + 1 - s.trial) else (D - s.prevTime) * (M cfg + 1)

/-- invariant between presolve and post-solve -/
structure Mid (D : Int) (s : St W RN RL) : Prop where
  halt : s.halt = none
  prev_lt : s.prevTime < s.simTime
  le_D : s.simTime ≤ D
  trial_lo : 0 ≤ s.trial
  trial_hi : s.trial ≤ M cfg

def midPot (D : Int) (s : St W RN RL) : Int := (D - s.simTime) * (M cfg + 1) + (M cfg + 1 - s.trial)

theorem potential_nonneg {D : Int} {s : St W RN RL} (inv : TInv cfg D s) : 0 ≤ potential cfg D s := by
  have hM := M_nonneg cfg
  have hle := le_M cfg
  unfold potential
  split
  · rename_i hr
    have h1 := inv.trial_hi hr
    have h2 : 0 ≤ (D - s.simTime) * (M cfg + 1) := mul_nonneg (by have := inv.le_D; omega) (by omega)
    omega
  · exact mul_nonneg (by have := inv.le_D; have := inv.prev_lt; omega) (by omega)

theorem presolve_mid {D : Int} {s : St W RN RL} (hs : s.halt = none) (inv : TInv cfg D s) (hc : PresolveOK wd s) :
    Mid cfg D (presolvePhase wd s) ∧ midPot cfg D (presolvePhase wd s) ≤ potential cfg D s := by
  have hM := M_nonneg cfg
  have hle := le_M cfg
  cases hr : s.resolve with
  | true =>
    rw [presolvePhase_resolve wd hr]
    refine ⟨⟨hs, inv.prev_lt, inv.le_D, ?_, ?_⟩, ?_⟩
    · have := inv.trial_lo hr; omega
    · have := inv.trial_hi hr; omega
    · simp [midPot, potential, hr]
  | false =>
    rw [presolvePhase_fresh wd hr]
    obtain ⟨h1, h2⟩ := hc hs hr
    refine ⟨⟨hs, h1, ?_, ?_, ?_⟩, ?_⟩
    · have := inv.le_D; simp only; omega
    · simp
    · simp only; omega
    · simp only [midPot, potential, hr]
      have h3 : 0 ≤ ((wd.presolve s.w s.simTime s.prevTime s.firstStep).2 - s.prevTime - 1) * (M cfg + 1) :=
        mul_nonneg (by omega) (by omega)
      simp only [Bool.false_eq_true, if_false]
      nlinarith

theorem solve_mid {D : Int} {s : St W RN RL} (h : Mid cfg D s) :
    Mid cfg D (solvePhase wd cfg s).1 ∧ midPot cfg D (solvePhase wd cfg s).1 = midPot cfg D s := by
  obtain ⟨w', l, heq, _⟩ := solvePhase_spec wd cfg s
  rw [heq]
  exact ⟨⟨h.halt, h.prev_lt, h.le_D, h.trial_lo, h.trial_hi⟩, rfl⟩

theorem next_gt (t h : Int) (hh : 1 ≤ h) : t < (t + h) - (t + h) % h := by
  have := Int.emod_lt_of_pos (t + h) (by omega : 0 < h)
  omega

theorem accept_progress {D : Int} (hH : 1 ≤ cfg.hyd) (hD : cfg.duration ≤ D) {s : St W RN RL} (h : Mid cfg D s) :
    (acceptPhase wd cfg s).halt ≠ none ∨
      (TInv cfg D (acceptPhase wd cfg s) ∧ potential cfg D (acceptPhase wd cfg s) < midPot cfg D s) := by
  have hM := M_nonneg cfg
  have hgt := next_gt s.simTime cfg.hyd hH
  have hth := h.trial_hi
  unfold acceptPhase
  simp only
  split
  · split
    · left; simp
    · split
      · left; simp
      · rename_i hnd
        right
        refine ⟨⟨hgt, by simp only; omega, by simp, by simp⟩, ?_⟩
        simp only [potential, midPot, Bool.false_eq_true, if_false]
        omega
  · split
    · left; simp
    · rename_i hnd
      right
      refine ⟨⟨hgt, by simp only; omega, by simp, by simp⟩, ?_⟩
      simp only [potential, midPot, Bool.false_eq_true, if_false]
      omega

theorem post_progress {D : Int} (hH : 1 ≤ cfg.hyd) (hD : cfg.duration ≤ D) {s : St W RN RL} (h : Mid cfg D s) :
    (postPhase wd cfg s).halt ≠ none ∨
      (TInv cfg D (postPhase wd cfg s) ∧ potential cfg D (postPhase wd cfg s) < midPot cfg D s) := by
  unfold postPhase
  simp only
  split
  · split
    · left; simp
    · rename_i hnt
      right
      have := h.trial_lo
      refine ⟨⟨h.prev_lt, h.le_D, fun _ => by simp only; omega, fun _ => by simp only; omega⟩, ?_⟩
      simp only [potential, midPot, if_true]
      omega
  · exact accept_progress wd cfg hH hD (s := { s with w := (wd.post s.w).1 })
      ⟨h.halt, h.prev_lt, h.le_D, h.trial_lo, h.trial_hi⟩

/-- one pass from a running state: it halts, or the invariant is kept and the measure drops -/
theorem step_progress {D : Int} (hH : 1 ≤ cfg.hyd) (hD : cfg.duration ≤ D) {s : St W RN RL} (hs : s.halt = none)
    (inv : TInv cfg D s) (hc : PresolveOK wd s) :
    (step wd cfg s).halt ≠ none ∨
      (TInv cfg D (step wd cfg s) ∧ potential cfg D (step wd cfg s) < potential cfg D s) := by
  obtain ⟨m1, p1⟩ := presolve_mid wd cfg hs inv hc
  obtain ⟨m2, p2⟩ := solve_mid wd cfg m1
  rw [step_running wd cfg hs]
  split
  · rcases post_progress wd cfg hH hD m2 with h | ⟨h1, h2⟩
    · exact Or.inl h
    · exact Or.inr ⟨h1, by omega⟩
  · left; simp

/-- the measure bounds the number of passes -/
theorem halts_within {D : Int} (hH : 1 ≤ cfg.hyd) (hD : cfg.duration ≤ D) :
    ∀ (n : Nat) (s : St W RN RL), s.halt = none → TInv cfg D s → (∀ k, PresolveOK wd (iter wd cfg k s)) →
      potential cfg D s < n → (iter wd cfg n s).halt ≠ none := by
  intro n
  induction n with
  | zero =>
    intro s _ inv _ hp
    have := potential_nonneg cfg inv
    omega
  | succ n ih =>
    intro s hs inv hc hp
    rw [iter]
    rcases step_progress wd cfg hH hD hs inv (hc 0) with h | ⟨h1, h2⟩
    · rw [iter_of_halted wd cfg h]; exact h
    · by_cases hh : (step wd cfg s).halt = none
      · exact ih _ hh h1 (fun k => hc (k + 1)) (by omega)
      · rw [iter_of_halted wd cfg hh]; exact hh

end Wntr.RunLoop
