/- Lemmas for M5b `RunLoop` (used by Props/C16): phase frames, halting is absorbing, monotone logs. -/
import WntrModel.Model.RunLoop
import Mathlib.Tactic.Linarith

namespace Wntr.RunLoop

variable {W RN RL : Type} (wd : World W RN RL) (cfg : Cfg)

/-! ### halting is absorbing; `iter` algebra -/

theorem step_of_halted {s : St W RN RL} (h : s.halt ≠ none) : step wd cfg s = s := by
  unfold step
  cases hh : s.halt with
  | none => exact absurd hh h
  | some _ => rfl

theorem iter_of_halted {s : St W RN RL} (h : s.halt ≠ none) (n : Nat) : iter wd cfg n s = s := by
  induction n with
  | zero => rfl
  | succ n ih => simp only [iter, step_of_halted wd cfg h, ih]

theorem iter_succ' (n : Nat) (s : St W RN RL) : iter wd cfg (n + 1) s = step wd cfg (iter wd cfg n s) := by
  induction n generalizing s with
  | zero => rfl
  | succ n ih => rw [iter, ih (step wd cfg s)]; rfl

theorem iter_add (m n : Nat) (s : St W RN RL) : iter wd cfg (m + n) s = iter wd cfg n (iter wd cfg m s) := by
  induction m generalizing s with
  | zero => simp [iter]
  | succ m ih => rw [Nat.succ_add, iter, ih, iter]

/-- once halted, more fuel changes nothing -/
theorem iter_stable {s : St W RN RL} {n m : Nat} (h : (iter wd cfg n s).halt ≠ none) (hnm : n ≤ m) :
    iter wd cfg m s = iter wd cfg n s := by
  obtain ⟨d, rfl⟩ := Nat.exists_eq_add_of_le hnm
  rw [iter_add, iter_of_halted wd cfg h]

/-- the early-exit loop the driver runs is `iter` -/
theorem runTo_eq_iter (n : Nat) (s : St W RN RL) : runTo wd cfg n s = iter wd cfg n s := by
  induction n generalizing s with
  | zero => rfl
  | succ n ih =>
    unfold runTo
    split
    · rename_i h
      have : s.halt ≠ none := by intro e; rw [e] at h; cases h
      rw [iter_of_halted wd cfg this]
    · rw [ih, iter]

/-! ### phase frames -/

/-- the solver phase touches only the world, the call counter and the call trace; it makes one call, or two when the
primary failed and a backup solver is configured -/
theorem solvePhase_spec (s : St W RN RL) :
    ∃ w' l, (solvePhase wd cfg s).1 = { s with w := w', nSolve := s.nSolve + l.length, calls := s.calls ++ l } ∧
      ((l = [(false, (solvePhase wd cfg s).2)] ∧ ((solvePhase wd cfg s).2.ok = true ∨ cfg.backup = false)) ∨
       (∃ o1, l = [(false, o1), (true, (solvePhase wd cfg s).2)] ∧ o1.ok = false ∧ cfg.backup = true)) := by
  unfold solvePhase
  by_cases h : (!(solveCall wd s false).2.ok && cfg.backup) = true
  · rw [if_pos h]
    simp only [Bool.and_eq_true, Bool.not_eq_true'] at h
    refine ⟨(solveCall wd (solveCall wd s false).1 true).1.w, [(false, (solveCall wd s false).2), (true, (solveCall wd (solveCall wd s false).1 true).2)], ?_, ?_⟩
    · simp [solveCall, Nat.add_assoc]
    · exact Or.inr ⟨_, rfl, h.1, h.2⟩
  · rw [if_neg h]
    refine ⟨(solveCall wd s false).1.w, [(false, (solveCall wd s false).2)], ?_, ?_⟩
    · simp [solveCall]
    · refine Or.inl ⟨rfl, ?_⟩
      simp only [Bool.and_eq_true, Bool.not_eq_true', not_and, Bool.not_eq_true] at h
      cases hok : (solveCall wd s false).2.ok
      · exact Or.inr (h hok)
      · exact Or.inl rfl

theorem presolvePhase_resolve {s : St W RN RL} (h : s.resolve = true) : presolvePhase wd s = s := by
  simp [presolvePhase, h]

theorem presolvePhase_fresh {s : St W RN RL} (h : s.resolve = false) :
    presolvePhase wd s =
      { s with w := (wd.presolve s.w s.simTime s.prevTime s.firstStep).1,
               simTime := (wd.presolve s.w s.simTime s.prevTime s.firstStep).2, trial := 0 } := by
  simp [presolvePhase, h]

theorem failHalt_cases : failHalt cfg = .raiseNoConv ∨ failHalt cfg = .flagNoConv := by
  unfold failHalt; split <;> simp

theorem trialHalt_cases : trialHalt cfg = .raiseTrials ∨ trialHalt cfg = .flagTrials := by
  unfold trialHalt; split <;> simp

theorem step_running {s : St W RN RL} (hs : s.halt = none) :
    step wd cfg s =
      if (solvePhase wd cfg (presolvePhase wd s)).2.ok then postPhase wd cfg (solvePhase wd cfg (presolvePhase wd s)).1
      else { (solvePhase wd cfg (presolvePhase wd s)).1 with halt := some (failHalt cfg) } := by
  simp [step, hs]

/-! ### termination: invariant and potential -/

/-- `max_trials` clipped at 0, as an integer -/
def M (cfg : Cfg) : Int := (cfg.maxTrials.toNat : Int)

theorem M_nonneg : 0 ≤ M cfg := by unfold M; omega
theorem le_M : cfg.maxTrials ≤ M cfg := by unfold M; omega

/-- invariant of running states at the loop head (`D` = the later of `duration` and the initial clock) -/
structure TInv (D : Int) (s : St W RN RL) : Prop where
  prev_lt : s.prevTime < s.simTime
  le_D : s.simTime ≤ D
  trial_lo : s.resolve = true → 1 ≤ s.trial
  trial_hi : s.resolve = true → s.trial ≤ cfg.maxTrials

/-- the measure: (remaining seconds) × (trials per step) + remaining trials of the current step -/
def potential (D : Int) (s : St W RN RL) : Int :=
  if s.resolve then (D - s.simTime) * (M cfg + 1) + (M cfg + 1 - s.trial) else (D - s.prevTime) * (M cfg + 1)

/-- invariant between presolve and post-solve -/
structure Mid (D : Int) (s : St W RN RL) : Prop where
  halt : s.halt = none
  prev_lt : s.prevTime < s.simTime
  le_D : s.simTime ≤ D
  trial_lo : 0 ≤ s.trial
  trial_hi : s.trial ≤ M cfg

def midPot (D : Int) (s : St W RN RL) : Int := (D - s.simTime) * (M cfg + 1) + (M cfg + 1 - s.trial)

theorem potential_nonneg {D : Int} {s : St W RN RL} (inv : TInv cfg D s) : 0 ≤ potential cfg D s := by
  have hM := M_nonneg cfg
  have hle := le_M cfg
  unfold potential
  split
  · rename_i hr
    have h1 := inv.trial_hi hr
    have h2 : 0 ≤ (D - s.simTime) * (M cfg + 1) := mul_nonneg (by have := inv.le_D; omega) (by omega)
    omega
  · exact mul_nonneg (by have := inv.le_D; have := inv.prev_lt; omega) (by omega)

theorem presolve_mid {D : Int} {s : St W RN RL} (hs : s.halt = none) (inv : TInv cfg D s) (hc : PresolveOK wd s) :
    Mid cfg D (presolvePhase wd s) ∧ midPot cfg D (presolvePhase wd s) ≤ potential cfg D s := by
  have hM := M_nonneg cfg
  have hle := le_M cfg
  cases hr : s.resolve with
  | true =>
    rw [presolvePhase_resolve wd hr]
    refine ⟨⟨hs, inv.prev_lt, inv.le_D, ?_, ?_⟩, ?_⟩
    · have := inv.trial_lo hr; omega
    · have := inv.trial_hi hr; omega
    · simp [midPot, potential, hr]
  | false =>
    rw [presolvePhase_fresh wd hr]
    obtain ⟨h1, h2⟩ := hc hs hr
    refine ⟨⟨hs, h1, ?_, ?_, ?_⟩, ?_⟩
    · have := inv.le_D; simp only; omega
    · simp
    · simp only; omega
    · simp only [midPot, potential, hr]
      have h3 : 0 ≤ ((wd.presolve s.w s.simTime s.prevTime s.firstStep).2 - s.prevTime - 1) * (M cfg + 1) :=
        mul_nonneg (by omega) (by omega)
      simp only [Bool.false_eq_true, if_false]
      nlinarith

theorem solve_mid {D : Int} {s : St W RN RL} (h : Mid cfg D s) :
    Mid cfg D (solvePhase wd cfg s).1 ∧ midPot cfg D (solvePhase wd cfg s).1 = midPot cfg D s := by
  obtain ⟨w', l, heq, _⟩ := solvePhase_spec wd cfg s
  rw [heq]
  exact ⟨⟨h.halt, h.prev_lt, h.le_D, h.trial_lo, h.trial_hi⟩, rfl⟩

theorem next_gt (t h : Int) (hh : 1 ≤ h) : t < (t + h) - (t + h) % h := by
  have := Int.emod_lt_of_pos (t + h) (by omega : 0 < h)
  omega

theorem accept_progress {D : Int} (hH : 1 ≤ cfg.hyd) (hD : cfg.duration ≤ D) {s : St W RN RL} (h : Mid cfg D s) :
    (acceptPhase wd cfg s).halt ≠ none ∨
      (TInv cfg D (acceptPhase wd cfg s) ∧ potential cfg D (acceptPhase wd cfg s) < midPot cfg D s) := by
  have hM := M_nonneg cfg
  have hgt := next_gt s.simTime cfg.hyd hH
  have hth := h.trial_hi
  unfold acceptPhase
  simp only
  split
  · split
    · left; simp
    · split
      · left; simp
      · rename_i hnd
        right
        refine ⟨⟨hgt, by simp only; omega, by simp, by simp⟩, ?_⟩
        simp only [potential, midPot, Bool.false_eq_true, if_false]
        omega
  · split
    · left; simp
    · rename_i hnd
      right
      refine ⟨⟨hgt, by simp only; omega, by simp, by simp⟩, ?_⟩
      simp only [potential, midPot, Bool.false_eq_true, if_false]
      omega

theorem post_progress {D : Int} (hH : 1 ≤ cfg.hyd) (hD : cfg.duration ≤ D) {s : St W RN RL} (h : Mid cfg D s) :
    (postPhase wd cfg s).halt ≠ none ∨
      (TInv cfg D (postPhase wd cfg s) ∧ potential cfg D (postPhase wd cfg s) < midPot cfg D s) := by
  unfold postPhase
  simp only
  split
  · split
    · left; simp
    · rename_i hnt
      right
      have := h.trial_lo
      refine ⟨⟨h.prev_lt, h.le_D, fun _ => by simp only; omega, fun _ => by simp only; omega⟩, ?_⟩
      simp only [potential, midPot, if_true]
      omega
  · exact accept_progress wd cfg hH hD (s := { s with w := (wd.post s.w).1 })
      ⟨h.halt, h.prev_lt, h.le_D, h.trial_lo, h.trial_hi⟩

/-- one pass from a running state: it halts, or the invariant is kept and the measure drops -/
theorem step_progress {D : Int} (hH : 1 ≤ cfg.hyd) (hD : cfg.duration ≤ D) {s : St W RN RL} (hs : s.halt = none)
    (inv : TInv cfg D s) (hc : PresolveOK wd s) :
    (step wd cfg s).halt ≠ none ∨
      (TInv cfg D (step wd cfg s) ∧ potential cfg D (step wd cfg s) < potential cfg D s) := by
  obtain ⟨m1, p1⟩ := presolve_mid wd cfg hs inv hc
  obtain ⟨m2, p2⟩ := solve_mid wd cfg m1
  rw [step_running wd cfg hs]
  split
  · rcases post_progress wd cfg hH hD m2 with h | ⟨h1, h2⟩
    · exact Or.inl h
    · exact Or.inr ⟨h1, by omega⟩
  · left; simp

/-- the measure bounds the number of passes -/
theorem halts_within {D : Int} (hH : 1 ≤ cfg.hyd) (hD : cfg.duration ≤ D) :
    ∀ (n : Nat) (s : St W RN RL), s.halt = none → TInv cfg D s → (∀ k, PresolveOK wd (iter wd cfg k s)) →
      potential cfg D s < n → (iter wd cfg n s).halt ≠ none := by
  intro n
  induction n with
  | zero =>
    intro s _ inv _ hp
    have := potential_nonneg cfg inv
    omega
  | succ n ih =>
    intro s hs inv hc hp
    rw [iter]
    rcases step_progress wd cfg hH hD hs inv (hc 0) with h | ⟨h1, h2⟩
    · rw [iter_of_halted wd cfg h]; exact h
    · by_cases hh : (step wd cfg s).halt = none
      · exact ih _ hh h1 (fun k => hc (k + 1)) (by omega)
      · rw [iter_of_halted wd cfg hh]; exact hh

/-! ### the reported log -/

/-- invariant of the result lists (holds in every reachable state when presolve keeps `prev < sim_time`) -/
structure LInv (s : St W RN RL) : Prop where
  times_le : ∀ t ∈ s.times, t ≤ s.prevTime
  acc_le : ∀ t ∈ s.accepted, t ≤ s.prevTime
  times_sorted : s.times.Pairwise (· < ·)
  acc_sorted : s.accepted.Pairwise (· < ·)
  times_eq : s.times = s.accepted.filter (reportNow cfg)
  nlen : s.nodeRows.length = s.times.length
  llen : s.linkRows.length = s.times.length
  not_already : s.halt ≠ some .raiseAlreadySolved

theorem accept_LInv {s : St W RN RL} (h : LInv cfg s) (hlt : s.prevTime < s.simTime) (hh : s.halt = none) :
    LInv cfg (acceptPhase wd cfg s) := by
  have hnot : ¬ s.times.getLast? = some s.simTime := by
    intro hl
    have := h.times_le _ (List.mem_of_getLast? hl)
    omega
  have hA : ∀ t ∈ s.accepted ++ [s.simTime], t ≤ s.simTime := by
    intro t ht
    rcases List.mem_append.1 ht with h1 | h1
    · have := h.acc_le t h1; omega
    · simp at h1; omega
  have hAs : (s.accepted ++ [s.simTime]).Pairwise (· < ·) := by
    rw [List.pairwise_append]
    refine ⟨h.acc_sorted, by simp, ?_⟩
    intro a ha b hb
    simp at hb; subst hb
    have := h.acc_le a ha; omega
  unfold acceptPhase
  simp only
  split
  · rename_i hrep
    have hT : ∀ t ∈ s.times ++ [s.simTime], t ≤ s.simTime := by
      intro t ht
      rcases List.mem_append.1 ht with h1 | h1
      · have := h.times_le t h1; omega
      · simp at h1; omega
    have hTs : (s.times ++ [s.simTime]).Pairwise (· < ·) := by
      rw [List.pairwise_append]
      refine ⟨h.times_sorted, by simp, ?_⟩
      intro a ha b hb
      simp at hb; subst hb
      have := h.times_le a ha; omega
    have hEq : s.times ++ [s.simTime] = (s.accepted ++ [s.simTime]).filter (reportNow cfg) := by
      rw [List.filter_append, ← h.times_eq]
      simp [hrep]
    split
    · exact ⟨hT, hA, hTs, hAs, hEq, by simp [h.nlen], by simp [h.llen], by simp⟩
    · exact ⟨hT, hA, hTs, hAs, hEq, by simp [h.nlen], by simp [h.llen], by simp [hh]⟩
  · rename_i hrep
    have hT : ∀ t ∈ s.times, t ≤ s.simTime := fun t ht => by have := h.times_le t ht; omega
    have hEq : s.times = (s.accepted ++ [s.simTime]).filter (reportNow cfg) := by
      rw [List.filter_append, ← h.times_eq]
      simp [hrep]
    split
    · exact ⟨hT, hA, h.times_sorted, hAs, hEq, h.nlen, h.llen, by simp⟩
    · exact ⟨hT, hA, h.times_sorted, hAs, hEq, h.nlen, h.llen, by simp [hh]⟩

theorem post_LInv {s : St W RN RL} (h : LInv cfg s) (hlt : s.prevTime < s.simTime) (hh : s.halt = none) :
    LInv cfg (postPhase wd cfg s) := by
  unfold postPhase
  simp only
  split
  · split
    · refine ⟨h.times_le, h.acc_le, h.times_sorted, h.acc_sorted, h.times_eq, h.nlen, h.llen, ?_⟩
      rcases trialHalt_cases cfg with e | e <;> simp [e]
    · exact ⟨h.times_le, h.acc_le, h.times_sorted, h.acc_sorted, h.times_eq, h.nlen, h.llen, by simp [hh]⟩
  · exact accept_LInv wd cfg (s := { s with w := (wd.post s.w).1 })
      ⟨h.times_le, h.acc_le, h.times_sorted, h.acc_sorted, h.times_eq, h.nlen, h.llen, h.not_already⟩ hlt hh

/-- the log invariant is kept by a pass whenever presolve lands after `prev` -/
theorem step_LInv {s : St W RN RL} (h : LInv cfg s) (hs : s.halt = none)
    (hlt : s.prevTime < (presolvePhase wd s).simTime) : LInv cfg (step wd cfg s) := by
  have h1 : LInv cfg (presolvePhase wd s) ∧ (presolvePhase wd s).prevTime = s.prevTime ∧ (presolvePhase wd s).halt = none := by
    cases hr : s.resolve with
    | true => rw [presolvePhase_resolve wd hr]; exact ⟨h, rfl, hs⟩
    | false =>
      rw [presolvePhase_fresh wd hr]
      exact ⟨⟨h.times_le, h.acc_le, h.times_sorted, h.acc_sorted, h.times_eq, h.nlen, h.llen, h.not_already⟩, rfl, hs⟩
  obtain ⟨l1, p1, hh1⟩ := h1
  rw [step_running wd cfg hs]
  obtain ⟨w', l, heq, _⟩ := solvePhase_spec wd cfg (presolvePhase wd s)
  have l2 : LInv cfg (solvePhase wd cfg (presolvePhase wd s)).1 := by
    rw [heq]
    exact ⟨l1.times_le, l1.acc_le, l1.times_sorted, l1.acc_sorted, l1.times_eq, l1.nlen, l1.llen, l1.not_already⟩
  have p2 : (solvePhase wd cfg (presolvePhase wd s)).1.prevTime < (solvePhase wd cfg (presolvePhase wd s)).1.simTime := by
    rw [heq]; simp only; omega
  have hh2 : (solvePhase wd cfg (presolvePhase wd s)).1.halt = none := by rw [heq]; exact hh1
  split
  · exact post_LInv wd cfg l2 p2 hh2
  · refine ⟨l2.times_le, l2.acc_le, l2.times_sorted, l2.acc_sorted, l2.times_eq, l2.nlen, l2.llen, ?_⟩
    rcases failHalt_cases cfg with e | e <;> simp [e]

/-! ### what each pass can do to the logs, the call counter and the halt flag -/

/-- halts that stop the run because a step could not be completed -/
def Halt.isFailure : Halt → Bool
  | .flagNoConv | .flagTrials | .raiseNoConv | .raiseTrials => true
  | _ => false

theorem accept_shape (s : St W RN RL) :
    (acceptPhase wd cfg s).nSolve = s.nSolve ∧ (acceptPhase wd cfg s).calls = s.calls ∧
    s.times <+: (acceptPhase wd cfg s).times ∧ s.nodeRows <+: (acceptPhase wd cfg s).nodeRows ∧
    s.linkRows <+: (acceptPhase wd cfg s).linkRows ∧
    ((acceptPhase wd cfg s).halt = s.halt ∨ (acceptPhase wd cfg s).halt = some .finished ∨
      (acceptPhase wd cfg s).halt = some .raiseAlreadySolved) := by
  unfold acceptPhase
  simp only
  split
  · split
    · simp
    · split <;> simp
  · split <;> simp

/-- shape of a post-solve phase: no solver call; logs only grow; a failure halt leaves the logs untouched -/
theorem post_shape {s : St W RN RL} (hs : s.halt = none) :
    (postPhase wd cfg s).nSolve = s.nSolve ∧ (postPhase wd cfg s).calls = s.calls ∧
    s.times <+: (postPhase wd cfg s).times ∧ s.nodeRows <+: (postPhase wd cfg s).nodeRows ∧
    s.linkRows <+: (postPhase wd cfg s).linkRows ∧
    (∀ h, (postPhase wd cfg s).halt = some h → h.isFailure = true →
      h = trialHalt cfg ∧ (postPhase wd cfg s).times = s.times ∧ (postPhase wd cfg s).nodeRows = s.nodeRows ∧
        (postPhase wd cfg s).linkRows = s.linkRows) := by
  unfold postPhase
  simp only
  split
  · split
    · simp
    · simp [hs]
  · obtain ⟨a, b, c, d, e, f⟩ := accept_shape wd cfg { s with w := (wd.post s.w).1 }
    refine ⟨a, b, c, d, e, ?_⟩
    intro h hh hf
    rcases f with f | f | f
    · rw [f] at hh; simp [hs] at hh
    · rw [f] at hh; cases hh; simp [Halt.isFailure] at hf
    · rw [f] at hh; cases hh; simp [Halt.isFailure] at hf

/-- shape of one pass from a running state -/
theorem step_shape {s : St W RN RL} (hs : s.halt = none) :
    s.nSolve < (step wd cfg s).nSolve ∧ (step wd cfg s).nSolve ≤ s.nSolve + 2 ∧
    s.times <+: (step wd cfg s).times ∧ s.nodeRows <+: (step wd cfg s).nodeRows ∧
    s.linkRows <+: (step wd cfg s).linkRows ∧
    (∀ h, (step wd cfg s).halt = some h → h.isFailure = true →
      (step wd cfg s).times = s.times ∧ (step wd cfg s).nodeRows = s.nodeRows ∧ (step wd cfg s).linkRows = s.linkRows) := by
  have e1 : (presolvePhase wd s).nSolve = s.nSolve ∧ (presolvePhase wd s).times = s.times ∧
      (presolvePhase wd s).nodeRows = s.nodeRows ∧ (presolvePhase wd s).linkRows = s.linkRows ∧
      (presolvePhase wd s).halt = none := by
    cases hr : s.resolve with
    | true => rw [presolvePhase_resolve wd hr]; exact ⟨rfl, rfl, rfl, rfl, hs⟩
    | false => rw [presolvePhase_fresh wd hr]; exact ⟨rfl, rfl, rfl, rfl, hs⟩
  obtain ⟨n1, t1, r1, l1, h1⟩ := e1
  rw [step_running wd cfg hs]
  obtain ⟨w', l, heq, hl⟩ := solvePhase_spec wd cfg (presolvePhase wd s)
  have hlen : 1 ≤ l.length ∧ l.length ≤ 2 := by
    rcases hl with ⟨e, _⟩ | ⟨o, e, _⟩ <;> simp [e]
  have n2 : (solvePhase wd cfg (presolvePhase wd s)).1.nSolve = s.nSolve + l.length := by rw [heq]; simp [n1]
  have t2 : (solvePhase wd cfg (presolvePhase wd s)).1.times = s.times := by rw [heq]; exact t1
  have r2 : (solvePhase wd cfg (presolvePhase wd s)).1.nodeRows = s.nodeRows := by rw [heq]; exact r1
  have l2 : (solvePhase wd cfg (presolvePhase wd s)).1.linkRows = s.linkRows := by rw [heq]; exact l1
  have h2 : (solvePhase wd cfg (presolvePhase wd s)).1.halt = none := by rw [heq]; exact h1
  split
  · obtain ⟨a, _, c, d, e, f⟩ := post_shape wd cfg h2
    rw [t2] at c; rw [r2] at d; rw [l2] at e
    refine ⟨by omega, by omega, c, d, e, ?_⟩
    intro h hh hf
    obtain ⟨_, f1, f2, f3⟩ := f h hh hf
    exact ⟨f1.trans t2, f2.trans r2, f3.trans l2⟩
  · refine ⟨by simp only; omega, by simp only; omega, ?_, ?_, ?_, ?_⟩
    · simp only [t2]; exact List.prefix_refl _
    · simp only [r2]; exact List.prefix_refl _
    · simp only [l2]; exact List.prefix_refl _
    · intro _ _ _; exact ⟨t2, r2, l2⟩

theorem step_mono (s : St W RN RL) :
    s.nSolve ≤ (step wd cfg s).nSolve ∧ s.times <+: (step wd cfg s).times ∧
    s.nodeRows <+: (step wd cfg s).nodeRows ∧ s.linkRows <+: (step wd cfg s).linkRows := by
  by_cases hs : s.halt = none
  · obtain ⟨a, _, c, d, e, _⟩ := step_shape wd cfg hs
    exact ⟨by omega, c, d, e⟩
  · rw [step_of_halted wd cfg hs]
    exact ⟨Nat.le_refl _, List.prefix_refl _, List.prefix_refl _, List.prefix_refl _⟩

/-- nothing that has been reported is ever taken back; the call counter never decreases -/
theorem iter_mono (n : Nat) (s : St W RN RL) :
    s.nSolve ≤ (iter wd cfg n s).nSolve ∧ s.times <+: (iter wd cfg n s).times ∧
    s.nodeRows <+: (iter wd cfg n s).nodeRows ∧ s.linkRows <+: (iter wd cfg n s).linkRows := by
  induction n generalizing s with
  | zero => exact ⟨Nat.le_refl _, List.prefix_refl _, List.prefix_refl _, List.prefix_refl _⟩
  | succ n ih =>
    obtain ⟨a, b, c, d⟩ := step_mono wd cfg s
    obtain ⟨a', b', c', d'⟩ := ih (step wd cfg s)
    exact ⟨Nat.le_trans a a', b.trans b', c.trans c', d.trans d'⟩

/-- a running state that halts within `n` passes makes at least one more solver call -/
theorem nSolve_lt_of_halts {n : Nat} {s : St W RN RL} (hs : s.halt = none) (hh : (iter wd cfg n s).halt ≠ none) :
    s.nSolve < (iter wd cfg n s).nSolve := by
  cases n with
  | zero => exact absurd hs hh
  | succ n =>
    have a := (step_shape wd cfg hs).1
    have b := (iter_mono wd cfg n (step wd cfg s)).1
    rw [iter]; omega

/-! ### two worlds that agree on the first `k` solver calls run in lockstep -/

/-- same controls and rows; the solvers answer alike on the calls numbered `< k` -/
structure Agree (wd wd' : World W RN RL) (k : Nat) : Prop where
  presolve : wd'.presolve = wd.presolve
  post : wd'.post = wd.post
  nodeRow : wd'.nodeRow = wd.nodeRow
  linkRow : wd'.linkRow = wd.linkRow
  solve : ∀ w i b, i < k → wd'.solve w i b = wd.solve w i b

variable {wd} in
theorem Agree.mono {wd' : World W RN RL} {k j : Nat} (A : Agree wd wd' k) (h : j ≤ k) : Agree wd wd' j :=
  ⟨A.presolve, A.post, A.nodeRow, A.linkRow, fun w i b hi => A.solve w i b (by omega)⟩

theorem solveCall_agree {wd' : World W RN RL} {k : Nat} (A : Agree wd wd' k) (s : St W RN RL) (b : Bool)
    (h : s.nSolve < k) : solveCall wd' s b = solveCall wd s b := by
  unfold solveCall; rw [A.solve _ _ _ h]

theorem solvePhase_agree {wd' : World W RN RL} {k : Nat} (A : Agree wd wd' k) (s : St W RN RL)
    (hk : (solvePhase wd cfg s).1.nSolve ≤ k) : solvePhase wd' cfg s = solvePhase wd cfg s := by
  have hn : s.nSolve < k := by
    obtain ⟨w', l, heq, hl⟩ := solvePhase_spec wd cfg s
    have : 1 ≤ l.length := by rcases hl with ⟨e, _⟩ | ⟨o, e, _⟩ <;> simp [e]
    rw [heq] at hk; simp only at hk; omega
  have c1 : solveCall wd' s false = solveCall wd s false := solveCall_agree wd A s false hn
  have e : ∀ w0 : World W RN RL, solvePhase w0 cfg s =
      if (!(solveCall w0 s false).2.ok && cfg.backup) = true then solveCall w0 (solveCall w0 s false).1 true
      else solveCall w0 s false := fun _ => rfl
  rw [e wd] at hk
  rw [e wd', e wd, c1]
  by_cases hc : (!(solveCall wd s false).2.ok && cfg.backup) = true
  · simp only [if_pos hc] at hk ⊢
    have hn2 : (solveCall wd s false).1.nSolve < k := by
      simp only [solveCall] at hk ⊢; omega
    exact solveCall_agree wd A _ true hn2
  · simp only [if_neg hc]

theorem postPhase_agree {wd' : World W RN RL} {k : Nat} (A : Agree wd wd' k) (s : St W RN RL) :
    postPhase wd' cfg s = postPhase wd cfg s := by
  unfold postPhase acceptPhase
  rw [A.post, A.nodeRow, A.linkRow]

theorem step_agree {wd' : World W RN RL} {k : Nat} (A : Agree wd wd' k) (s : St W RN RL)
    (hk : (step wd cfg s).nSolve ≤ k) : step wd' cfg s = step wd cfg s := by
  by_cases hs : s.halt = none
  · have p : presolvePhase wd' s = presolvePhase wd s := by unfold presolvePhase; rw [A.presolve]
    have hk' : (solvePhase wd cfg (presolvePhase wd s)).1.nSolve ≤ k := by
      rw [step_running wd cfg hs] at hk
      split at hk
      · rename_i hok
        have h2 : (solvePhase wd cfg (presolvePhase wd s)).1.halt = none := by
          obtain ⟨w', l, heq, _⟩ := solvePhase_spec wd cfg (presolvePhase wd s)
          rw [heq]
          cases hr : s.resolve with
          | true => rw [presolvePhase_resolve wd hr]; exact hs
          | false => rw [presolvePhase_fresh wd hr]; exact hs
        rw [(post_shape wd cfg h2).1] at hk; exact hk
      · exact hk
    rw [step_running wd cfg hs, step_running wd' cfg hs, p, solvePhase_agree wd cfg A _ hk', postPhase_agree wd cfg A]
  · rw [step_of_halted wd cfg hs, step_of_halted wd' cfg hs]

/-- as long as the first run has made at most `k` solver calls, the second run is in the very same state -/
theorem iter_agree {wd' : World W RN RL} {k : Nat} (A : Agree wd wd' k) (n : Nat) (s : St W RN RL)
    (hk : (iter wd cfg n s).nSolve ≤ k) : iter wd' cfg n s = iter wd cfg n s := by
  induction n with
  | zero => rfl
  | succ n ih =>
    rw [iter_succ'] at hk
    have h1 := (step_mono wd cfg (iter wd cfg n s)).1
    rw [iter_succ', iter_succ', ih (by omega), step_agree wd cfg A _ hk]

/-! ### the trace of solver calls -/

/-- every call either converged or is a failed primary call that the backup solver took over -/
def CallsClean (l : List (Bool × SolveOutcome)) : Prop :=
  ∀ c ∈ l, c.2.ok = true ∨ (cfg.backup = true ∧ c.1 = false)

def Halt.isNoConv : Halt → Bool
  | .flagNoConv | .raiseNoConv => true
  | _ => false

structure CInv (s : St W RN RL) : Prop where
  len : s.nSolve = s.calls.length
  noconv : ∀ h, s.halt = some h → h.isNoConv = true →
    ∃ pre o, s.calls = pre ++ [(cfg.backup, o)] ∧ o.ok = false ∧ CallsClean cfg pre
  clean : (∀ h, s.halt = some h → h.isNoConv = false) → CallsClean cfg s.calls

theorem step_CInv {s : St W RN RL} (hs : s.halt = none) (h : CInv cfg s) : CInv cfg (step wd cfg s) := by
  have hcl : CallsClean cfg s.calls := h.clean (fun x hx => by rw [hs] at hx; cases hx)
  have e1 : (presolvePhase wd s).nSolve = s.nSolve ∧ (presolvePhase wd s).calls = s.calls ∧
      (presolvePhase wd s).halt = none := by
    cases hr : s.resolve with
    | true => rw [presolvePhase_resolve wd hr]; exact ⟨rfl, rfl, hs⟩
    | false => rw [presolvePhase_fresh wd hr]; exact ⟨rfl, rfl, hs⟩
  obtain ⟨n1, c1, h1⟩ := e1
  rw [step_running wd cfg hs]
  obtain ⟨w', l, heq, hl⟩ := solvePhase_spec wd cfg (presolvePhase wd s)
  have n2 : (solvePhase wd cfg (presolvePhase wd s)).1.nSolve = s.nSolve + l.length := by rw [heq]; simp [n1]
  have c2 : (solvePhase wd cfg (presolvePhase wd s)).1.calls = s.calls ++ l := by rw [heq]; simp [c1]
  have h2 : (solvePhase wd cfg (presolvePhase wd s)).1.halt = none := by rw [heq]; exact h1
  split
  · rename_i hok
    obtain ⟨a, b, _, _, _, f⟩ := post_shape wd cfg h2
    have hnc : ∀ x, (postPhase wd cfg (solvePhase wd cfg (presolvePhase wd s)).1).halt = some x → x.isNoConv = false := by
      intro x hx
      cases hn : x.isNoConv with
      | false => rfl
      | true =>
        have hf : x.isFailure = true := by cases x <;> simp_all [Halt.isNoConv, Halt.isFailure]
        have := (f x hx hf).1
        rcases trialHalt_cases cfg with e | e <;> rw [e] at this <;> subst this <;> simp [Halt.isNoConv] at hn
    refine ⟨by rw [a, b, n2, c2, h.len]; simp, ?_, ?_⟩
    · intro x hx hn; rw [hnc x hx] at hn; cases hn
    · intro _
      rw [b, c2]
      intro c hc
      rcases List.mem_append.1 hc with hc | hc
      · exact hcl c hc
      · rcases hl with ⟨e, _⟩ | ⟨o1, e, ho1, hb⟩
        · rw [e] at hc; simp at hc; subst hc; exact Or.inl hok
        · rw [e] at hc; simp at hc
          rcases hc with hc | hc
          · subst hc; exact Or.inr ⟨hb, rfl⟩
          · subst hc; exact Or.inl hok
  · rename_i hok
    have hok' : (solvePhase wd cfg (presolvePhase wd s)).2.ok = false := by simpa using hok
    refine ⟨by simp only; rw [n2, c2, h.len]; simp, ?_, ?_⟩
    · intro x _ _
      simp only [c2]
      rcases hl with ⟨e, hb⟩ | ⟨o1, e, ho1, hb⟩
      · have hb' : cfg.backup = false := by
          rcases hb with hb | hb
          · rw [hok'] at hb; cases hb
          · exact hb
        exact ⟨s.calls, _, by rw [e, hb'], hok', hcl⟩
      · refine ⟨s.calls ++ [(false, o1)], (solvePhase wd cfg (presolvePhase wd s)).2, by rw [e, hb]; simp, hok', ?_⟩
        intro c hc
        rcases List.mem_append.1 hc with hc | hc
        · exact hcl c hc
        · simp at hc; subst hc; exact Or.inr ⟨hb, rfl⟩
    · intro hx
      have := hx (failHalt cfg) rfl
      rcases failHalt_cases cfg with e | e <;> rw [e] at this <;> simp [Halt.isNoConv] at this

end Wntr.RunLoop
