/-
Lemmas for C15: `reverse_sd` (reverse-mode symbolic differentiation over the Python operator list) computes the formal
derivative `D`.

* `symb`        the value `diff_up_symbolic` stores for a tree (the overloads re-applied bottom-up), `sdDom` the domain
                side conditions of the overloads (`0 ** x`, native `if_else` conditions), `symb_sound`;
* `foldAlg_fix` on a list without repeated operators the final dictionary satisfies the node equations;
* `Psi`         the reverse-sweep invariant  `der[v] + Σ_{unprocessed n} der[n] · ∂n/∂v`;
* `diffDown_step`, `sweep_inv`, `reverseSdOn_correct`.
-/
import WntrModel.Model.Rpn
import WntrModel.Lemmas.AmlRpn
import WntrModel.Lemmas.AmlFold
import Mathlib.Tactic.Ring
import Mathlib.Tactic.FieldSimp

namespace Wntr.Aml

/-! ### the symbolic value of a tree -/

/-- what `diff_up_symbolic` stores in `val_dict` for (the operator denoting) a tree -/
def symb : Expr → Option SVal
  | .var i => some (.ex (.var i))
  | .param i => some (.ex (.param i))
  | .const q => some (.ex (.const q))
  | .bin op a b => do let x ← symb a; let y ← symb b; sBin op x y
  | .un op a => (symb a).map (sUn op)
  | .ifElse c t e => do let x ← symb c; let y ← symb t; let z ← symb e; pure (sIfElse x y z)
  | .ineq b lb ub => (symb b).map fun x => sIneq x lb ub

/-- domain side conditions under which the overloads used by `reverse_sd` preserve values: the base of a power did not
fold to the native number 0 (the shortcut `0 ** x → 0`), a condition that folded to a native number is 0 or 1 -/
def sdDom : Expr → Bool
  | .bin .pow a b => sdDom a && sdDom b && (symb a != some (.num 0))
  | .bin _ a b => sdDom a && sdDom b
  | .un _ a => sdDom a
  | .ifElse c t e =>
    sdDom c && sdDom t && sdDom e &&
      (match symb c with | some (.num x) => x == 0 || x == 1 | _ => true)
  | .ineq b _ _ => sdDom b
  | _ => true

theorem symb_leaf (l : PLeaf) : symb l.toExpr = some (.ex l.toExpr) := by
  cases l with
  | var i => rfl
  | param i => rfl
  | flt id v => cases v <;> rfl

theorem sdDom_leaf (l : PLeaf) : sdDom l.toExpr = true := by
  cases l with
  | var i => rfl
  | param i => rfl
  | flt id v => cases v <;> rfl

section Sound
variable {α : Type} [Field α] {O : Ops α}

theorem ite_01 (c : Prop) [Decidable c] (x : Rat) (h : (if c then (1 : Rat) else 0) = x) : x = 0 ∨ x = 1 := by
  by_cases hc : c <;> simp [hc] at h <;> simp [← h]

theorem sIneq_condOk (b : SVal) (lb ub : Option Rat) : ∀ x, sIneq b lb ub = .num x → x = 0 ∨ x = 1 := by
  intro x h
  cases b with
  | ex e => simp [sIneq] at h
  | num y =>
    simp only [sIneq, SVal.num.injEq] at h
    exact ite_01 _ x h

theorem symb_sound (L : LawfulOps O) (env : Env α) (t : Expr) (hd : sdDom t = true) (s : SVal)
    (hs : symb t = some s) : evalS O env s = eval O env t := by
  induction t generalizing s with
  | var i => simp only [symb, Option.some.injEq] at hs; subst hs; rfl
  | param i => simp only [symb, Option.some.injEq] at hs; subst hs; rfl
  | const q => simp only [symb, Option.some.injEq] at hs; subst hs; rfl
  | bin op a b iha ihb =>
    simp only [symb, bind, Option.bind_eq_some_iff] at hs
    obtain ⟨x, hx, y, hy, hr⟩ := hs
    have hda : sdDom a = true := by cases op <;> simp_all [sdDom]
    have hdb : sdDom b = true := by cases op <;> simp_all [sdDom]
    have ha := iha hda x hx
    have hb := ihb hdb y hy
    cases op with
    | pow =>
      simp only [sBin, Option.some.injEq] at hr; subst hr
      have hne : x ≠ .num 0 := by
        intro h; subst h
        simp [sdDom, hx] at hd
      rw [sPow_sound L env x y (fun e h _ => absurd h hne), ha, hb]; rfl
    | add => simp only [sBin, Option.some.injEq] at hr; subst hr; rw [sAdd_sound L, ha, hb]; simp [Ops.bin, L.add_eq]
    | sub => simp only [sBin, Option.some.injEq] at hr; subst hr; rw [sSub_sound L, ha, hb]; simp [Ops.bin, L.sub_eq]
    | mul => simp only [sBin, Option.some.injEq] at hr; subst hr; rw [sMul_sound L, ha, hb]; simp [Ops.bin, L.mul_eq]
    | div => simp only [sBin] at hr; rw [sDiv_sound L env x y s hr, ha, hb]; simp [Ops.bin, L.div_eq]
  | un op a iha =>
    simp only [symb, Option.map_eq_some_iff] at hs
    obtain ⟨x, hx, hr⟩ := hs
    subst hr
    rw [sUn_sound L, iha (by simpa [sdDom] using hd) x hx]; rfl
  | ifElse c t e ihc iht ihe =>
    simp only [symb, bind, Option.bind_eq_some_iff, pure, Option.some.injEq] at hs
    obtain ⟨x, hx, y, hy, z, hz, hr⟩ := hs
    subst hr
    simp only [sdDom, Bool.and_eq_true] at hd
    obtain ⟨⟨⟨hdc, hdt⟩, hde⟩, hcond⟩ := hd
    have hco : ∀ q, x = .num q → q = 0 ∨ q = 1 := by
      intro q hq; subst hq
      simp only [hx] at hcond
      simpa using hcond
    rw [sIfElse_sound L env x y z hco, ihc hdc x hx, iht hdt y hy, ihe hde z hz]; rfl
  | ineq b lb ub ihb =>
    simp only [symb, Option.map_eq_some_iff] at hs
    obtain ⟨x, hx, hr⟩ := hs
    subst hr
    rw [sIneq_sound L]
    have := ihb (by simpa [sdDom] using hd) x hx
    cases x with
    | num q => simp only [SVal.toExpr, evalS_num] at this ⊢; simp only [eval, this]
    | ex e' => simp only [SVal.toExpr, evalS_ex] at this ⊢; simp only [eval, this]

end Sound


theorem lookup_cons_ne {κ β : Type} [BEq κ] [LawfulBEq κ] (j k : κ) (x : β) (m : List (κ × β)) (h : j ≠ k) :
    ((k, x) :: m).lookup j = m.lookup j := by
  have : (j == k) = false := by simpa using h
  simp only [List.lookup_cons, this]

theorem lookup_cons_self {κ β : Type} [BEq κ] [LawfulBEq κ] (k : κ) (x : β) (m : List (κ × β)) :
    ((k, x) :: m).lookup k = some x := by
  simp [List.lookup_cons]

/-! ### lock-step of the symbolic pass (`diff_up_symbolic`) and the tree pass -/

theorem algRel_symb :
    AlgRel (fun (os : Option SVal) (t : Expr) => os = symb t) (fun _ => True) (fun _ _ => True) algS algTree where
  leaf := fun l _ => (symb_leaf l).symm
  bin := by intro op x x' y y' hx hy; subst hx; subst hy; rfl
  un := by intro op x x' hx; subst hx; rfl
  ifElse := by intro c c' t t' e e' hc ht he; subst hc; subst ht; subst he; rfl
  ineq := by intro x x' lb ub _ hx; subst hx; rfl

/-! ### the final dictionary of a pass over a list without repeated operators satisfies the node equations -/

theorem Alg.operand_mono (A : Alg β) {m1 m2 : List (Nat × β)}
    (h : ∀ j, (m1.lookup j).isSome → m2.lookup j = m1.lookup j) (o : Operand) (x : β)
    (hx : A.operand m1 o = some x) : A.operand m2 o = some x := by
  cases o with
  | leaf l => exact hx
  | op i =>
    simp only [Alg.operand] at hx ⊢
    rw [h i (by rw [hx]; rfl), hx]

theorem Alg.node_mono (A : Alg β) {m1 m2 : List (Nat × β)}
    (h : ∀ j, (m1.lookup j).isSome → m2.lookup j = m1.lookup j) (op : PyOp) (x : β)
    (hx : A.node m1 op = some x) : A.node m2 op = some x := by
  cases op with
  | bin o a b =>
    simp only [Alg.node, bind, Option.bind_eq_some_iff, pure] at hx ⊢
    obtain ⟨x1, h1, x2, h2, hr⟩ := hx
    exact ⟨x1, A.operand_mono h a x1 h1, x2, A.operand_mono h b x2 h2, hr⟩
  | un o a =>
    simp only [Alg.node, bind, Option.bind_eq_some_iff, pure] at hx ⊢
    obtain ⟨x1, h1, hr⟩ := hx
    exact ⟨x1, A.operand_mono h a x1 h1, hr⟩
  | ifElse c t e =>
    simp only [Alg.node, bind, Option.bind_eq_some_iff, pure] at hx ⊢
    obtain ⟨x1, h1, x2, h2, x3, h3, hr⟩ := hx
    exact ⟨x1, A.operand_mono h c x1 h1, x2, A.operand_mono h t x2 h2, x3, A.operand_mono h e x3 h3, hr⟩
  | ineq b lb ub =>
    simp only [Alg.node, bind, Option.bind_eq_some_iff, pure] at hx ⊢
    obtain ⟨x1, h1, hr⟩ := hx
    exact ⟨x1, A.operand_mono h b x1 h1, hr⟩

theorem foldAlg_lookup_other (A : Alg β) (u : OpList) (m0 m : List (Nat × β)) (h : foldAlg A u m0 = some m)
    (j : Nat) (hj : ∀ n ∈ u, n.id ≠ j) : m.lookup j = m0.lookup j := by
  induction u generalizing m0 with
  | nil => simp only [foldAlg, Option.some.injEq] at h; subst h; rfl
  | cons n rest ih =>
    simp only [foldAlg] at h
    cases hx : A.node m0 n.op with
    | none => simp [hx] at h
    | some x =>
      simp only [hx, Option.bind_some] at h
      rw [ih _ h (fun k hk => hj k (by simp [hk]))]
      have : j ≠ n.id := fun e => hj n (by simp) e.symm
      exact lookup_cons_ne j n.id x m0 this

theorem foldAlg_fix (A : Alg β) (u : OpList) (hnd : (u.map (·.id)).Nodup) (m0 m : List (Nat × β))
    (hfresh : ∀ n ∈ u, m0.lookup n.id = none) (h : foldAlg A u m0 = some m) :
    ∀ n ∈ u, ∃ x, A.node m n.op = some x ∧ m.lookup n.id = some x := by
  induction u generalizing m0 with
  | nil => intro n hn; cases hn
  | cons n rest ih =>
    simp only [foldAlg] at h
    simp only [List.map_cons, List.nodup_cons, List.mem_map, not_exists, not_and] at hnd
    obtain ⟨hnid, hnd'⟩ := hnd
    cases hx : A.node m0 n.op with
    | none => simp [hx] at h
    | some x =>
      simp only [hx, Option.bind_some] at h
      have hkeep := foldAlg_lookup_other A rest _ m h
      intro k hk
      cases List.mem_cons.mp hk with
      | inl hk' =>
        subst hk'
        have hl : m.lookup k.id = some x := by
          rw [hkeep k.id (fun q hq e => hnid q hq e)]
          exact lookup_cons_self k.id x m0
        refine ⟨x, ?_, hl⟩
        refine A.node_mono ?_ k.op x hx
        intro j hj
        have hjk : j ≠ k.id := by
          intro e; subst e
          rw [hfresh k (by simp)] at hj; cases hj
        have hjr : ∀ q ∈ rest, q.id ≠ j := by
          intro q hq e
          rw [← e, hfresh q (by simp [hq])] at hj; cases hj
        rw [hkeep j hjr]
        exact lookup_cons_ne j k.id x m0 hjk
      | inr hk' =>
        refine ih hnd' _ ?_ h k hk'
        intro q hq
        have : q.id ≠ n.id := fun e => hnid q hq e
        rw [lookup_cons_ne q.id n.id x m0 this]
        exact hfresh q (by simp [hq])

/-! ### trees of the nodes -/

def tauOf (tm : List (Nat × Expr)) (i : Nat) : Expr := (tm.lookup i).getD (.const 0)

def opTree (τ : Nat → Expr) : Operand → Expr
  | .leaf l => l.toExpr
  | .op i => τ i

def nodeTree (τ : Nat → Expr) : PyOp → Expr
  | .bin op a b => .bin op (opTree τ a) (opTree τ b)
  | .un op a => .un op (opTree τ a)
  | .ifElse c t e => .ifElse (opTree τ c) (opTree τ t) (opTree τ e)
  | .ineq b lb ub => .ineq (opTree τ b) lb.bound ub.bound

theorem operand_tree (tm : List (Nat × Expr)) (o : Operand) (t : Expr) (h : algTree.operand tm o = some t) :
    t = opTree (tauOf tm) o := by
  cases o with
  | leaf l => simp only [Alg.operand, Option.some.injEq] at h; exact h.symm
  | op i => simp only [Alg.operand] at h; simp [opTree, tauOf, h]

theorem node_tree (tm : List (Nat × Expr)) (op : PyOp) (t : Expr) (h : algTree.node tm op = some t) :
    t = nodeTree (tauOf tm) op ∧ ∀ o ∈ op.operands, algTree.operand tm o = some (opTree (tauOf tm) o) := by
  cases op with
  | bin o a b =>
    simp only [Alg.node, bind, Option.bind_eq_some_iff, pure, Option.some.injEq] at h
    obtain ⟨x1, h1, x2, h2, hr⟩ := h
    have e1 := operand_tree tm a x1 h1
    have e2 := operand_tree tm b x2 h2
    subst e1; subst e2
    refine ⟨hr.symm, ?_⟩
    intro o ho
    simp only [PyOp.operands, List.mem_cons, List.not_mem_nil, or_false] at ho
    rcases ho with rfl | rfl <;> assumption
  | un o a =>
    simp only [Alg.node, bind, Option.bind_eq_some_iff, pure, Option.some.injEq] at h
    obtain ⟨x1, h1, hr⟩ := h
    have e1 := operand_tree tm a x1 h1
    subst e1
    refine ⟨hr.symm, ?_⟩
    intro o ho
    simp only [PyOp.operands, List.mem_cons, List.not_mem_nil, or_false] at ho
    subst ho; assumption
  | ifElse c t' e =>
    simp only [Alg.node, bind, Option.bind_eq_some_iff, pure, Option.some.injEq] at h
    obtain ⟨x1, h1, x2, h2, x3, h3, hr⟩ := h
    have e1 := operand_tree tm c x1 h1
    have e2 := operand_tree tm t' x2 h2
    have e3 := operand_tree tm e x3 h3
    subst e1; subst e2; subst e3
    refine ⟨hr.symm, ?_⟩
    intro o ho
    simp only [PyOp.operands, List.mem_cons, List.not_mem_nil, or_false] at ho
    rcases ho with rfl | rfl | rfl <;> assumption
  | ineq b lb ub =>
    simp only [Alg.node, bind, Option.bind_eq_some_iff, pure, Option.some.injEq] at h
    obtain ⟨x1, h1, hr⟩ := h
    have e1 := operand_tree tm b x1 h1
    subst e1
    refine ⟨hr.symm, ?_⟩
    intro o ho
    simp only [PyOp.operands, List.mem_cons, List.not_mem_nil, or_false] at ho
    subst ho; assumption

/-- `val_dict[operand]` of the symbolic pass is the symbolic value of the operand's tree -/
theorem valOf_symb {vm : ValMap} {tm : List (Nat × Expr)} (hm : MapRel (fun (os : Option SVal) t => os = symb t) vm tm)
    (o : Operand) (t : Expr) (h : algTree.operand tm o = some t) : valOf vm o = symb t := by
  cases o with
  | leaf l =>
    simp only [Alg.operand, Option.some.injEq] at h
    subst h
    simp only [valOf, Alg.operand, Option.bind_some, id]
    exact (symb_leaf l).symm
  | op i =>
    simp only [Alg.operand] at h
    have hr := hm.lookup i
    rw [h] at hr
    simp only [valOf, Alg.operand]
    generalize vm.lookup i = a at hr
    cases hr with
    | some hxy => simp [hxy]


/-! ### the reverse-sweep invariant -/

section Sweep
variable {α : Type} [Field α] (O : Ops α) (env : Env α) (v : Nat) (τ : Nat → Expr)

/-- value of `der_dict[k]` (0 when absent) -/
def Fd (d : DerMap) (k : Operand) : α :=
  match d.lookup k with
  | some s => evalS O env s
  | none => 0

/-- ∂(operand)/∂v, formally -/
def wOf (k : Operand) : α := eval O env (D v (opTree τ k))

def opSum (d : DerMap) : List PyNode → α
  | [] => 0
  | m :: r => Fd O env d (.op m.id) * wOf O env v τ (.op m.id) + opSum d r

/-- `der[v] + Σ_{n not yet swept} der[n] · ∂n/∂v` -/
def Psi (d : DerMap) (l : List PyNode) : α := Fd O env d (.leaf (.var v)) + opSum O env v τ d l

def KeyOk (k : Operand) (l : List PyNode) : Prop :=
  match k with
  | .leaf _ => True
  | .op i => i ∈ l.map (·.id)

variable {O env v τ}

theorem Fd_cons (d : DerMap) (k k' : Operand) (s : SVal) :
    Fd O env ((k, s) :: d) k' = if k' = k then evalS O env s else Fd O env d k' := by
  unfold Fd
  by_cases h : k' = k
  · subst h; simp
  · simp [lookup_cons_ne k' k s d h, h]

theorem opSum_cons_notin (d : DerMap) (k : Operand) (s : SVal) (l : List PyNode)
    (h : ∀ m ∈ l, Operand.op m.id ≠ k) : opSum O env v τ ((k, s) :: d) l = opSum O env v τ d l := by
  induction l with
  | nil => rfl
  | cons m r ih =>
    simp only [opSum]
    rw [ih (fun q hq => h q (by simp [hq])), Fd_cons, if_neg (h m (by simp))]

theorem opSum_cons_op (d : DerMap) (i : Nat) (s : SVal) (l : List PyNode) (hi : i ∈ l.map (·.id))
    (hnd : (l.map (·.id)).Nodup) :
    opSum O env v τ ((.op i, s) :: d) l =
      opSum O env v τ d l + (evalS O env s - Fd O env d (.op i)) * wOf O env v τ (.op i) := by
  induction l with
  | nil => simp at hi
  | cons m r ih =>
    simp only [List.map_cons, List.nodup_cons] at hnd
    simp only [opSum, Fd_cons]
    by_cases hm : m.id = i
    · subst hm
      have : ∀ q ∈ r, Operand.op q.id ≠ Operand.op m.id := by
        intro q hq e
        simp only [Operand.op.injEq] at e
        exact hnd.1 (by rw [← e]; exact List.mem_map_of_mem hq)
      rw [opSum_cons_notin d _ s r this]
      simp only [if_true]
      ring
    · have hi' : i ∈ r.map (·.id) := by
        simp only [List.map_cons, List.mem_cons] at hi
        rcases hi with e | e
        · exact absurd e.symm hm
        · exact e
      rw [ih hi' hnd.2]
      have : Operand.op m.id ≠ Operand.op i := by simpa using hm
      simp only [if_neg this]
      ring

theorem wOf_leaf (L : LawfulOps O) (l : PLeaf) :
    wOf O env v τ (.leaf l) = if l = .var v then 1 else 0 := by
  unfold wOf opTree
  cases l with
  | var i =>
    simp only [PLeaf.toExpr, D, eval_const]
    by_cases h : i = v
    · subst h; simp [L.ofRat_one]
    · simp [h, L.ofRat_zero]
  | param i => simp [PLeaf.toExpr, D, L.ofRat_zero]
  | flt id x => cases x <;> simp [PLeaf.toExpr, D, L.ofRat_zero]

/-- replacing `der[k]` changes the invariant by (new − old) · ∂k/∂v -/
theorem Psi_cons (L : LawfulOps O) (d : DerMap) (k : Operand) (s : SVal) (l : List PyNode)
    (hk : KeyOk k l) (hnd : (l.map (·.id)).Nodup) :
    Psi O env v τ ((k, s) :: d) l =
      Psi O env v τ d l + (evalS O env s - Fd O env d k) * wOf O env v τ k := by
  unfold Psi
  cases k with
  | leaf lf =>
    rw [opSum_cons_notin d _ s l (fun _ _ e => by cases e), Fd_cons, wOf_leaf L]
    by_cases h : lf = .var v
    · subst h; simp; ring
    · have : Operand.leaf (PLeaf.var v) ≠ Operand.leaf lf := by
        intro e; simp only [Operand.leaf.injEq] at e; exact h e.symm
      simp [h, this]
  | op i =>
    rw [opSum_cons_op d i s l hk hnd, Fd_cons, if_neg (by intro e; cases e)]
    ring

theorem Psi_addTo (L : LawfulOps O) (d d' : DerMap) (k : Operand) (x : SVal) (l : List PyNode)
    (hk : KeyOk k l) (hnd : (l.map (·.id)).Nodup) (h : addTo d k x = some d') :
    Psi O env v τ d' l = Psi O env v τ d l + evalS O env x * wOf O env v τ k := by
  simp only [addTo, Option.map_eq_some_iff] at h
  obtain ⟨c, hc, hd⟩ := h
  subst hd
  rw [Psi_cons L d k _ l hk hnd, sAdd_sound L]
  simp only [Fd, hc]
  ring

theorem Psi_subFrom (L : LawfulOps O) (d d' : DerMap) (k : Operand) (x : SVal) (l : List PyNode)
    (hk : KeyOk k l) (hnd : (l.map (·.id)).Nodup) (h : subFrom d k x = some d') :
    Psi O env v τ d' l = Psi O env v τ d l - evalS O env x * wOf O env v τ k := by
  simp only [subFrom, Option.map_eq_some_iff] at h
  obtain ⟨c, hc, hd⟩ := h
  subst hd
  rw [Psi_cons L d k _ l hk hnd, sSub_sound L]
  simp only [Fd, hc]
  ring

end Sweep


/-! ### one `diff_down` preserves the invariant -/

section Step
variable {α : Type} [Field α] {O : Ops α} {env : Env α} {v : Nat} {τ : Nat → Expr}

theorem sdDom_bin {op : Bin} {a b : Expr} (h : sdDom (.bin op a b) = true) : sdDom a = true ∧ sdDom b = true := by
  cases op <;> simp only [sdDom, Bool.and_eq_true] at h <;> first | exact h | exact h.1

theorem operand_val (L : LawfulOps O) {vm : ValMap} {o : Operand} {s : SVal}
    (hv : valOf vm o = symb (opTree τ o)) (hd : sdDom (opTree τ o) = true) (hs : valOf vm o = some s) :
    evalS O env s = eval O env (opTree τ o) :=
  symb_sound L env _ hd s (by rw [← hv]; exact hs)

theorem evalS_sIneq_congr (L : LawfulOps O) (s : SVal) (t : Expr) (h : evalS O env s = eval O env t)
    (lb ub : Option Rat) : evalS O env (sIneq s lb ub) = eval O env (.ineq t lb ub) := by
  rw [sIneq_sound L]
  cases s with
  | num q => simp only [SVal.toExpr, evalS_num] at h ⊢; simp only [eval, h]
  | ex e' => simp only [SVal.toExpr, evalS_ex] at h ⊢; simp only [eval, h]

theorem sPow_num_sound (L : LawfulOps O) (a : SVal) (q : Rat) :
    evalS O env (sPow a (.num q)) = O.pow (evalS O env a) (O.ofRat q) := by
  rw [sPow_sound L env a (.num q) (fun e _ hb => by cases hb)]; rfl

theorem diffDown_step (L : LawfulOps O) (vm : ValMap) (d d1 : DerMap) (n : PyNode) (rest : List PyNode)
    (hnd : (rest.map (·.id)).Nodup)
    (hkeys : ∀ o ∈ n.op.operands, KeyOk o rest)
    (hval : ∀ o ∈ n.op.operands, valOf vm o = symb (opTree τ o))
    (hnl : ∀ i, Operand.op i ∈ n.op.operands → (τ i).isConstLeaf = false)
    (hdom : sdDom (nodeTree τ n.op) = true)
    (h : diffDown vm d n = some d1) :
    Psi O env v τ d1 rest =
      Psi O env v τ d rest + Fd O env d (.op n.id) * eval O env (D v (nodeTree τ n.op)) := by
  obtain ⟨nid, nop⟩ := n
  simp only at hkeys hval hnl hdom ⊢
  unfold diffDown at h
  simp only [bind, Option.bind_eq_some_iff] at h
  obtain ⟨der, hder, h⟩ := h
  have hF : Fd O env d (.op nid) = evalS O env der := by simp [Fd, hder]
  rw [hF]
  cases nop with
  | bin bop a b =>
    have hka : KeyOk a rest := hkeys a (by simp [PyOp.operands])
    have hkb : KeyOk b rest := hkeys b (by simp [PyOp.operands])
    have hva := hval a (by simp [PyOp.operands])
    have hvb := hval b (by simp [PyOp.operands])
    have hdab := sdDom_bin (by simpa [nodeTree] using hdom)
    obtain ⟨hda, hdb⟩ := hdab
    cases bop with
    | add =>
      simp only [Option.bind_eq_some_iff] at h
      obtain ⟨d', h1, h2⟩ := h
      rw [Psi_addTo L d' d1 b der rest hkb hnd h2, Psi_addTo L d d' a der rest hka hnd h1]
      simp only [nodeTree, D, eval_bin, Ops.bin, L.add_eq, wOf]
      ring
    | sub =>
      simp only [Option.bind_eq_some_iff] at h
      obtain ⟨d', h1, h2⟩ := h
      rw [Psi_subFrom L d' d1 b der rest hkb hnd h2, Psi_addTo L d d' a der rest hka hnd h1]
      simp only [nodeTree, D, eval_bin, Ops.bin, L.sub_eq, wOf]
      ring
    | mul =>
      simp only [Option.bind_eq_some_iff] at h
      obtain ⟨v1, hv1, v2, hv2, d', h1, h2⟩ := h
      have e1 := operand_val (env := env) L hva hda hv1
      have e2 := operand_val (env := env) L hvb hdb hv2
      rw [Psi_addTo L d' d1 b _ rest hkb hnd h2, Psi_addTo L d d' a _ rest hka hnd h1]
      simp only [sMul_sound L, e1, e2, nodeTree, D, eval_bin, Ops.bin, L.add_eq, L.mul_eq, wOf]
      ring
    | div =>
      simp only [Option.bind_eq_some_iff] at h
      obtain ⟨v1, hv1, v2, hv2, t1, ht1, d', h1, t2, ht2, h2⟩ := h
      have e1 := operand_val (env := env) L hva hda hv1
      have e2 := operand_val (env := env) L hvb hdb hv2
      rw [Psi_subFrom L d' d1 b _ rest hkb hnd h2, Psi_addTo L d d' a _ rest hka hnd h1]
      rw [sDiv_sound L env _ _ t1 ht1, sDiv_sound L env _ _ t2 ht2]
      simp only [sMul_sound L, sPow_num_sound L, e1, e2, nodeTree, D, eval_bin, eval_const, Ops.bin, L.sub_eq,
        L.mul_eq, L.div_eq, wOf]
      ring
    | pow =>
      simp only [Option.bind_eq_some_iff] at h
      obtain ⟨v1, hv1, v2, hv2, d', h1, h2⟩ := h
      have e1 := operand_val (env := env) L hva hda hv1
      have e2 := operand_val (env := env) L hvb hdb hv2
      have hne : v1 ≠ .num 0 := by
        intro e; subst e
        have hs : symb (opTree τ a) = some (.num 0) := by rw [← hva]; exact hv1
        simp [nodeTree, sdDom, hs] at hdom
      have hp : ∀ y, evalS O env (sPow v1 y) = O.pow (evalS O env v1) (evalS O env y) :=
        fun y => sPow_sound L env v1 y (fun e ha _ => absurd ha hne)
      have hA : Psi O env v τ d' rest = Psi O env v τ d rest +
          evalS O env der * eval O env (opTree τ b) *
            O.pow (eval O env (opTree τ a)) (eval O env (opTree τ b) - O.ofRat 1) * wOf O env v τ a := by
        rw [Psi_addTo L d d' a _ rest hka hnd h1]
        simp only [sMul_sound L, hp, sSub_sound L, evalS_num, e1, e2]
      have hda' : eval O env (.bin .mul (.bin .mul (opTree τ b)
            (.bin .pow (opTree τ a) (.bin .sub (opTree τ b) (.const 1)))) (D v (opTree τ a))) =
          eval O env (opTree τ b) * O.pow (eval O env (opTree τ a)) (eval O env (opTree τ b) - O.ofRat 1) *
            wOf O env v τ a := by
        simp only [eval_bin, eval_const, Ops.bin, L.mul_eq, L.sub_eq, wOf]
      have hfull : evalS O env (sMul (sMul der (sPow v1 v2)) (sUn .log v1)) =
          evalS O env der * O.pow (eval O env (opTree τ a)) (eval O env (opTree τ b)) *
            O.log (eval O env (opTree τ a)) := by
        simp only [sMul_sound L, hp, sUn_sound L, e1, e2, Ops.un]
      have hlog : ∀ (hcl : (opTree τ b).isConstLeaf = false) (h2' : addTo d' b
            (sMul (sMul der (sPow v1 v2)) (sUn .log v1)) = some d1),
          Psi O env v τ d1 rest = Psi O env v τ d rest +
            evalS O env der * eval O env (D v (nodeTree τ (.bin .pow a b))) := by
        intro hcl h2'
        rw [Psi_addTo L d' d1 b _ rest hkb hnd h2', hA, hfull]
        simp only [nodeTree, D, hcl]
        simp only [Bool.false_eq_true, if_false]
        rw [show ∀ x y, eval O env (.bin .add x y) = eval O env x + eval O env y from
          fun x y => by simp [Ops.bin, L.add_eq], hda']
        simp only [eval_bin, eval_un, Ops.bin, Ops.un, L.mul_eq, wOf]
        ring
      have hskip : ∀ (hcl : (opTree τ b).isConstLeaf = true) (h2' : d' = d1),
          Psi O env v τ d1 rest = Psi O env v τ d rest +
            evalS O env der * eval O env (D v (nodeTree τ (.bin .pow a b))) := by
        intro hcl h2'
        subst h2'
        rw [hA]
        simp only [nodeTree, D, hcl, if_true]
        rw [hda']
        ring
      cases b with
      | op i => exact hlog (hnl i (by simp [PyOp.operands])) h2
      | leaf lf =>
        cases lf with
        | var i => exact hlog rfl h2
        | param i =>
          simp only [pure, Option.some.injEq] at h2
          exact hskip rfl h2
        | flt fid fv =>
          simp only [pure, Option.some.injEq] at h2
          exact hskip (by cases fv <;> rfl) h2
  | un uop a =>
    have hka : KeyOk a rest := hkeys a (by simp [PyOp.operands])
    have hva := hval a (by simp [PyOp.operands])
    have hda : sdDom (opTree τ a) = true := by simpa [nodeTree, sdDom] using hdom
    cases uop with
    | neg =>
      rw [Psi_subFrom L d d1 a der rest hka hnd h]
      simp only [nodeTree, D, eval_un, Ops.un, L.neg_eq, wOf]
      ring
    | abs =>
      simp only [Option.bind_eq_some_iff] at h
      obtain ⟨v1, hv1, h1⟩ := h
      have e1 := operand_val (env := env) L hva hda hv1
      rw [Psi_addTo L d d1 a _ rest hka hnd h1]
      rw [sMul_sound L, sIfElse_sound L env _ _ _ (sIneq_condOk v1 (some 0) none),
        evalS_sIneq_congr L v1 _ e1]
      simp only [evalS_ex, nodeTree, D, eval_bin, eval_const, Ops.bin, L.mul_eq, wOf]
      simp only [eval]
      ring
    | sign =>
      simp only [pure, Option.some.injEq] at h
      subst h
      simp [nodeTree, D, L.ofRat_zero]
    | exp =>
      simp only [Option.bind_eq_some_iff] at h
      obtain ⟨v1, hv1, h1⟩ := h
      have e1 := operand_val (env := env) L hva hda hv1
      rw [Psi_addTo L d d1 a _ rest hka hnd h1]
      simp only [sMul_sound L, sUn_sound L, e1, nodeTree, D, eval_bin, eval_un, Ops.bin, Ops.un, L.mul_eq, wOf]
      ring
    | log =>
      simp only [Option.bind_eq_some_iff] at h
      obtain ⟨v1, hv1, t1, ht1, h1⟩ := h
      have e1 := operand_val (env := env) L hva hda hv1
      rw [Psi_addTo L d d1 a _ rest hka hnd h1, sDiv_sound L env _ _ t1 ht1]
      simp only [e1, nodeTree, D, eval_bin, Ops.bin, L.div_eq, wOf]
      ring
    | sin =>
      simp only [Option.bind_eq_some_iff] at h
      obtain ⟨v1, hv1, h1⟩ := h
      have e1 := operand_val (env := env) L hva hda hv1
      rw [Psi_addTo L d d1 a _ rest hka hnd h1]
      simp only [sMul_sound L, sUn_sound L, e1, nodeTree, D, eval_bin, eval_un, Ops.bin, Ops.un, L.mul_eq, wOf]
      ring
    | cos =>
      simp only [Option.bind_eq_some_iff] at h
      obtain ⟨v1, hv1, h1⟩ := h
      have e1 := operand_val (env := env) L hva hda hv1
      rw [Psi_subFrom L d d1 a _ rest hka hnd h1]
      simp only [sMul_sound L, sUn_sound L, e1, nodeTree, D, eval_bin, eval_un, Ops.bin, Ops.un, L.mul_eq,
        L.neg_eq, wOf]
      ring
    | tan =>
      simp only [Option.bind_eq_some_iff] at h
      obtain ⟨v1, hv1, t1, ht1, h1⟩ := h
      have e1 := operand_val (env := env) L hva hda hv1
      rw [Psi_addTo L d d1 a _ rest hka hnd h1, sDiv_sound L env _ _ t1 ht1]
      simp only [sPow_num_sound L, sUn_sound L, e1, nodeTree, D, eval_bin, eval_un, eval_const, Ops.bin, Ops.un,
        L.div_eq, wOf]
      ring
    | asin =>
      simp only [Option.bind_eq_some_iff] at h
      obtain ⟨v1, hv1, t1, ht1, h1⟩ := h
      have e1 := operand_val (env := env) L hva hda hv1
      rw [Psi_addTo L d d1 a _ rest hka hnd h1, sDiv_sound L env _ _ t1 ht1]
      simp only [sPow_num_sound L, sSub_sound L, evalS_num, e1, nodeTree, D, eval_bin, eval_const, Ops.bin,
        L.div_eq, L.sub_eq, wOf]
      ring
    | acos =>
      simp only [Option.bind_eq_some_iff] at h
      obtain ⟨v1, hv1, t1, ht1, h1⟩ := h
      have e1 := operand_val (env := env) L hva hda hv1
      rw [Psi_subFrom L d d1 a _ rest hka hnd h1, sDiv_sound L env _ _ t1 ht1]
      simp only [sPow_num_sound L, sSub_sound L, evalS_num, e1, nodeTree, D, eval_bin, eval_un, eval_const,
        Ops.bin, Ops.un, L.div_eq, L.sub_eq, L.neg_eq, wOf]
      ring
    | atan =>
      simp only [Option.bind_eq_some_iff] at h
      obtain ⟨v1, hv1, t1, ht1, h1⟩ := h
      have e1 := operand_val (env := env) L hva hda hv1
      rw [Psi_addTo L d d1 a _ rest hka hnd h1, sDiv_sound L env _ _ t1 ht1]
      simp only [sPow_num_sound L, sAdd_sound L, evalS_num, e1, nodeTree, D, eval_bin, eval_const, Ops.bin,
        L.div_eq, L.add_eq, wOf]
      ring
  | ifElse c t e =>
    have hkt : KeyOk t rest := hkeys t (by simp [PyOp.operands])
    have hke : KeyOk e rest := hkeys e (by simp [PyOp.operands])
    have hvc := hval c (by simp [PyOp.operands])
    simp only [nodeTree, sdDom, Bool.and_eq_true] at hdom
    obtain ⟨⟨⟨hdc, _⟩, _⟩, hcond⟩ := hdom
    simp only [Option.bind_eq_some_iff] at h
    obtain ⟨cv, hcv, d', h1, h2⟩ := h
    have ec := operand_val (env := env) L hvc hdc hcv
    have hco : ∀ q, cv = .num q → q = 0 ∨ q = 1 := by
      intro q hq; subst hq
      have hs : symb (opTree τ c) = some (.num q) := by rw [← hvc]; exact hcv
      simp only [hs] at hcond
      simpa using hcond
    rw [Psi_addTo L d' d1 e _ rest hke hnd h2, Psi_addTo L d d' t _ rest hkt hnd h1]
    rw [sIfElse_sound L env cv _ _ hco, sIfElse_sound L env cv _ _ hco, ec]
    simp only [evalS_num, nodeTree, D, wOf, L.ofRat_zero]
    simp only [eval]
    split <;> ring
  | ineq b lb ub =>
    simp only [pure, Option.some.injEq] at h
    subst h
    simp [nodeTree, D, L.ofRat_zero]

end Step


/-! ### the whole reverse sweep -/

section Final
variable {α : Type} [Field α] {O : Ops α} {env : Env α} {v : Nat} {τ : Nat → Expr}

/-- reverse topological order: every operator operand of a node occurs LATER in the list, identities are distinct -/
def RT : List PyNode → Prop
  | [] => True
  | n :: rest => (∀ o ∈ n.op.operands, KeyOk o rest) ∧ n.id ∉ rest.map (·.id) ∧ RT rest

theorem RT.nodup {l : List PyNode} (h : RT l) : (l.map (·.id)).Nodup := by
  induction l with
  | nil => simp
  | cons n rest ih =>
    simp only [List.map_cons, List.nodup_cons]
    exact ⟨h.2.1, ih h.2.2⟩

theorem nodeTree_isConstLeaf (τ : Nat → Expr) (op : PyOp) : (nodeTree τ op).isConstLeaf = false := by
  cases op <;> rfl

theorem sweep_inv (L : LawfulOps O) (vm : ValMap) (l : List PyNode) (hrt : RT l)
    (hτ : ∀ n ∈ l, τ n.id = nodeTree τ n.op)
    (hval : ∀ n ∈ l, ∀ o ∈ n.op.operands, valOf vm o = symb (opTree τ o))
    (hdom : ∀ n ∈ l, sdDom (τ n.id) = true)
    (d d' : DerMap) (h : sweep vm l d = some d') :
    Psi O env v τ d' [] = Psi O env v τ d l := by
  induction l generalizing d with
  | nil => simp only [sweep, Option.some.injEq] at h; subst h; rfl
  | cons n rest ih =>
    simp only [sweep, Option.bind_eq_some_iff] at h
    obtain ⟨d1, h1, h2⟩ := h
    obtain ⟨hk, hnid, hrt'⟩ := hrt
    have hτn := hτ n (by simp)
    have hnl : ∀ i, Operand.op i ∈ n.op.operands → (τ i).isConstLeaf = false := by
      intro i hi
      have : i ∈ rest.map (·.id) := hk _ hi
      obtain ⟨m, hm, rfl⟩ := List.mem_map.mp this
      rw [hτ m (by simp [hm])]
      exact nodeTree_isConstLeaf τ m.op
    have hstep := diffDown_step (env := env) (v := v) L vm d d1 n rest hrt'.nodup hk (hval n (by simp)) hnl
      (by rw [← hτn]; exact hdom n (by simp)) h1
    rw [ih hrt' (fun m hm => hτ m (by simp [hm])) (fun m hm => hval m (by simp [hm]))
      (fun m hm => hdom m (by simp [hm])) d1 h2, hstep]
    simp only [Psi, opSum, wOf, opTree, hτn]
    ring

theorem lookup_const {κ β : Type} [BEq κ] (l : List (κ × β)) (c : β) (hl : ∀ p ∈ l, p.2 = c) (k : κ) (s : β)
    (h : l.lookup k = some s) : s = c := by
  induction l with
  | nil => simp at h
  | cons p r ih =>
    obtain ⟨k', x⟩ := p
    simp only [List.lookup_cons] at h
    cases hb : k == k' with
    | true => simp only [hb, Option.some.injEq] at h; rw [← h]; exact hl (k', x) (by simp)
    | false => simp only [hb] at h; exact ih (fun q hq => hl q (by simp [hq])) h

theorem Fd_initDer (L : LawfulOps O) (u : OpList) (k : Operand) : Fd O env (initDer u) k = 0 := by
  unfold Fd
  cases h : (initDer u).lookup k with
  | none => rfl
  | some s =>
    have : s = .num 0 := by
      refine lookup_const (initDer u) (.num 0) ?_ k s h
      intro p hp
      simp only [initDer, List.mem_flatMap, List.mem_map] at hp
      obtain ⟨_, _, _, _, rfl⟩ := hp
      rfl
    subst this
    simp [L.ofRat_zero]

theorem opSum_initDer (L : LawfulOps O) (u : OpList) (l : List PyNode) : opSum O env v τ (initDer u) l = 0 := by
  induction l with
  | nil => rfl
  | cons m r ih => simp [opSum, ih, Fd_initDer L]

theorem Psi_init (L : LawfulOps O) (u : OpList) (lastId : Nat) (l : List PyNode) (hmem : lastId ∈ l.map (·.id))
    (hnd : (l.map (·.id)).Nodup) :
    Psi O env v τ ((.op lastId, .num 1) :: initDer u) l = wOf O env v τ (.op lastId) := by
  rw [Psi_cons L (initDer u) (.op lastId) (.num 1) l (show KeyOk (.op lastId) l from hmem) hnd]
  simp [Psi, Fd_initDer L, opSum_initDer L, L.ofRat_one]

/-- the reversed list of a well-formed list without repeats is in reverse topological order -/
theorem RT_reverse_acc (u acc : List PyNode) (seen : List Nat) (hacc : RT acc)
    (hseen : ∀ i, i ∈ seen → i ∈ acc.map (·.id)) (hwf : wellFormedFrom seen u = true)
    (hnd : (u.map (·.id)).Nodup) (hdis : ∀ n ∈ u, n.id ∉ acc.map (·.id)) : RT (u.reverse ++ acc) := by
  induction u generalizing acc seen with
  | nil => simpa using hacc
  | cons n rest ih =>
    simp only [wellFormedFrom, Bool.and_eq_true, List.all_eq_true] at hwf
    simp only [List.map_cons, List.nodup_cons] at hnd
    rw [List.reverse_cons, List.append_assoc]
    refine ih (n :: acc) (n.id :: seen) ⟨?_, hdis n (by simp), hacc⟩ ?_ hwf.2 hnd.2 ?_
    · intro o ho
      have := hwf.1 o ho
      cases o with
      | leaf lf => trivial
      | op i =>
        simp only [operandOk, List.contains_eq_mem, decide_eq_true_eq] at this
        exact hseen i this
    · intro i hi
      simp only [List.mem_cons] at hi
      rcases hi with rfl | hi
      · simp
      · simp [hseen i hi]
    · intro m hm
      simp only [List.map_cons, List.mem_cons, not_or]
      refine ⟨?_, hdis m (by simp [hm])⟩
      intro e
      exact hnd.1 (by rw [← e]; exact List.mem_map_of_mem hm)

theorem RT_reverse (u : List PyNode) (hwf : wellFormed u = true) (hnd : (u.map (·.id)).Nodup) : RT u.reverse := by
  have := RT_reverse_acc u [] [] trivial (by simp) hwf hnd (by simp)
  simpa using this

/-- **the reverse sweep over a list without repeated operators computes the formal derivative** of the tree of the
last node, for every variable it reports -/
theorem reverseSdOn_correct (L : LawfulOps O) (ops u : OpList) (hwf : wellFormed u = true)
    (hnd : (u.map (·.id)).Nodup) (tm : List (Nat × Expr)) (htm : foldAlg algTree u [] = some tm)
    (hdom : ∀ n ∈ u, sdDom (tauOf tm n.id) = true) (last : PyNode) (hlast : ops.getLast? = some last)
    (hmem : last.id ∈ u.map (·.id)) (d : DerMap) (h : reverseSdOn ops u = some d) (s : SVal)
    (hj : jacOf d v = some s) :
    evalS O env s = eval O env (D v (tauOf tm last.id)) := by
  simp only [reverseSdOn, bind, Option.bind_eq_some_iff] at h
  obtain ⟨vm, hvm, last', hlast', hsw⟩ := h
  rw [hlast] at hlast'
  simp only [Option.some.injEq] at hlast'
  subst hlast'
  have hrel := foldAlg_rel algRel_symb u (fun n _ => n.op.ok_trivial) (m := []) (m' := []) trivial
  rw [hvm, htm] at hrel
  cases hrel with
  | some hm =>
    have hfix := foldAlg_fix algTree u hnd [] tm (by simp) htm
    have hτ : ∀ n ∈ u, tauOf tm n.id = nodeTree (tauOf tm) n.op := by
      intro n hn
      obtain ⟨x, hx, hl⟩ := hfix n hn
      rw [← (node_tree tm n.op x hx).1]
      simp [tauOf, hl]
    have hval : ∀ n ∈ u, ∀ o ∈ n.op.operands, valOf vm o = symb (opTree (tauOf tm) o) := by
      intro n hn o ho
      obtain ⟨x, hx, _⟩ := hfix n hn
      exact valOf_symb hm o _ ((node_tree tm n.op x hx).2 o ho)
    have hrt := RT_reverse u hwf hnd
    have hinv := sweep_inv (env := env) (v := v) (τ := tauOf tm) L vm u.reverse hrt
      (fun n hn => hτ n (List.mem_reverse.mp hn)) (fun n hn => hval n (List.mem_reverse.mp hn))
      (fun n hn => hdom n (List.mem_reverse.mp hn)) _ d hsw
    rw [Psi_init L u last.id u.reverse (by simpa using hmem) hrt.nodup] at hinv
    simp only [Psi, opSum, add_zero, Fd] at hinv
    simp only [jacOf] at hj
    rw [hj] at hinv
    simpa [wOf, opTree] using hinv

end Final


/-! ### `list(OrderedDict.fromkeys(operators()))` -/

theorem uniqueOps_ids (ops : OpList) (seen : List Nat) :
    ((uniqueOps ops seen).map (·.id)).Nodup ∧ ∀ i ∈ (uniqueOps ops seen).map (·.id), i ∉ seen := by
  induction ops generalizing seen with
  | nil => simp [uniqueOps]
  | cons n rest ih =>
    unfold uniqueOps
    by_cases h : seen.contains n.id = true
    · simp only [h, if_true]; exact ih seen
    · simp only [h, Bool.false_eq_true, if_false]
      obtain ⟨h1, h2⟩ := ih (n.id :: seen)
      refine ⟨?_, ?_⟩
      · simp only [List.map_cons, List.nodup_cons]
        exact ⟨fun hm => (h2 n.id hm) (by simp), h1⟩
      · intro i hi
        simp only [List.map_cons, List.mem_cons] at hi
        rcases hi with rfl | hi
        · simpa using h
        · exact fun hs => h2 i hi (by simp [hs])

theorem uniqueOps_mem_ids (ops : OpList) (seen : List Nat) :
    ∀ n ∈ ops, n.id ∈ seen ∨ n.id ∈ (uniqueOps ops seen).map (·.id) := by
  induction ops generalizing seen with
  | nil => intro n hn; cases hn
  | cons n rest ih =>
    intro m hm
    unfold uniqueOps
    by_cases h : seen.contains n.id = true
    · simp only [h, if_true]
      rcases List.mem_cons.mp hm with rfl | hm'
      · left; simpa using h
      · exact ih seen m hm'
    · simp only [h, Bool.false_eq_true, if_false, List.map_cons, List.mem_cons]
      rcases List.mem_cons.mp hm with rfl | hm'
      · right; left; rfl
      · rcases ih (n.id :: seen) m hm' with h' | h'
        · simp only [List.mem_cons] at h'
          rcases h' with h' | h'
          · right; left; exact h'
          · left; exact h'
        · right; right; exact h'

theorem uniqueOps_sub (ops : OpList) (seen : List Nat) : ∀ n ∈ uniqueOps ops seen, n ∈ ops := by
  induction ops generalizing seen with
  | nil => intro n hn; simp [uniqueOps] at hn
  | cons n rest ih =>
    intro m hm
    unfold uniqueOps at hm
    by_cases h : seen.contains n.id = true
    · simp only [h, if_true] at hm; exact List.mem_cons_of_mem _ (ih seen m hm)
    · simp only [h, Bool.false_eq_true, if_false, List.mem_cons] at hm
      rcases hm with rfl | hm
      · simp
      · exact List.mem_cons_of_mem _ (ih _ m hm)

theorem operandOk_congr {s1 s2 : List Nat} (hs : ∀ i, i ∈ s1 ↔ i ∈ s2) (o : Operand) :
    operandOk s1 o = operandOk s2 o := by
  cases o with
  | leaf l => rfl
  | op i =>
    simp only [operandOk, List.contains_eq_mem]
    exact decide_eq_decide.mpr (hs i)

theorem uniqueOps_wf (ops : OpList) (s1 s2 : List Nat) (hs : ∀ i, i ∈ s1 ↔ i ∈ s2)
    (h : wellFormedFrom s1 ops = true) : wellFormedFrom s2 (uniqueOps ops s2) = true := by
  induction ops generalizing s1 s2 with
  | nil => simp [uniqueOps, wellFormedFrom]
  | cons n rest ih =>
    simp only [wellFormedFrom, Bool.and_eq_true] at h
    unfold uniqueOps
    by_cases hc : s2.contains n.id = true
    · simp only [hc, if_true]
      refine ih (n.id :: s1) s2 ?_ h.2
      intro i
      have hn : n.id ∈ s2 := by simpa using hc
      simp only [List.mem_cons]
      constructor
      · rintro (rfl | hi)
        · exact hn
        · exact (hs i).mp hi
      · intro hi; exact Or.inr ((hs i).mpr hi)
    · simp only [hc, Bool.false_eq_true, if_false, wellFormedFrom, Bool.and_eq_true]
      refine ⟨?_, ih (n.id :: s1) (n.id :: s2) ?_ h.2⟩
      · have := h.1
        simp only [List.all_eq_true] at this ⊢
        intro o ho
        rw [← operandOk_congr hs o]; exact this o ho
      · intro i; simp only [List.mem_cons, hs i]

/-! ### visiting every operator once gives the same dictionary as visiting every occurrence -/

theorem Alg.operand_congr (A : Alg β) {m1 m2 : List (Nat × β)} (h : ∀ i, m1.lookup i = m2.lookup i) (o : Operand) :
    A.operand m1 o = A.operand m2 o := by
  cases o with
  | leaf l => rfl
  | op i => simp only [Alg.operand, h]

theorem Alg.node_congr (A : Alg β) {m1 m2 : List (Nat × β)} (h : ∀ i, m1.lookup i = m2.lookup i) (op : PyOp) :
    A.node m1 op = A.node m2 op := by
  cases op <;> simp only [Alg.node, A.operand_congr h]

theorem foldAlg_unique (A : Alg β) (ops : OpList) (m1 m2 : List (Nat × β)) (seen : List Nat)
    (hcons : ∀ a ∈ ops, ∀ b ∈ ops, a.id = b.id → a.op = b.op)
    (H1 : ∀ i, m1.lookup i = m2.lookup i)
    (H2 : ∀ i, i ∈ seen ↔ (m2.lookup i).isSome = true)
    (H3 : ∀ n ∈ ops, n.id ∈ seen → A.node m1 n.op = m1.lookup n.id)
    (m : List (Nat × β)) (h : foldAlg A ops m1 = some m) :
    ∃ m', foldAlg A (uniqueOps ops seen) m2 = some m' ∧ ∀ i, m.lookup i = m'.lookup i := by
  induction ops generalizing m1 m2 seen with
  | nil =>
    simp only [foldAlg, Option.some.injEq] at h; subst h
    exact ⟨m2, rfl, H1⟩
  | cons n rest ih =>
    simp only [foldAlg, Option.bind_eq_some_iff] at h
    obtain ⟨x, hx, h'⟩ := h
    have hcons' : ∀ a ∈ rest, ∀ b ∈ rest, a.id = b.id → a.op = b.op :=
      fun a ha b hb => hcons a (by simp [ha]) b (by simp [hb])
    -- the new entry never changes an existing one
    have hsame : ∀ y, m1.lookup n.id = some y → y = x := by
      intro y hy
      have hs : n.id ∈ seen := (H2 n.id).mpr (by rw [← H1, hy]; rfl)
      have := H3 n (by simp) hs
      rw [hx, hy] at this
      exact (Option.some.inj this).symm
    have hext : ∀ j, (m1.lookup j).isSome = true → ((n.id, x) :: m1).lookup j = m1.lookup j := by
      intro j hj
      by_cases e : j = n.id
      · subst e
        obtain ⟨y, hy⟩ := Option.isSome_iff_exists.mp hj
        rw [lookup_cons_self, hy, hsame y hy]
      · exact lookup_cons_ne j n.id x m1 e
    have hold : ∀ n' ∈ rest, n'.id ∈ seen →
        A.node ((n.id, x) :: m1) n'.op = ((n.id, x) :: m1).lookup n'.id := by
      intro n' hn' hs
      have hsome : (m1.lookup n'.id).isSome = true := by rw [H1]; exact (H2 _).mp hs
      obtain ⟨y, hy⟩ := Option.isSome_iff_exists.mp hsome
      have := H3 n' (by simp [hn']) hs
      rw [hy] at this
      rw [A.node_mono hext n'.op y this, hext _ hsome, hy]
    unfold uniqueOps
    by_cases hc : seen.contains n.id = true
    · have hs : n.id ∈ seen := by simpa using hc
      simp only [hc, if_true]
      have hl : m1.lookup n.id = some x := by rw [← H3 n (by simp) hs]; exact hx
      refine ih _ m2 seen hcons' ?_ H2 hold h'
      intro i
      by_cases e : i = n.id
      · subst e; rw [lookup_cons_self, ← H1, hl]
      · rw [lookup_cons_ne i n.id x m1 e, H1]
    · have hs : n.id ∉ seen := by simpa using hc
      simp only [hc, Bool.false_eq_true, if_false, foldAlg]
      rw [← A.node_congr H1 n.op, hx]
      simp only [Option.bind_some]
      refine ih _ ((n.id, x) :: m2) (n.id :: seen) hcons' ?_ ?_ ?_ h'
      · intro i
        by_cases e : i = n.id
        · subst e; rw [lookup_cons_self, lookup_cons_self]
        · rw [lookup_cons_ne i n.id x m1 e, lookup_cons_ne i n.id x m2 e, H1]
      · intro i
        by_cases e : i = n.id
        · subst e; simp [lookup_cons_self]
        · rw [lookup_cons_ne i n.id x m2 e, ← H2]
          simp [e]
      · intro n' hn' hs'
        simp only [List.mem_cons] at hs'
        rcases hs' with e | hs'
        · have hop : n'.op = n.op := hcons n' (by simp [hn']) n (by simp) e
          rw [hop, e, lookup_cons_self]
          exact A.node_mono hext n.op x hx
        · exact hold n' hn' hs'

theorem mem_of_lookup {κ β : Type} [BEq κ] [LawfulBEq κ] (l : List (κ × β)) (k : κ) (x : β)
    (h : l.lookup k = some x) : (k, x) ∈ l := by
  induction l with
  | nil => simp at h
  | cons p r ih =>
    obtain ⟨k', y⟩ := p
    by_cases e : k = k'
    · subst e
      rw [lookup_cons_self] at h
      simp only [Option.some.injEq] at h
      subst h; simp
    · rw [lookup_cons_ne k k' y r e] at h
      exact List.mem_cons_of_mem _ (ih h)

/-- the domain side conditions for every operator of the list -/
def sdDomAll (ops : OpList) : Bool :=
  match foldAlg algTree ops [] with
  | some tm => tm.all fun p => sdDom p.2
  | none => true

section Main
variable {α : Type} [Field α] {O : Ops α}

/-- **`reverse_sd` is the formal derivative**, for every well-formed operator list — repeated operators included
(the repaired code visits each operator once, at its first occurrence). -/
theorem reverseSd_correct (L : LawfulOps O) (env : Env α) (ops : OpList) (hwf : wellFormed ops = true)
    (hcons : consistent ops) (e : Expr) (hden : denote ops = some e) (hdom : sdDomAll ops = true)
    (d : DerMap) (h : reverseSd ops = some d) (v : Nat) (s : SVal) (hj : jacOf d v = some s) :
    evalS O env s = eval O env (D v e) := by
  simp only [denote, runAlg, Option.bind_eq_some_iff] at hden
  obtain ⟨tmO, htmO, last, hlast, hle⟩ := hden
  obtain ⟨tm, htm, hsame⟩ := foldAlg_unique algTree ops [] [] [] hcons (fun _ => rfl) (by simp) (by simp) tmO htmO
  obtain ⟨_, hall', hall⟩ := foldAlg_isSome algTree ops [] [] (by simp) hwf
  rw [htmO] at hall'
  simp only [Option.some.injEq] at hall'
  subst hall'
  have hu := uniqueOps_ids ops []
  have hdomu : ∀ n ∈ uniqueOps ops [], sdDom (tauOf tm n.id) = true := by
    intro n hn
    have hn' := uniqueOps_sub ops [] n hn
    obtain ⟨t, ht⟩ := Option.isSome_iff_exists.mp (hall n hn')
    have hmem := mem_of_lookup tmO n.id t ht
    simp only [sdDomAll, htmO, List.all_eq_true] at hdom
    simp only [tauOf, ← hsame, ht, Option.getD_some]
    exact hdom _ hmem
  have hlm : last ∈ ops := List.mem_of_getLast? hlast
  have hmem : last.id ∈ (uniqueOps ops []).map (·.id) := by
    rcases uniqueOps_mem_ids ops [] last hlm with h' | h'
    · cases h'
    · exact h'
  have := reverseSdOn_correct (env := env) (v := v) L ops (uniqueOps ops [])
    (uniqueOps_wf ops [] [] (fun _ => Iff.rfl) hwf) hu.1 tm htm hdomu last hlast hmem d h s hj
  rw [this]
  simp [tauOf, ← hsame, hle]

end Main

end Wntr.Aml
