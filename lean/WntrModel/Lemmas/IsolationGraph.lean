/-
Lemmas for C09, part 2: the CSR data kept by `_initialize_internal_graph` / `_update_internal_graph` reflects the link
statuses ("both entries of a node pair are 1 iff some link of the pair is not Closed") — for every multigraph satisfying the
static contract `StaticP` and every history of status changes.
-/
import WntrModel.Model.IsolationStatic
import Mathlib.Logic.Basic

namespace Wntr.Isolation

/-! ### reading a list after writes -/

theorem getD_set_int (l : List Int) (i j : Nat) (v : Int) :
    (l.set i v).getD j 0 = if i = j ∧ i < l.length then v else l.getD j 0 := by
  simp only [List.getD_eq_getElem?_getD, List.getElem?_set]
  by_cases h : i = j
  · subst h
    by_cases hl : i < l.length <;> simp [hl]
  · simp [h]

theorem writeLink_length (ndx : List (Nat × Nat)) (d : List Int) (k : Nat) (v : Int) :
    (writeLink ndx d k v).length = d.length := by
  unfold writeLink; simp

theorem getD_writeLink_in (ndx : List (Nat × Nat)) (d : List Int) (k : Nat) (v : Int) (p : Nat)
    (h1 : pos1 ndx k < d.length) (h2 : pos2 ndx k < d.length) (hp : inPs ndx k p) :
    (writeLink ndx d k v).getD p 0 = v := by
  unfold writeLink
  unfold pos1 at h1; unfold pos2 at h2
  unfold inPs pos1 pos2 at hp
  simp only [getD_set_int, List.length_set]
  by_cases e2 : (ndx.getD k (0, 0)).2 = p
  · rw [if_pos ⟨e2, h2⟩]
  · rw [if_neg (fun h => e2 h.1)]
    rcases hp with hp | hp
    · rw [if_pos ⟨hp.symm, h1⟩]
    · exact absurd hp.symm e2

theorem getD_writeLink_out (ndx : List (Nat × Nat)) (d : List Int) (k : Nat) (v : Int) (p : Nat)
    (hp : ¬ inPs ndx k p) : (writeLink ndx d k v).getD p 0 = d.getD p 0 := by
  unfold writeLink
  unfold inPs pos1 pos2 at hp
  simp only [getD_set_int, List.length_set]
  rw [if_neg (fun h => hp (Or.inr h.1.symm)), if_neg (fun h => hp (Or.inl h.1.symm))]

/-! ### node pairs -/

theorem samePair_refl (net : Net) (k : Nat) : samePair net k k := Or.inl rfl

theorem samePair_symm {net : Net} {k k' : Nat} (h : samePair net k k') : samePair net k' k := by
  unfold samePair at *
  rcases h with h | h
  · left; exact h.symm
  · right; rw [h]

theorem samePair_trans {net : Net} {a b c : Nat} (h1 : samePair net a b) (h2 : samePair net b c) : samePair net a c := by
  unfold samePair at *
  rcases h1 with h1 | h1 <;> rcases h2 with h2 | h2
  · left; rw [h1, h2]
  · right; rw [h1, h2]
  · right; rw [h1, h2]
  · left; rw [h1, h2]

theorem inPs_iff_of_samePair {net : Net} {ndx} (hpos : posOk net ndx) {k k' : Nat} (hk : k < net.nl) (hk' : k' < net.nl)
    (h : samePair net k k') (p : Nat) : inPs ndx k p ↔ inPs ndx k' p := by
  obtain ⟨b1, b2, b3, b4⟩ := (hpos k hk k' hk').1 h
  constructor
  · intro hp
    rcases hp with hp | hp
    · rw [hp]; exact b3
    · rw [hp]; exact b4
  · intro hp
    rcases hp with hp | hp
    · rw [hp]; exact b1
    · rw [hp]; exact b2

theorem not_inPs_of_not_samePair {net : Net} {ndx} (hpos : posOk net ndx) {k k' : Nat} (hk : k < net.nl) (hk' : k' < net.nl)
    (h : ¬ samePair net k k') (p : Nat) (hp : inPs ndx k' p) : ¬ inPs ndx k p := by
  obtain ⟨b1, b2⟩ := (hpos k hk k' hk').2 h
  rcases hp with hp | hp
  · rw [hp]; exact b1
  · rw [hp]; exact b2

/-- some link of the node pair of `k` is not Closed under the status assignment `st` -/
def pairOpen (net : Net) (st : Nat → Nat) (k : Nat) : Prop := ∃ k', k' < net.nl ∧ samePair net k k' ∧ st k' ≠ 0

theorem pairOpen_congr {net : Net} {st st' : Nat → Nat} (h : ∀ k, k < net.nl → st k = st' k) (k : Nat) :
    pairOpen net st k ↔ pairOpen net st' k := by
  unfold pairOpen
  constructor
  · rintro ⟨k', a, b, c⟩; exact ⟨k', a, b, by rw [← h k' a]; exact c⟩
  · rintro ⟨k', a, b, c⟩; exact ⟨k', a, b, by rw [h k' a]; exact c⟩

theorem pairOpen_of_samePair {net : Net} {st : Nat → Nat} {k k' : Nat} (h : samePair net k k') :
    pairOpen net st k ↔ pairOpen net st k' := by
  unfold pairOpen
  constructor
  · rintro ⟨x, a, b, c⟩; exact ⟨x, a, samePair_trans (samePair_symm h) b, c⟩
  · rintro ⟨x, a, b, c⟩; exact ⟨x, a, samePair_trans h b, c⟩

/-- the value both data positions of link `k` must hold -/
def OkAt (net : Net) (st : Nat → Nat) (k : Nat) (x : Int) : Prop :=
  (pairOpen net st k → x = 1) ∧ (¬ pairOpen net st k → x = 0)

/-- THE invariant: both CSR entries of every link's node pair are 1 iff some link of the pair is not Closed -/
def DataOk (net : Net) (ndx : List (Nat × Nat)) (st : Nat → Nat) (d : List Int) : Prop :=
  ∀ k, k < net.nl → ∀ p, inPs ndx k p → OkAt net st k (d.getD p 0)

theorem DataOk_congr {net : Net} {ndx} {st st' : Nat → Nat} {d} (h : ∀ k, k < net.nl → st k = st' k)
    (hd : DataOk net ndx st d) : DataOk net ndx st' d := by
  intro k hk p hp
  obtain ⟨a, b⟩ := hd k hk p hp
  exact ⟨fun h' => a ((pairOpen_congr h k).mpr h'), fun h' => b (fun h'' => h' ((pairOpen_congr h k).mp h''))⟩

def single (net : Net) (k : Nat) : Prop := ∀ k', k' < net.nl → samePair net k k' → k' = k

theorem pairOpen_single {net : Net} {st : Nat → Nat} {k : Nat} (hk : k < net.nl) (hs : single net k) :
    pairOpen net st k ↔ st k ≠ 0 := by
  unfold pairOpen
  constructor
  · rintro ⟨k', a, b, c⟩; rw [← hs k' a b]; exact c
  · intro h; exact ⟨k, hk, samePair_refl net k, h⟩

theorem okAt_openVal_single {net : Net} {st : Nat → Nat} {k : Nat} (hk : k < net.nl) (hs : single net k) :
    OkAt net st k (openVal (st k)) := by
  unfold OkAt openVal
  rw [pairOpen_single hk hs]
  constructor
  · intro h; rw [if_neg h]
  · intro h; rw [if_pos (not_not.mp h)]

theorem OkAt_unique {net : Net} {st : Nat → Nat} {k : Nat} {x y : Int} (hx : OkAt net st k x) (hy : OkAt net st k y) : x = y := by
  by_cases h : pairOpen net st k
  · rw [hx.1 h, hy.1 h]
  · rw [hx.2 h, hy.2 h]

/-! ### phase 1 of `_update_internal_graph`: the tracked changes -/

theorem phase1 {net : Net} {ndx} (hpos : posOk net ndx) (dlen : Nat) (hb : boundOk net ndx dlen) (f : Nat → Int)
    (k : Nat) (hk : k < net.nl) (hs : single net k) (p : Nat) (hp : inPs ndx k p) :
    ∀ (cs : List Nat) (d : List Int), (∀ c ∈ cs, c < net.nl) → d.length = dlen →
      (k ∉ cs → d.getD p 0 = f k) →
      (cs.foldl (fun d c => writeLink ndx d c (f c)) d).getD p 0 = f k := by
  intro cs
  induction cs with
  | nil => intro d _ _ h; exact h (by simp)
  | cons c cs ih =>
    intro d hlt hlen h
    rw [List.foldl_cons]
    have hc : c < net.nl := hlt c List.mem_cons_self
    apply ih _ (fun c' hc' => hlt c' (List.mem_cons_of_mem _ hc')) (by rw [writeLink_length]; exact hlen)
    intro hkc
    by_cases e : c = k
    · subst e
      exact getD_writeLink_in ndx d c (f c) p (by rw [hlen]; exact (hb c hc).1) (by rw [hlen]; exact (hb c hc).2) hp
    · have hns : ¬ samePair net k c := fun hsp => e (hs c hc hsp)
      have : ¬ inPs ndx c p := by
        intro hcp
        exact (not_inPs_of_not_samePair hpos hk hc hns p hcp) hp
      rw [getD_writeLink_out ndx d c (f c) p this]
      apply h
      intro hm
      rcases List.mem_cons.mp hm with e' | e'
      · exact e e'.symm
      · exact hkc e'

/-! ### the multi-link pass -/

theorem setOpenLinks_length (ndx : List (Nat × Nat)) (st : Nat → Nat) (lst : List Nat) (d : List Int) :
    (setOpenLinks ndx st d lst).length = d.length := by
  unfold setOpenLinks
  induction lst generalizing d with
  | nil => rfl
  | cons l tl ih =>
    rw [List.foldl_cons]
    rw [ih]
    split
    · exact writeLink_length ..
    · rfl

theorem setOpenLinks_in {net : Net} {ndx} (hpos : posOk net ndx) (dlen : Nat) (hb : boundOk net ndx dlen) (st : Nat → Nat)
    (k0 : Nat) (hk0 : k0 < net.nl) (p : Nat) (hp : inPs ndx k0 p) :
    ∀ (lst : List Nat) (d : List Int), (∀ l ∈ lst, l < net.nl ∧ samePair net k0 l) → d.length = dlen →
      ((∃ l ∈ lst, st l ≠ 0) → (setOpenLinks ndx st d lst).getD p 0 = 1) ∧
      ((¬ ∃ l ∈ lst, st l ≠ 0) → (setOpenLinks ndx st d lst).getD p 0 = d.getD p 0) := by
  intro lst
  induction lst with
  | nil =>
    intro d _ _
    refine ⟨?_, fun _ => rfl⟩
    rintro ⟨l, hl, _⟩
    cases hl
  | cons l tl ih =>
    intro d hall hlen
    obtain ⟨hl, hsp⟩ := hall l List.mem_cons_self
    have hall' : ∀ l' ∈ tl, l' < net.nl ∧ samePair net k0 l' := fun l' h' => hall l' (List.mem_cons_of_mem _ h')
    have hpl : inPs ndx l p := (inPs_iff_of_samePair hpos hk0 hl hsp p).mp hp
    unfold setOpenLinks
    rw [List.foldl_cons]
    by_cases ho : st l ≠ 0
    · rw [if_pos ho]
      obtain ⟨i1, i2⟩ := ih (writeLink ndx d l 1) hall' (by rw [writeLink_length]; exact hlen)
      have hw : (writeLink ndx d l 1).getD p 0 = 1 :=
        getD_writeLink_in ndx d l 1 p (by rw [hlen]; exact (hb l hl).1) (by rw [hlen]; exact (hb l hl).2) hpl
      refine ⟨fun _ => ?_, fun h => absurd ⟨l, List.mem_cons_self, ho⟩ h⟩
      by_cases ht : ∃ l' ∈ tl, st l' ≠ 0
      · exact i1 ht
      · have := i2 ht
        unfold setOpenLinks at this
        rw [this, hw]
    · rw [if_neg ho]
      obtain ⟨i1, i2⟩ := ih d hall' hlen
      constructor
      · rintro ⟨l', hl', ho'⟩
        rcases List.mem_cons.mp hl' with e | e
        · subst e; exact absurd ho' ho
        · exact i1 ⟨l', e, ho'⟩
      · intro h
        exact i2 (fun ⟨l', hl', ho'⟩ => h ⟨l', List.mem_cons_of_mem _ hl', ho'⟩)

theorem setOpenLinks_out {net : Net} {ndx} (hpos : posOk net ndx) (st : Nat → Nat)
    (k : Nat) (hk : k < net.nl) (p : Nat) (hp : inPs ndx k p) :
    ∀ (lst : List Nat) (d : List Int), (∀ l ∈ lst, l < net.nl ∧ ¬ samePair net l k) →
      (setOpenLinks ndx st d lst).getD p 0 = d.getD p 0 := by
  intro lst
  induction lst with
  | nil => intro d _; rfl
  | cons l tl ih =>
    intro d hall
    obtain ⟨hl, hsp⟩ := hall l List.mem_cons_self
    unfold setOpenLinks
    rw [List.foldl_cons]
    have hrec := fun d' => ih d' (fun l' h' => hall l' (List.mem_cons_of_mem _ h'))
    unfold setOpenLinks at hrec
    rw [hrec]
    split
    · exact getD_writeLink_out ndx d l 1 p (not_inPs_of_not_samePair hpos hl hk hsp p hp)
    · rfl

/-- a list of `_node_pairs_with_multiple_links`: non-empty, exactly the links of the node pair of its first element -/
def EntryOk (net : Net) (lst : List Nat) : Prop :=
  ∃ first tl, lst = first :: tl ∧ (∀ k ∈ lst, k < net.nl ∧ samePair net first k) ∧
    (∀ k, k < net.nl → samePair net first k → k ∈ lst)

theorem entryOk_of_multiOk {net : Net} {multi} (h : multiOk net multi) (e) (he : e ∈ multi) : EntryOk net e.2 := by
  obtain ⟨k0, hk0, _, hall, hcomp⟩ := h.1 e he
  cases hl : e.2 with
  | nil => rw [hl] at hk0; cases hk0
  | cons first tl =>
    have hf : first ∈ e.2 := by rw [hl]; exact List.mem_cons_self
    have hsf := (hall first hf).2
    refine ⟨first, tl, rfl, ?_, ?_⟩
    · intro k hk
      rw [← hl] at hk
      exact ⟨(hall k hk).1, samePair_trans (samePair_symm hsf) (hall k hk).2⟩
    · intro k hk hsp
      rw [← hl]
      exact hcomp k hk (samePair_trans hsf hsp)

theorem pairOpen_entry {net : Net} {st : Nat → Nat} {lst : List Nat} {first : Nat}
    (hall : ∀ k ∈ lst, k < net.nl ∧ samePair net first k) (hcomp : ∀ k, k < net.nl → samePair net first k → k ∈ lst)
    {k : Nat} (hk : k ∈ lst) : pairOpen net st k ↔ ∃ l ∈ lst, st l ≠ 0 := by
  have hfk := (hall k hk).2
  constructor
  · rintro ⟨k', a, b, c⟩
    exact ⟨k', hcomp k' a (samePair_trans hfk b), c⟩
  · rintro ⟨l, hl, c⟩
    exact ⟨l, (hall l hl).1, samePair_trans (samePair_symm hfk) (hall l hl).2, c⟩

/-- one step of the multi-link pass, started from any data in which the two positions of the pair are 0 -/
theorem pass_step {net : Net} {ndx} (hpos : posOk net ndx) (dlen : Nat) (hb : boundOk net ndx dlen) (st : Nat → Nat)
    (lst : List Nat) (he : EntryOk net lst) (d0 d : List Int) (hlen : d0.length = dlen)
    (hzero : ∀ first tl, lst = first :: tl → ∀ p, (inPs ndx first p → d0.getD p 0 = 0) ∧ (¬ inPs ndx first p → d0.getD p 0 = d.getD p 0))
    (k : Nat) (hk : k < net.nl) (p : Nat) (hp : inPs ndx k p) :
    (k ∈ lst → OkAt net st k ((setOpenLinks ndx st d0 lst).getD p 0)) ∧
    (k ∉ lst → (setOpenLinks ndx st d0 lst).getD p 0 = d.getD p 0) := by
  obtain ⟨first, tl, hl, hall, hcomp⟩ := he
  have hf : first < net.nl := (hall first (by rw [hl]; exact List.mem_cons_self)).1
  obtain hz := hzero first tl hl p
  constructor
  · intro hkl
    have hsp := (hall k hkl).2
    have hpf : inPs ndx first p := (inPs_iff_of_samePair hpos hf hk hsp p).mpr hp
    obtain ⟨i1, i2⟩ := setOpenLinks_in hpos dlen hb st first hf p hpf lst d0 hall hlen
    rw [OkAt, pairOpen_entry hall hcomp hkl]
    exact ⟨i1, fun h => by rw [i2 h]; exact hz.1 hpf⟩
  · intro hkl
    have hns : ¬ samePair net first k := fun h => hkl (hcomp k hk h)
    have hnp : ¬ inPs ndx first p := not_inPs_of_not_samePair hpos hf hk hns p hp
    rw [setOpenLinks_out hpos st k hk p hp lst d0 (fun l hl' => ⟨(hall l hl').1, fun h => hns (samePair_trans (hall l hl').2 h)⟩)]
    exact hz.2 hnp

theorem multiStep_length (ndx : List (Nat × Nat)) (st : Nat → Nat) (d : List Int) (e : (Nat × Nat) × List Nat) :
    (multiStep ndx st d e).length = d.length := by
  unfold multiStep
  split
  · rfl
  · rw [setOpenLinks_length, writeLink_length]

theorem multiStep_read {net : Net} {ndx} (hpos : posOk net ndx) (dlen : Nat) (hb : boundOk net ndx dlen) (st : Nat → Nat)
    (e : (Nat × Nat) × List Nat) (he : EntryOk net e.2) (d : List Int) (hlen : d.length = dlen)
    (k : Nat) (hk : k < net.nl) (p : Nat) (hp : inPs ndx k p) :
    (k ∈ e.2 → OkAt net st k ((multiStep ndx st d e).getD p 0)) ∧
    (k ∉ e.2 → (multiStep ndx st d e).getD p 0 = d.getD p 0) := by
  obtain ⟨first, tl, hl, hall, hcomp⟩ := he
  have hf : first < net.nl := (hall first (by rw [hl]; exact List.mem_cons_self)).1
  have hms : multiStep ndx st d e = setOpenLinks ndx st (writeLink ndx d first 0) e.2 := by
    unfold multiStep; rw [hl]
  rw [hms]
  apply pass_step hpos dlen hb st e.2 ⟨first, tl, hl, hall, hcomp⟩ (writeLink ndx d first 0) d
    (by rw [writeLink_length]; exact hlen) _ k hk p hp
  intro first' tl' hl' q
  have : first' = first := by rw [hl] at hl'; exact (List.cons.inj hl').1.symm
  subst this
  exact ⟨fun hq => getD_writeLink_in ndx d first' 0 q (by rw [hlen]; exact (hb first' hf).1) (by rw [hlen]; exact (hb first' hf).2) hq,
         fun hq => getD_writeLink_out ndx d first' 0 q hq⟩

/-- generic fold over the table: every link that occurs in some list ends up right; the others keep what they had -/
theorem pass_fold {net : Net} (st : Nat → Nat) (dlen : Nat) (stepF : List Int → ((Nat × Nat) × List Nat) → List Int)
    (hlenF : ∀ d e, (stepF d e).length = d.length)
    (k : Nat) (p : Nat)
    (es : List ((Nat × Nat) × List Nat))
    (hstep : ∀ e ∈ es, ∀ d, d.length = dlen →
      (k ∈ e.2 → OkAt net st k ((stepF d e).getD p 0)) ∧ (k ∉ e.2 → (stepF d e).getD p 0 = d.getD p 0)) :
    ∀ (d : List Int), d.length = dlen →
      ((∀ e ∈ es, k ∉ e.2) → OkAt net st k (d.getD p 0)) →
      OkAt net st k ((es.foldl stepF d).getD p 0) := by
  induction es with
  | nil => intro d _ h; exact h (fun e he => by cases he)
  | cons e es ih =>
    intro d hlen h
    rw [List.foldl_cons]
    apply ih (fun e' he' => hstep e' (List.mem_cons_of_mem _ he')) _ (by rw [hlenF]; exact hlen)
    intro hno
    obtain ⟨s1, s2⟩ := hstep e List.mem_cons_self d hlen
    by_cases hke : k ∈ e.2
    · exact s1 hke
    · rw [s2 hke]
      apply h
      intro e' he'
      rcases List.mem_cons.mp he' with e'' | e''
      · rw [e'']; exact hke
      · exact hno e' e''

theorem not_single_inMulti {net : Net} {multi} (h : multiOk net multi) {k : Nat} (hk : k < net.nl) (hns : ¬ single net k) :
    inMulti multi k := by
  unfold single at hns
  rw [not_forall] at hns
  obtain ⟨k', hns⟩ := hns
  rw [Classical.not_imp] at hns
  obtain ⟨a, hns⟩ := hns
  rw [Classical.not_imp] at hns
  obtain ⟨b, c⟩ := hns
  exact h.2 k hk k' a (fun e => c e.symm) b

/-- `_update_internal_graph` re-establishes the invariant for the CURRENT statuses, whatever subset of the changed links the
tracker reports — as long as it reports every link whose status differs from the one the data reflects -/
theorem update_data_ok {net : Net} {ndx multi} (hpos : posOk net ndx) (hmulti : multiOk net multi)
    (hb : boundOk net ndx dlen) (stPrev st : Nat → Nat) (changed : List Nat) (d : List Int) (hlen : d.length = dlen)
    (hd : DataOk net ndx stPrev d) (hch : ∀ c ∈ changed, c < net.nl)
    (htrack : ∀ k, k < net.nl → st k ≠ stPrev k → k ∈ changed) :
    DataOk net ndx st
      (multi.foldl (multiStep ndx st) (changed.foldl (fun d k => writeLink ndx d k (openVal (st k))) d)) := by
  intro k hk p hp
  have hlen1 : (changed.foldl (fun d k => writeLink ndx d k (openVal (st k))) d).length = dlen := by
    clear hd htrack
    induction changed generalizing d with
    | nil => exact hlen
    | cons c cs ih =>
      rw [List.foldl_cons]
      exact ih _ (by rw [writeLink_length]; exact hlen) (fun c' hc' => hch c' (List.mem_cons_of_mem _ hc'))
  apply pass_fold st dlen (multiStep ndx st) (multiStep_length ndx st) k p multi
    (fun e he d' hd' => multiStep_read hpos dlen hb st e (entryOk_of_multiOk hmulti e he) d' hd' k hk p hp) _ hlen1
  intro hno
  have hs : single net k := by
    apply Classical.byContradiction
    intro hns
    obtain ⟨e, he, hke⟩ := not_single_inMulti hmulti hk hns
    exact hno e he hke
  rw [phase1 hpos dlen hb (fun c => openVal (st c)) k hk hs p hp changed d hch hlen]
  · exact okAt_openVal_single hk hs
  · intro hkc
    have hst : st k = stPrev k := by
      apply Classical.byContradiction
      intro hne
      exact hkc (htrack k hk hne)
    rw [hst]
    exact OkAt_unique (hd k hk p hp) (okAt_openVal_single hk hs)

end Wntr.Isolation
