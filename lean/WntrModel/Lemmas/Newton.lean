/- Lemmas for M5c `Newton` (used by Props/C16Newton). -/
import WntrModel.Model.Newton
import Mathlib.Tactic.Linarith

namespace Wntr.Newton

variable {X D : Type} (wd : World X D) (o : Opts)

/-- loop-head invariant of `outer` at `outer_iter = i`: the local `x` is what the model holds; a stored trial norm is
the norm at the model's state; the stored residual is only used once backtracking has started -/
structure Good (i : Nat) (s : St X) : Prop where
  x_loaded : s.x = s.loaded
  stored : s.useR = true → s.newNorm = wd.norm s.loaded
  bt_on : s.useR = true → o.bt = true ∧ o.btStartIter ≤ i

theorem lsLoop_spec (base : X) (d : D) (rNorm : Option Rat) (n : Nat) :
    ∀ (i : Nat) (alpha : Rat) (s : St X),
      let ls := lsLoop wd o base d rNorm i n alpha s
      ls.st.nEval ≤ s.nEval + n ∧ s.nEval ≤ ls.st.nEval ∧ ls.st.useR = s.useR ∧
      (ls.accepted = true → ls.st.newNorm = wd.norm ls.st.loaded ∧ ls.st.x = ls.st.loaded) ∧
      (ls.accepted = false → ((i + n : Nat) : Int) ≤ ls.iterBt + 1) := by
  induction n with
  | zero => intro i alpha s; simp [lsLoop]
  | succ n ih =>
    intro i alpha s
    simp only [lsLoop]
    split
    · simp
    · obtain ⟨a, b, c, e, f⟩ := ih (i + 1) (alpha * o.rho)
        { s with loaded := wd.move base d alpha s.nEval, newNorm := wd.norm (wd.move base d alpha s.nEval), nEval := s.nEval + 1 }
      refine ⟨by simp only at a; omega, by simp only at b; omega, c, e, fun h => by have := f h; omega⟩

theorem fresh_spec {i : Nat} {s : St X} (g : Good wd o i s) :
    (fresh wd s).1.x = s.x ∧ (fresh wd s).1.loaded = s.loaded ∧ (fresh wd s).1.useR = s.useR ∧
    (fresh wd s).1.nEval ≤ s.nEval + 1 ∧ s.nEval ≤ (fresh wd s).1.nEval ∧ (fresh wd s).2 = wd.norm s.loaded := by
  unfold fresh
  cases hu : s.useR with
  | true =>
    have := g.stored hu
    simp [this, hu]
  | false => simp

/-- what one pass guarantees -/
structure PassOK (i : Nat) (s : St X) (r : Step X) : Prop where
  conv : ∀ msg k s', r = .done (.ret .converged msg k) s' → ltO (wd.norm s'.loaded) (some o.tol) = true ∧ msg = .solved ∧ k = i ∧ s'.x = s'.loaded
  next : ∀ s', r = .next s' → Good wd o (i + 1) s'
  evalsD : ∀ out s', r = .done out s' → s'.nEval ≤ s.nEval + (o.btMaxiter + 1)
  evalsN : ∀ s', r = .next s' → s'.nEval ≤ s.nEval + (o.btMaxiter + 1)
  rep : ∀ out s', r = .done out s' →
    (∃ k, out = .ret .converged .solved k) ∨
    (∃ m k, out = .ret .error m k ∧ (m = .timeLimit ∨ m = .singular ∨ m = .lineSearch))

theorem pass_ok {i : Nat} {s : St X} (g : Good wd o i s) : PassOK wd o i s (pass wd o i s) := by
  obtain ⟨fx, fl, fu, fe, fe', fn⟩ := fresh_spec wd o g
  unfold pass
  by_cases ht : wd.timeUp i = true
  · simp only [ht, if_true]
    exact ⟨fun _ _ _ h => (by cases h), fun _ h => (by cases h), fun _ _ h => (by cases h; omega), fun _ h => (by cases h),
      fun _ _ h => (by cases h; exact Or.inr ⟨_, _, rfl, Or.inl rfl⟩)⟩
  · simp only [ht]
    by_cases hlt : ltO (fresh wd s).2 (some o.tol) = true
    · simp only [hlt, if_true]
      refine ⟨fun _ _ _ h => ?_, fun _ h => (by cases h), fun _ _ h => (by cases h; omega), fun _ h => (by cases h),
        fun _ _ h => (by cases h; exact Or.inl ⟨_, rfl⟩)⟩
      cases h
      refine ⟨by rw [fl, ← fn]; exact hlt, rfl, rfl, ?_⟩
      rw [fx, fl]; exact g.x_loaded
    · simp only [hlt]
      cases hlin : wd.lin (fresh wd s).1.loaded i with
      | none =>
        simp only
        exact ⟨fun _ _ _ h => (by cases h), fun _ h => (by cases h), fun _ _ h => (by cases h; omega), fun _ h => (by cases h),
          fun _ _ h => (by cases h; exact Or.inr ⟨_, _, rfl, Or.inr (Or.inl rfl)⟩)⟩
      | some d =>
        simp only
        by_cases hbt : (o.bt && decide (i ≥ o.btStartIter)) = true
        · simp only [hbt, if_true]
          unfold btPass
          simp only
          · obtain ⟨a, _, hu, hacc, hnot⟩ := lsLoop_spec wd o (fresh wd s).1.x d (fresh wd s).2 o.btMaxiter 0 1
              { (fresh wd s).1 with useR := true }
            simp only at a hu
            by_cases hex : (lsLoop wd o (fresh wd s).1.x d (fresh wd s).2 0 o.btMaxiter 1
                { (fresh wd s).1 with useR := true }).iterBt + 1 ≥ (o.btMaxiter : Int)
            · simp only [hex, if_true]
              exact ⟨fun _ _ _ h => (by cases h), fun _ h => (by cases h), fun _ _ h => (by cases h; omega),
                fun _ h => (by cases h),
                fun _ _ h => (by cases h; exact Or.inr ⟨_, _, rfl, Or.inr (Or.inr rfl)⟩)⟩
            · simp only [hex, if_false]
              have hacc' : (lsLoop wd o (fresh wd s).1.x d (fresh wd s).2 0 o.btMaxiter 1
                  { (fresh wd s).1 with useR := true }).accepted = true := by
                by_contra hna
                have := hnot (by simpa using hna)
                omega
              obtain ⟨e1, e2⟩ := hacc hacc'
              simp only [Bool.and_eq_true, decide_eq_true_eq] at hbt
              exact ⟨fun _ _ _ h => (by cases h),
                fun _ h => (by cases h; exact ⟨e2, fun _ => e1, fun _ => ⟨hbt.1, by omega⟩⟩),
                fun _ _ h => (by cases h), fun _ h => (by cases h; omega), fun _ _ h => (by cases h)⟩
        · simp only [hbt]
          unfold plainPass
          have hu : s.useR = false := by
            cases hu : s.useR with
            | false => rfl
            | true =>
              exfalso
              obtain ⟨b1, b2⟩ := g.bt_on hu
              apply hbt
              simp [b1, b2]
          refine ⟨fun _ _ _ h => (by cases h), fun _ h => ?_, fun _ _ h => (by cases h),
            fun _ h => (by cases h; simp only; omega), fun _ _ h => (by cases h)⟩
          cases h
          refine ⟨rfl, ?_, ?_⟩
          · intro hh; simp only at hh; rw [fu, hu] at hh; cases hh
          · intro hh; simp only at hh; rw [fu, hu] at hh; cases hh

/-- **converged ⇒ the model's state has a small residual** (loop form) -/
theorem outer_converged (n : Nat) :
    ∀ (i : Nat) (s : St X), Good wd o i s → ∀ msg k, (outer wd o i n s).1 = .ret .converged msg k →
      ltO (wd.norm (outer wd o i n s).2.loaded) (some o.tol) = true ∧ msg = .solved ∧
        (outer wd o i n s).2.x = (outer wd o i n s).2.loaded := by
  induction n with
  | zero =>
    intro i s _ msg k h
    simp only [outer] at h
    cases h
  | succ n ih =>
    intro i s g msg k h
    have pk := pass_ok wd o g
    simp only [outer] at h ⊢
    cases hp : pass wd o i s with
    | done out s' =>
      rw [hp] at h pk
      simp only at h ⊢
      subst h
      obtain ⟨a, b, _, c⟩ := pk.conv msg k s' rfl
      exact ⟨a, b, c⟩
    | next s' =>
      rw [hp] at h pk
      exact ih (i + 1) s' (pk.next s' rfl) msg k h

/-- every pass makes at most `1 + BT_MAXITER` residual evaluations -/
theorem outer_evals (n : Nat) :
    ∀ (i : Nat) (s : St X), Good wd o i s → (outer wd o i n s).2.nEval ≤ s.nEval + n * (o.btMaxiter + 1) := by
  induction n with
  | zero => intro i s _; simp [outer]
  | succ n ih =>
    intro i s g
    have pk := pass_ok wd o g
    simp only [outer]
    cases hp : pass wd o i s with
    | done out s' =>
      rw [hp] at pk
      have := pk.evalsD out s' rfl
      simp only; nlinarith
    | next s' =>
      rw [hp] at pk
      have h1 := pk.evalsN s' rfl
      have h2 := ih (i + 1) s' (pk.next s' rfl)
      simp only; nlinarith

/-- the shapes an outcome of the main loop can have -/
def Reported (out : Outcome) : Prop :=
  (∃ k, out = .ret .converged .solved k) ∨
  (∃ m k, out = .ret .error m k ∧ (m = .timeLimit ∨ m = .singular ∨ m = .lineSearch ∨ m = .maxIter))

theorem outer_reported (n : Nat) :
    ∀ (i : Nat) (s : St X), Good wd o i s → Reported (outer wd o i n s).1 := by
  induction n with
  | zero =>
    intro i s _
    simp only [outer]
    exact Or.inr ⟨_, _, rfl, by simp⟩
  | succ n ih =>
    intro i s g
    have pk := pass_ok wd o g
    simp only [outer]
    cases hp : pass wd o i s with
    | done out s' =>
      rw [hp] at pk
      simp only
      rcases pk.rep out s' rfl with h | ⟨m, k, h, hm⟩
      · exact Or.inl h
      · refine Or.inr ⟨m, k, h, ?_⟩
        rcases hm with e | e | e <;> simp [e]
    | next s' =>
      rw [hp] at pk
      exact ih (i + 1) s' (pk.next s' rfl)

end Wntr.Newton
