/- Which due controls a pass of the pre-solve scheduler applies (those whose instant is not after the accepted time),
   and the value this leaves on a key — used for the leak window (Props/C08Window). -/
import WntrModel.Lemmas.SchedEarliest

namespace Wntr.Sched

/-! ### the result of `landSpec` -/

theorem dropWhile_back_lt (B : Int) (l : List Due) (hs : l.Pairwise (fun a b => b.back ≤ a.back)) (hB : ∀ x ∈ l, x.back ≤ B) :
    ∀ x ∈ l.dropWhile (fun x => x.back == B), x.back < B := by
  induction l with
  | nil => simp
  | cons y ys ih =>
    rw [List.pairwise_cons] at hs
    by_cases hy : (y.back == B) = true
    · rw [List.dropWhile_cons_of_pos (p := fun x : Due => x.back == B) hy]
      exact ih hs.2 (fun x hx => hB x (List.mem_cons_of_mem _ hx))
    · rw [List.dropWhile_cons_of_neg (p := fun x : Due => x.back == B) hy]
      have hyB := hB y List.mem_cons_self
      have hne : y.back ≠ B := by simpa using hy
      intro x hx
      rcases List.mem_cons.1 hx with rfl | hx
      · omega
      · have := hs.1 x hx; omega

/-- in a list sorted by descending backtrack, `takeWhile (B ≤ back)` is `filter (B ≤ back)` -/
theorem takeWhile_ge_eq_filter (B : Int) (l : List Due) (hs : l.Pairwise (fun a b => b.back ≤ a.back)) :
    l.takeWhile (fun x => decide (B ≤ x.back)) = l.filter (fun x => decide (B ≤ x.back)) := by
  induction l with
  | nil => rfl
  | cons y ys ih =>
    rw [List.pairwise_cons] at hs
    by_cases hy : B ≤ y.back
    · rw [List.takeWhile_cons_of_pos (by simpa using hy), List.filter_cons_of_pos (by simpa using hy), ih hs.2]
    · rw [List.takeWhile_cons_of_neg (by simpa using hy), List.filter_cons_of_neg (by simpa using hy)]
      symm
      apply List.filter_eq_nil_iff.2
      intro x hx
      have := hs.1 x hx
      simp only [decide_eq_true_eq]; omega

/-- **what `landSpec` applies**: either it stays on `cur`, all controls were served and nothing changed; or it lands on
the instant of a due control `d`, the controls served are exactly those with backtrack `≥ d.back` (instant not after
`d`'s), and something changed -/
theorem landSpec_result (ref : Vals) (cur : Int) :
    ∀ (n : Nat) (l : List Due) (v : Vals), l.length ≤ n → l.Pairwise (fun a b => b.back ≤ a.back) → changed ref v = false →
      ((landSpec ref cur l v).1 = cur ∧ (landSpec ref cur l v).2 = l.foldl (fun v x => x.run v) v ∧
          changed ref (landSpec ref cur l v).2 = false) ∨
        (∃ d ∈ l, (landSpec ref cur l v).1 = cur - d.back ∧
          (landSpec ref cur l v).2 = (l.filter (fun x => decide (d.back ≤ x.back))).foldl (fun v x => x.run v) v ∧
          changed ref (landSpec ref cur l v).2 = true) := by
  intro n
  induction n with
  | zero =>
    intro l v hn _ hv
    have : l = [] := List.length_eq_zero_iff.1 (by omega)
    subst this
    rw [landSpec_nil]; exact Or.inl ⟨rfl, rfl, hv⟩
  | succ n ih =>
    intro l v hn hs hv
    cases l with
    | nil => rw [landSpec_nil]; exact Or.inl ⟨rfl, rfl, hv⟩
    | cons d0 ds =>
      have hmax : ∀ x ∈ d0 :: ds, x.back ≤ d0.back := by
        intro x hx
        rcases List.mem_cons.1 hx with rfl | hx
        · exact le_refl _
        · exact (List.pairwise_cons.1 hs).1 x hx
      have hg : (d0 :: ds).takeWhile (fun x => x.back == d0.back) = (d0 :: ds).filter (fun x => decide (d0.back ≤ x.back)) := by
        rw [← takeWhile_ge_eq_filter d0.back _ hs]
        apply takeWhile_congr_mem
        intro x hx
        have := hmax x hx
        by_cases hx' : x.back = d0.back
        · simp [hx']
        · have : ¬ d0.back ≤ x.back := by omega
          simp [hx', this]
      rw [landSpec_cons]
      by_cases hch : changed ref (((d0 :: ds).takeWhile (fun x => x.back == d0.back)).foldl (fun v x => x.run v) v) = true
      · rw [if_pos hch]
        exact Or.inr ⟨d0, List.mem_cons_self, rfl, by rw [hg], hch⟩
      · rw [if_neg hch]
        have hch' : changed ref (((d0 :: ds).takeWhile (fun x => x.back == d0.back)).foldl (fun v x => x.run v) v) = false := by
          simpa using hch
        have hlen : ((d0 :: ds).dropWhile (fun x => x.back == d0.back)).length ≤ n := by
          have : ((d0 :: ds).dropWhile (fun x => x.back == d0.back)) = ds.dropWhile (fun x => x.back == d0.back) := by
            rw [List.dropWhile_cons_of_pos (by simp)]
          rw [this]
          have := (List.dropWhile_sublist (fun x : Due => x.back == d0.back) (l := ds)).length_le
          simp only [List.length_cons] at hn; omega
        have hs' := hs.sublist (List.dropWhile_sublist (fun x : Due => x.back == d0.back))
        have hsplit := List.takeWhile_append_dropWhile (p := fun x : Due => x.back == d0.back) (l := d0 :: ds)
        rcases ih _ _ hlen hs' hch' with ⟨h1, h2, h3⟩ | ⟨d, hd, h1, h2, h3⟩
        · refine Or.inl ⟨h1, ?_, h3⟩
          rw [h2, ← foldl_run_append, hsplit]
        · have hdlt := dropWhile_back_lt d0.back (d0 :: ds) hs hmax d hd
          refine Or.inr ⟨d, (List.dropWhile_sublist _).subset hd, h1, ?_, h3⟩
          rw [h2, ← takeWhile_ge_eq_filter d.back _ hs', ← takeWhile_ge_eq_filter d.back _ hs,
            takeWhile_ge_split (d0 :: ds) d0 ds rfl hs d.back hdlt, foldl_run_append]

/-! ### dropping the controls that do not write a key -/

theorem lastWriter_filter (k : Nat) (l : List Due) :
    lastWriter k (l.filter (fun d => (d.writes k).isSome)) = lastWriter k l := by
  induction l with
  | nil => rfl
  | cons d ds ih =>
    by_cases hd : (d.writes k).isSome = true
    · rw [List.filter_cons_of_pos (p := fun d : Due => (d.writes k).isSome) hd]; simp only [lastWriter, ih]
    · rw [List.filter_cons_of_neg (p := fun d : Due => (d.writes k).isSome) hd]; simp only [lastWriter, ih, hd]
      cases lastWriter k ds <;> simp

/-- only the writers of `k` matter for the value left on `k` -/
theorem foldl_run_get_writers (l : List Due) (v : Vals) (k : Nat) :
    (l.foldl (fun v d => d.run v) v).get k = ((l.filter (fun d => (d.writes k).isSome)).foldl (fun v d => d.run v) v).get k := by
  rw [foldl_run_get, foldl_run_get, lastWriter_filter]

theorem changed_false_get {ref v : Vals} (h : changed ref v = false) (hr : NodupKeys ref) (hv : NodupKeys v) (k : Nat) :
    v.get k = ref.get k := by
  unfold changed at h
  simp only [Bool.or_eq_false_iff, List.any_eq_false, bne_iff_ne, ne_eq, not_not] at h
  -- look the key up in v; if present compare through h.1, else through ref
  have key : ∀ (w : Vals), NodupKeys w → ∀ p ∈ w, Vals.get w p.1 = p.2 := by
    intro w hw p hp
    induction w with
    | nil => simp at hp
    | cons q qs ih =>
      unfold NodupKeys at hw
      simp only [List.map_cons, List.nodup_cons] at hw
      rcases List.mem_cons.1 hp with rfl | hp
      · simp [Vals.get, List.find?]
      · have hne : ¬ (q.1 == p.1) = true := by
          intro he
          have : q.1 = p.1 := by simpa using he
          exact hw.1 (this ▸ List.mem_map.2 ⟨p, hp, rfl⟩)
        have := ih hw.2 hp
        simp only [Vals.get, List.find?, hne] at this ⊢
        exact this
  cases hf : v.find? (fun p => p.1 == k) with
  | some p =>
    have hp := List.mem_of_find?_eq_some hf
    have hk : p.1 = k := by simpa using List.find?_some hf
    have h1 := h.1 p hp
    rw [hk] at h1
    have : v.get k = p.2 := by rw [← hk]; exact key v hv p hp
    rw [this, h1]
  | none =>
    have hvk : v.get k = 0 := by simp [Vals.get, hf]
    cases hg : ref.find? (fun p => p.1 == k) with
    | some q =>
      have hq := List.mem_of_find?_eq_some hg
      have hk : q.1 = k := by simpa using List.find?_some hg
      have h2 := h.2 q hq
      rw [hk] at h2
      have : ref.get k = q.2 := by rw [← hk]; exact key ref hr q hq
      rw [this, ← h2]
    | none => simp [Vals.get, hf, hg]

/-! ### what one pass applies -/

/-- **a pass applies exactly the due controls whose instant is not after the accepted time** (no rules): the values after
`presolve` are the values before with those controls run in the order of the due list -/
theorem presolve_applied {cfg : Cfg} (hR : 0 < cfg.rule) (hnr : cfg.rules = []) {s : St} (inv : Inv cfg s) (hnd : NodupKeys s.vals) :
    (presolve cfg false s).vals =
      ((presolveDue cfg false s).filter (fun d => decide (s.simTime - d.back ≤ (presolve cfg false s).simTime))).foldl
        (fun v d => d.run v) s.vals := by
  have he := presolve_earliest hR false inv (Or.inl hnr) (changed_self _ hnd)
  have hs : (presolveDue cfg false s).Pairwise (fun a b => b.back ≤ a.back) := by
    unfold presolveDue; simp only [Bool.false_eq_true, if_false]; exact sortDue_sorted _
  have h1 : (presolve cfg false s).simTime = (landSpec s.vals s.simTime (presolveDue cfg false s) s.vals).1 := by rw [← he]
  have h2 : (presolve cfg false s).vals = (landSpec s.vals s.simTime (presolveDue cfg false s) s.vals).2 := by rw [← he]
  rw [h1, h2]
  rcases landSpec_result s.vals s.simTime _ _ s.vals (le_refl _) hs (changed_self _ hnd) with ⟨e1, e2, _⟩ | ⟨d, hd, e1, e2, _⟩
  · rw [e1, e2]
    congr 1
    symm
    apply List.filter_eq_self.2
    intro x hx
    have := (presolveDue_mem inv.lt hx).2.1
    simp only [decide_eq_true_eq]; omega
  · rw [e1, e2]
    congr 1
    apply List.filter_congr
    intro x _
    simp only [decide_eq_decide]; omega

/-- if a pass accepts a time later than the instant of a due control `d`, serving all controls due up to `d`'s instant
changed nothing (same statement as `C04.earliest_effective_instant`) -/
theorem pass_earliest {cfg : Cfg} (hR : 0 < cfg.rule) {s : St} (inv : Inv cfg s) (hin : RulesInert cfg s)
    (hnd : NodupKeys s.vals) (d : Due) (hd : d ∈ presolveDue cfg false s)
    (hlt : s.simTime - d.back < (presolve cfg false s).simTime) :
    changed s.vals (((presolveDue cfg false s).takeWhile (fun x => decide (d.back ≤ x.back))).foldl (fun v x => x.run v) s.vals) = false := by
  have he := presolve_earliest hR false inv hin (changed_self _ hnd)
  have h1 : (presolve cfg false s).simTime = (landSpec s.vals s.simTime (presolveDue cfg false s) s.vals).1 := by rw [← he]
  rw [h1] at hlt
  have hs : (presolveDue cfg false s).Pairwise (fun a b => b.back ≤ a.back) := by
    unfold presolveDue; simp only [Bool.false_eq_true, if_false]; exact sortDue_sorted _
  exact landSpec_earliest s.vals s.simTime _ _ s.vals (le_refl _) hs d hd hlt

/-- on the first pass of a fresh model (`prev = cur − 1`) every backtrack is 0 anyway: the first-step override is void -/
theorem presolve_first_eq {cfg : Cfg} {s : St} (h : s.simTime = s.prevTime + 1) : presolve cfg true s = presolve cfg false s := by
  have hd : presolveDue cfg true s = presolveDue cfg false s := by
    unfold presolveDue
    simp only [if_true, Bool.false_eq_true, if_false]
    conv_rhs => rw [← List.map_id (sortDue (check cfg.startClock s.prevTime s.simTime cfg.presolve))]
    apply List.map_congr_left
    intro d hd
    have := check_mem (by omega : s.prevTime < s.simTime) (mem_sortDue.1 hd)
    have hb : d.back = 0 := by omega
    cases d; simp only at hb; subst hb; rfl
  rw [presolve_eq, presolve_eq, hd]

/-! ### simple one-shot time controls (`Control._time_control(wn, t, 'SIM_TIME', False, action)`) -/

/-- all controls of the list are of that shape -/
def AllTimeCtls (cs : List Ctl) : Prop := ∀ c ∈ cs, ∃ id prio thr key value, c = timeCtl id prio thr key value

theorem mem_check_timeCtls {sc prev cur : Int} {cs : List Ctl} (hall : AllTimeCtls cs) {d : Due} :
    d ∈ check sc prev cur cs ↔
      ∃ id prio thr key value, timeCtl id prio thr key value ∈ cs ∧ prev < thr ∧ thr ≤ cur ∧
        d = ⟨timeCtl id prio thr key value, .thenB, cur - thr⟩ := by
  unfold check
  rw [List.mem_filterMap]
  constructor
  · rintro ⟨c, hc, hcd⟩
    obtain ⟨id, prio, thr, key, value, rfl⟩ := hall c hc
    have hev : (timeCtl id prio thr key value).cond.eval sc prev cur =
        if prev < thr ∧ thr ≤ cur then (true, some (cur - thr)) else (false, some 0) := by
      simp only [timeCtl, Cond.eval]; exact Wntr.Time.simTime_eq_spec thr prev cur
    rw [hev] at hcd
    by_cases hw : prev < thr ∧ thr ≤ cur
    · rw [if_pos hw] at hcd
      simp only [if_true, Option.getD_some, Option.some.injEq] at hcd
      exact ⟨id, prio, thr, key, value, hc, hw.1, hw.2, hcd.symm⟩
    · rw [if_neg hw] at hcd
      simp [timeCtl] at hcd
  · rintro ⟨id, prio, thr, key, value, hc, h1, h2, rfl⟩
    refine ⟨_, hc, ?_⟩
    have hev : (timeCtl id prio thr key value).cond.eval sc prev cur = (true, some (cur - thr)) := by
      simp only [timeCtl, Cond.eval]; rw [Wntr.Time.simTime_eq_spec, if_pos ⟨h1, h2⟩]
    rw [hev]; rfl

theorem timeCtl_due_writes (id prio : Nat) (thr : Int) (key : Nat) (value b : Int) (k : Nat) :
    (⟨timeCtl id prio thr key value, .thenB, b⟩ : Due).writes k = if key = k then some value else none := by
  simp only [Due.writes, Due.acts, timeCtl, actsWrite]

/-- the last writer of `k` in a list sorted by descending backtrack has the smallest backtrack among the writers (it
is the one with the latest instant) -/
theorem lastWriter_min_back {k : Nat} {l : List Due} (hs : l.Pairwise (fun a b => b.back ≤ a.back)) {x : Due}
    (h : lastWriter k l = some x) : ∀ y ∈ l, (y.writes k).isSome → x.back ≤ y.back := by
  induction l with
  | nil => simp [lastWriter] at h
  | cons d ds ih =>
    rw [List.pairwise_cons] at hs
    simp only [lastWriter] at h
    cases h2 : lastWriter k ds with
    | some w =>
      rw [h2] at h; simp only [Option.some.injEq] at h; subst h
      intro y hy hyw
      rcases List.mem_cons.1 hy with rfl | hy
      · exact hs.1 _ (lastWriter_some h2).1
      · exact ih hs.2 h2 y hy hyw
    | none =>
      rw [h2] at h
      by_cases hd : (d.writes k).isSome
      · simp only [hd, if_true, Option.some.injEq] at h; subst h
        intro y hy hyw
        rcases List.mem_cons.1 hy with rfl | hy
        · exact le_refl _
        · have := lastWriter_none h2 y hy; simp [this] at hyw
      · simp [hd] at h

/-! ### leaks: what `Junction.add_leak` / `Tank.add_leak` register -/

/-- the leak is on at time `t` according to the two controls: the start instant was reached, and the end instant was
not reached after it (`end < start`: the end control fires first and the leak then stays on) -/
def Leak.on (l : Leak) (t : Int) : Bool :=
  decide (l.start ≤ t) && (match l.stop with | none => true | some e => decide (t < e) || decide (e < l.start))

theorem Leak.on_iff (l : Leak) (t : Int) :
    l.on t = true ↔ l.start ≤ t ∧ (match l.stop with | none => True | some e => t < e ∨ e < l.start) := by
  unfold Leak.on; cases l.stop <;> simp

def Leak.val (l : Leak) (t : Int) : Int := if l.on t then 1 else 0

theorem leakCtls_all (ls : List Leak) : AllTimeCtls (leakCtls ls) := by
  intro c hc
  obtain ⟨l, _, hcl⟩ := List.mem_flatMap.1 hc
  unfold Leak.ctls at hcl
  rcases List.mem_cons.1 hcl with rfl | hcl
  · exact ⟨_, _, _, _, _, rfl⟩
  · cases hs : l.stop with
    | none => rw [hs] at hcl; simp at hcl
    | some e => rw [hs] at hcl; simp only [List.mem_singleton] at hcl; exact ⟨_, _, _, _, _, hcl⟩

theorem leak_unique {ls : List Leak} (hd : ls.Pairwise (fun a b => a.key ≠ b.key)) {a b : Leak} (ha : a ∈ ls) (hb : b ∈ ls)
    (hk : a.key = b.key) : a = b := by
  induction ls with
  | nil => simp at ha
  | cons x xs ih =>
    rw [List.pairwise_cons] at hd
    rcases List.mem_cons.1 ha with hax | ha <;> rcases List.mem_cons.1 hb with hbx | hb
    · rw [hax, hbx]
    · exact absurd (hax ▸ hk) (hd.1 _ hb)
    · exact absurd (hbx ▸ hk.symm) (hd.1 _ ha)
    · exact ih hd.2 ha hb

/-- a time control of the leak configuration that writes the key of `l` is `l`'s start or end control -/
theorem leak_ctl_of_key {ls : List Leak} (hd : ls.Pairwise (fun a b => a.key ≠ b.key)) {l : Leak} (hl : l ∈ ls)
    {id prio : Nat} {thr : Int} {value : Int} (h : timeCtl id prio thr l.key value ∈ leakCtls ls) :
    (thr = l.start ∧ value = 1) ∨ (l.stop = some thr ∧ value = 0) := by
  obtain ⟨l', hl', hc⟩ := List.mem_flatMap.1 h
  unfold Leak.ctls at hc
  rcases List.mem_cons.1 hc with hc | hc
  · simp only [timeCtl, Ctl.mk.injEq, Cond.sim.injEq, Wntr.Time.SimTimeCond.mk.injEq, List.cons.injEq, Action.mk.injEq] at hc
    have : l = l' := leak_unique hd hl hl' (by omega)
    subst this
    exact Or.inl ⟨by omega, by omega⟩
  · cases hs : l'.stop with
    | none => rw [hs] at hc; simp at hc
    | some e =>
      rw [hs] at hc
      simp only [List.mem_singleton, timeCtl, Ctl.mk.injEq, Cond.sim.injEq, Wntr.Time.SimTimeCond.mk.injEq, List.cons.injEq, Action.mk.injEq] at hc
      have : l = l' := leak_unique hd hl hl' (by omega)
      subst this
      exact Or.inr ⟨by rw [hs]; congr 1; omega, by omega⟩

theorem leak_start_mem {ls : List Leak} {l : Leak} (hl : l ∈ ls) : timeCtl (2 * l.key) 3 l.start l.key 1 ∈ leakCtls ls :=
  List.mem_flatMap.2 ⟨l, hl, List.mem_cons_self⟩

theorem leak_stop_mem {ls : List Leak} {l : Leak} (hl : l ∈ ls) {e : Int} (he : l.stop = some e) :
    timeCtl (2 * l.key + 1) 3 e l.key 0 ∈ leakCtls ls :=
  List.mem_flatMap.2 ⟨l, hl, by unfold Leak.ctls; rw [he]; simp⟩

/-- **the value a set of applied leak controls leaves on `l`'s key**: `F` = the controls with instant in `(p, t]`, in
the order of the due list -/
theorem leak_apply {ls : List Leak} (hd : ls.Pairwise (fun a b => a.key ≠ b.key)) {l : Leak} (hl : l ∈ ls)
    (hne : l.stop ≠ some l.start) (p t cur : Int) (F : List Due) (hs : F.Pairwise (fun a b => b.back ≤ a.back))
    (hF : ∀ d, d ∈ F ↔ ∃ id prio thr key value, timeCtl id prio thr key value ∈ leakCtls ls ∧ p < thr ∧ thr ≤ t ∧
      d = ⟨timeCtl id prio thr key value, .thenB, cur - thr⟩) (v : Vals) (hv : v.get l.key = l.val p) (hpt : p ≤ t) :
    (F.foldl (fun v d => d.run v) v).get l.key = l.val t := by
  rw [foldl_run_get]
  have hstartF : p < l.start → l.start ≤ t → (⟨timeCtl (2 * l.key) 3 l.start l.key 1, .thenB, cur - l.start⟩ : Due) ∈ F :=
    fun h1 h2 => (hF _).2 ⟨_, _, _, _, _, leak_start_mem hl, h1, h2, rfl⟩
  have hstopF : ∀ e, l.stop = some e → p < e → e ≤ t → (⟨timeCtl (2 * l.key + 1) 3 e l.key 0, .thenB, cur - e⟩ : Due) ∈ F :=
    fun e he h1 h2 => (hF _).2 ⟨_, _, _, _, _, leak_stop_mem hl he, h1, h2, rfl⟩
  cases hlw : lastWriter l.key F with
  | none =>
    simp only
    have hnone := lastWriter_none hlw
    have h1 : ¬ (p < l.start ∧ l.start ≤ t) := by
      rintro ⟨a, b⟩
      have := hnone _ (hstartF a b)
      rw [timeCtl_due_writes] at this; simp at this
    have h2 : ∀ e, l.stop = some e → ¬ (p < e ∧ e ≤ t) := by
      rintro e he ⟨a, b⟩
      have := hnone _ (hstopF e he a b)
      rw [timeCtl_due_writes] at this; simp at this
    rw [hv]
    unfold Leak.val Leak.on
    cases hst : l.stop with
    | none => by_cases hp : l.start ≤ p <;> by_cases ht : l.start ≤ t <;> simp [hp, ht] <;> omega
    | some e =>
      have := h2 e hst
      by_cases hp : l.start ≤ p <;> by_cases ht : l.start ≤ t <;> by_cases h3 : p < e <;> by_cases h4 : t < e <;>
        by_cases h5 : e < l.start <;> simp [hp, ht, h3, h4, h5] <;> omega
  | some x =>
    simp only
    obtain ⟨hxF, hxw⟩ := lastWriter_some hlw
    have hmin := lastWriter_min_back hs hlw
    obtain ⟨id, prio, thr, key, value, hmem, hp1, hp2, rfl⟩ := (hF x).1 hxF
    rw [timeCtl_due_writes] at hxw ⊢
    by_cases hk : key = l.key
    · subst hk
      simp only [if_true, Option.getD_some]
      rcases leak_ctl_of_key hd hl hmem with ⟨h1, h2⟩ | ⟨h1, h2⟩
      · -- the last writer is the start control
        subst h1; subst h2
        have hnoend : ∀ e, l.stop = some e → ¬ (p < e ∧ e ≤ t ∧ l.start < e) := by
          rintro e he ⟨a, b, c⟩
          have := hmin _ (hstopF e he a b) (by rw [timeCtl_due_writes]; simp)
          simp only at this; omega
        unfold Leak.val Leak.on
        cases hst : l.stop with
        | none => simp [hp2]
        | some e =>
          have h3 := hnoend e hst
          have h4 : e ≠ l.start := fun h => hne (by rw [hst, h])
          have : t < e ∨ e < l.start := by
            by_contra hcon
            simp only [not_or, not_lt] at hcon
            omega
          rcases this with h | h <;> simp [hp2, h]
      · -- the last writer is the end control
        subst h2
        have hns : ¬ (p < l.start ∧ l.start ≤ t ∧ thr < l.start) := by
          rintro ⟨a, b, c⟩
          have := hmin _ (hstartF a b) (by rw [timeCtl_due_writes]; simp)
          simp only at this; omega
        have h4 : thr ≠ l.start := fun h => hne (by rw [h1, h])
        unfold Leak.val Leak.on
        rw [h1]
        have hA : ¬ t < thr := by omega
        by_cases hB : thr < l.start
        · have hC : ¬ l.start ≤ t := fun a => hns ⟨by omega, a, hB⟩
          simp [hC]
        · simp [hA, hB]
    · simp [hk] at hxw

end Wntr.Sched
