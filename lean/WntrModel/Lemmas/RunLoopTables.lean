/-
C16, "exactly one column per model element" on a model footing.

`initialize_results_dict` creates one list per key of the node / link registry, `save_results` appends one value to the
list of every name the typed iterators yield (`wn.junctions()`, `wn.tanks()`, …), and `get_results` builds the tables with
`columns = junction_name_list + tank_name_list + reservoir_name_list` (links: pipes + head pumps + power pumps + valves).
Under the registry invariant of C14 (`Wntr.Registry.Inv`, Props/C14 `inv_history` / `views_consistent`: it holds after every
edit history) those name lists are exactly the registry keys, each once -- so no `KeyError`, no shape error, and the table has
exactly one column per element with one entry per reported time.  The values themselves (finite numbers) are floating-point
results of the solver and stay an oracle on the real tables (`harness/props/c16.py`).
-/
import WntrModel.Lemmas.RegistryList

namespace Wntr.RunLoop.Tables
open Wntr.Registry

/-- `get_results`: `node_names = wn.junction_name_list + wn.tank_name_list + wn.reservoir_name_list` -/
def nodeNames (s : Reg) : List Name := s.typed .junctions ++ s.typed .tanks ++ s.typed .reservoirs

/-- `get_results`: `link_names = pipe_name_list + head_pump_name_list + power_pump_name_list + valve_name_list` -/
def linkNames (s : Reg) : List Name :=
  s.typed .pipes ++ s.typed .headPumps ++ s.typed .powerPumps ++ s.typed .valves

theorem typed_node_get {s : Reg} (h : Inv s) {t : TSet} (ht : t ∈ nodeSets) {k : Name} (hk : k ∈ s.typed t) :
    ∃ i, AL.get? s.nodes k = some i ∧ nodeSet i.kind = t := h.typedNodeSound t ht k hk

theorem nodeNames_mem {s : Reg} (h : Inv s) (k : Name) : k ∈ nodeNames s ↔ k ∈ AL.keys s.nodes := by
  unfold nodeNames
  simp only [List.mem_append]
  constructor
  · rintro ((hk | hk) | hk)
    · obtain ⟨i, hi, _⟩ := typed_node_get h (by decide) hk; exact (AL.mem_keys_iff _ _).2 ⟨i, hi⟩
    · obtain ⟨i, hi, _⟩ := typed_node_get h (by decide) hk; exact (AL.mem_keys_iff _ _).2 ⟨i, hi⟩
    · obtain ⟨i, hi, _⟩ := typed_node_get h (by decide) hk; exact (AL.mem_keys_iff _ _).2 ⟨i, hi⟩
  · intro hk
    obtain ⟨i, hi⟩ := (AL.mem_keys_iff _ _).1 hk
    have := (AL.forall_iff _ _).1 h.typedNodeComplete k i hi
    cases hkind : i.kind <;> simp only [hkind, nodeSet] at this
    · exact Or.inl (Or.inl this)
    · exact Or.inl (Or.inr this)
    · exact Or.inr this

theorem typed_node_disjoint {s : Reg} (h : Inv s) {t1 t2 : TSet} (h1 : t1 ∈ nodeSets) (h2 : t2 ∈ nodeSets) (hne : t1 ≠ t2)
    {k : Name} (hk1 : k ∈ s.typed t1) (hk2 : k ∈ s.typed t2) : False := by
  obtain ⟨i, hi, e1⟩ := typed_node_get h h1 hk1
  obtain ⟨j, hj, e2⟩ := typed_node_get h h2 hk2
  rw [hi] at hj; cases hj
  exact hne (e1.symm.trans e2)

theorem nodeNames_nodup {s : Reg} (h : Inv s) : (nodeNames s).Nodup := by
  have hn := h.nodup.2.2.2.2.2
  unfold nodeNames
  rw [List.nodup_append, List.nodup_append]
  refine ⟨⟨hn _ (by decide), hn _ (by decide), ?_⟩, hn _ (by decide), ?_⟩
  · intro a ha b hb hab; subst hab
    exact typed_node_disjoint h (by decide) (by decide) (by decide) ha hb
  · intro a ha b hb hab; subst hab
    rcases List.mem_append.1 ha with ha | ha
    · exact typed_node_disjoint h (by decide) (by decide) (by decide) ha hb
    · exact typed_node_disjoint h (by decide) (by decide) (by decide) ha hb

/-- the four classes `save_results` / `get_results` go through -/
def resultSets : List TSet := [.pipes, .headPumps, .powerPumps, .valves]

theorem typed_link_get {s : Reg} (h : Inv s) {t : TSet} (ht : t ∈ allLinkSets) {k : Name} (hk : k ∈ s.typed t) :
    ∃ i, AL.get? s.links k = some i ∧ t ∈ linkSets i.kind := h.typedLinkSound t ht k hk

/-- every link class is in exactly one of the four result classes -/
theorem resultSet_unique (kd : LinkKind) (t1 t2 : TSet) (h1 : t1 ∈ resultSets) (h2 : t2 ∈ resultSets)
    (m1 : t1 ∈ linkSets kd) (m2 : t2 ∈ linkSets kd) : t1 = t2 := by
  cases kd <;> simp only [linkSets, resultSets, List.mem_cons, List.mem_nil_iff, or_false] at h1 h2 m1 m2 <;>
    rcases m1 with rfl | rfl <;> rcases m2 with rfl | rfl <;> simp_all

theorem resultSet_exists (kd : LinkKind) : ∃ t, t ∈ resultSets ∧ t ∈ linkSets kd := by
  cases kd <;> simp [linkSets, resultSets]

theorem linkNames_mem {s : Reg} (h : Inv s) (k : Name) : k ∈ linkNames s ↔ k ∈ AL.keys s.links := by
  unfold linkNames
  simp only [List.mem_append]
  constructor
  · rintro (((hk | hk) | hk) | hk)
    · obtain ⟨i, hi, _⟩ := typed_link_get h (by decide) hk; exact (AL.mem_keys_iff _ _).2 ⟨i, hi⟩
    · obtain ⟨i, hi, _⟩ := typed_link_get h (by decide) hk; exact (AL.mem_keys_iff _ _).2 ⟨i, hi⟩
    · obtain ⟨i, hi, _⟩ := typed_link_get h (by decide) hk; exact (AL.mem_keys_iff _ _).2 ⟨i, hi⟩
    · obtain ⟨i, hi, _⟩ := typed_link_get h (by decide) hk; exact (AL.mem_keys_iff _ _).2 ⟨i, hi⟩
  · intro hk
    obtain ⟨i, hi⟩ := (AL.mem_keys_iff _ _).1 hk
    have hc := (AL.forall_iff _ _).1 h.typedLinkComplete k i hi
    obtain ⟨t, ht, hm⟩ := resultSet_exists i.kind
    have := hc t hm
    simp only [resultSets, List.mem_cons, List.mem_nil_iff, or_false] at ht
    rcases ht with rfl | rfl | rfl | rfl
    · exact Or.inl (Or.inl (Or.inl this))
    · exact Or.inl (Or.inl (Or.inr this))
    · exact Or.inl (Or.inr this)
    · exact Or.inr this

theorem typed_link_disjoint {s : Reg} (h : Inv s) {t1 t2 : TSet} (h1 : t1 ∈ resultSets) (h2 : t2 ∈ resultSets) (hne : t1 ≠ t2)
    {k : Name} (hk1 : k ∈ s.typed t1) (hk2 : k ∈ s.typed t2) : False := by
  have a1 : t1 ∈ allLinkSets := by
    simp only [resultSets, List.mem_cons, List.mem_nil_iff, or_false] at h1; rcases h1 with rfl | rfl | rfl | rfl <;> decide
  have a2 : t2 ∈ allLinkSets := by
    simp only [resultSets, List.mem_cons, List.mem_nil_iff, or_false] at h2; rcases h2 with rfl | rfl | rfl | rfl <;> decide
  obtain ⟨i, hi, e1⟩ := typed_link_get h a1 hk1
  obtain ⟨j, hj, e2⟩ := typed_link_get h a2 hk2
  rw [hi] at hj; cases hj
  exact hne (resultSet_unique i.kind t1 t2 h1 h2 e1 e2)

theorem linkNames_nodup {s : Reg} (h : Inv s) : (linkNames s).Nodup := by
  have hn := h.nodup.2.2.2.2.2
  unfold linkNames
  rw [List.nodup_append, List.nodup_append, List.nodup_append]
  refine ⟨⟨⟨hn _ (by decide), hn _ (by decide), ?_⟩, hn _ (by decide), ?_⟩, hn _ (by decide), ?_⟩
  · intro a ha b hb hab; subst hab
    exact typed_link_disjoint h (by decide) (by decide) (by decide) ha hb
  · intro a ha b hb hab; subst hab
    rcases List.mem_append.1 ha with ha | ha
    · exact typed_link_disjoint h (by decide) (by decide) (by decide) ha hb
    · exact typed_link_disjoint h (by decide) (by decide) (by decide) ha hb
  · intro a ha b hb hab; subst hab
    rcases List.mem_append.1 ha with ha | ha
    · rcases List.mem_append.1 ha with ha | ha
      · exact typed_link_disjoint h (by decide) (by decide) (by decide) ha hb
      · exact typed_link_disjoint h (by decide) (by decide) (by decide) ha hb
    · exact typed_link_disjoint h (by decide) (by decide) (by decide) ha hb

/-! ### the result dictionaries -/

variable {R : Type}

/-- one family of `node_res` / `link_res` (e.g. `node_res['head']`): name ↦ list of saved values -/
abbrev Res (R : Type) := List (Name × List R)

/-- `initialize_results_dict`: `OrderedDict((name, list()) for name, obj in wn.nodes())` -/
def initDict (keys : List Name) : Res R := keys.map (fun k => (k, []))

/-- `res[name].append(v)`; `none` = KeyError -/
def appendAt (d : Res R) (name : Name) (v : R) : Option (Res R) :=
  match AL.get? d name with
  | none => none
  | some l => some (AL.set d name (l ++ [v]))

/-- `save_results` for one family: one append per name the typed iterators yield, in their order -/
def saveAll (row : Name → R) : List Name → Res R → Option (Res R)
  | [], d => some d
  | n :: r, d => match appendAt d n (row n) with
    | none => none
    | some d1 => saveAll row r d1

/-- `get_results` for one family: `[res[name] for name in names]` (KeyError = none) made into a table with `ntimes` rows
(`pd.DataFrame(data=np.array(...).transpose(), index=results.time, columns=names)` raises on a shape mismatch = none) -/
def table (names : List Name) (ntimes : Nat) (d : Res R) : Option (List (Name × List R)) :=
  names.mapM (fun n => match AL.get? d n with
    | some l => if l.length = ntimes then some (n, l) else none
    | none => none)

theorem keys_initDict (keys : List Name) : AL.keys (initDict (R := R) keys) = keys := by
  simp [initDict, AL.keys, Function.comp_def]

theorem get?_initDict (keys : List Name) (k : Name) (hk : k ∈ keys) : AL.get? (initDict (R := R) keys) k = some [] := by
  induction keys with
  | nil => cases hk
  | cons a t ih =>
    simp only [initDict, List.map_cons, AL.get?_cons]
    by_cases hak : a = k
    · simp [hak]
    · simp only [hak, if_false]
      rcases List.mem_cons.1 hk with e | e
      · exact absurd e.symm hak
      · exact ih e

/-- one `save_results` pass: it succeeds, keeps the keys, and every listed name gets exactly one more value -/
theorem saveAll_spec (row : Name → R) (names : List Name) (d : Res R) (hnd : names.Nodup)
    (hsub : ∀ k ∈ names, k ∈ AL.keys d) :
    ∃ d', saveAll row names d = some d' ∧ AL.keys d' = AL.keys d ∧
      ∀ k, AL.get? d' k = if k ∈ names then (AL.get? d k).map (· ++ [row k]) else AL.get? d k := by
  induction names generalizing d with
  | nil => exact ⟨d, rfl, rfl, fun k => by simp⟩
  | cons n r ih =>
    obtain ⟨l, hl⟩ := (AL.mem_keys_iff _ _).1 (hsub n (List.mem_cons_self ..))
    have hn : n ∉ r := (List.nodup_cons.1 hnd).1
    have hk1 : AL.keys (AL.set d n (l ++ [row n])) = AL.keys d := by
      rw [AL.keys_set, if_pos (hsub n (List.mem_cons_self ..))]
    obtain ⟨d', h1, h2, h3⟩ := ih (AL.set d n (l ++ [row n])) (List.nodup_cons.1 hnd).2
      (fun k hk => by rw [hk1]; exact hsub k (List.mem_cons_of_mem _ hk))
    refine ⟨d', by simp only [saveAll, appendAt, hl]; exact h1, h2.trans hk1, ?_⟩
    intro k
    rw [h3 k, AL.get?_set]
    by_cases hkn : n = k
    · subst hkn; simp [hn, hl]
    · have : k ≠ n := fun e => hkn e.symm
      simp [hkn, this]

/-- the state of one family after `m` `save_results` calls -/
def savedTimes (row : Nat → Name → R) (names keys : List Name) : Nat → Option (Res R)
  | 0 => some (initDict keys)
  | m + 1 => match savedTimes row names keys m with
    | none => none
    | some d => saveAll (row m) names d

/-- **one_column_per_element** (one family, any number of saves): when the name list used by `save_results` /
`get_results` lists exactly the registry keys, each once, then after `m` saves `get_results` succeeds and the table
has the columns `names` -- one per element -- with `m` entries each, the `j`-th being what the `j`-th save stored. -/
theorem table_after_saves (row : Nat → Name → R) (names keys : List Name) (hnd : names.Nodup)
    (hmem : ∀ k, k ∈ names ↔ k ∈ keys) (m : Nat) :
    ∃ d cols, savedTimes row names keys m = some d ∧ table names m d = some cols ∧
      cols.map Prod.fst = names ∧
      ∀ c ∈ cols, c.2 = (List.range m).map (fun j => row j c.1) := by
  have key : ∀ m, ∃ d, savedTimes row names keys m = some d ∧ AL.keys d = keys ∧
      ∀ k ∈ names, AL.get? d k = some ((List.range m).map (fun j => row j k)) := by
    intro m
    induction m with
    | zero =>
      exact ⟨initDict keys, rfl, keys_initDict keys, fun k hk => by
        simpa using get?_initDict (R := R) keys k ((hmem k).1 hk)⟩
    | succ m ih =>
      obtain ⟨d, hd, hk, hg⟩ := ih
      obtain ⟨d', h1, h2, h3⟩ := saveAll_spec (row m) names d hnd (fun k hk' => by rw [hk]; exact (hmem k).1 hk')
      refine ⟨d', by simp only [savedTimes, hd]; exact h1, h2.trans hk, fun k hk' => ?_⟩
      rw [h3 k, if_pos hk', hg k hk']
      simp [List.range_succ]
  obtain ⟨d, hd, _, hg⟩ := key m
  have ht : ∀ (l : List Name), (∀ k ∈ l, k ∈ names) →
      ∃ cols, table l m d = some cols ∧ cols.map Prod.fst = l ∧ ∀ c ∈ cols, c.2 = (List.range m).map (fun j => row j c.1) := by
    intro l
    induction l with
    | nil => intro _; exact ⟨[], rfl, rfl, fun c hc => by cases hc⟩
    | cons a t ih =>
      intro hl
      obtain ⟨cols, h1, h2, h3⟩ := ih (fun k hk => hl k (List.mem_cons_of_mem _ hk))
      have ha := hg a (hl a (List.mem_cons_self ..))
      refine ⟨(a, (List.range m).map (fun j => row j a)) :: cols, ?_, by simp [h2], ?_⟩
      · unfold table at h1 ⊢
        simp only [List.mapM_cons, ha, List.length_map, List.length_range, if_true, h1]
        rfl
      · intro c hc
        rcases List.mem_cons.1 hc with e | e
        · subst e; rfl
        · exact h3 c e
  obtain ⟨cols, h1, h2, h3⟩ := ht names (fun _ h => h)
  exact ⟨d, cols, hd, h1, h2, h3⟩

/-- **node_table_one_column_per_element**: in every registry state satisfying the C14 invariant, after `m` reported steps each
node table has exactly the columns `junctions ++ tanks ++ reservoirs` = the node registry's keys, each once, `m` rows -/
theorem node_table_one_column_per_element {s : Reg} (h : Inv s) (row : Nat → Name → R) (m : Nat) :
    (nodeNames s).Nodup ∧ (∀ k, k ∈ nodeNames s ↔ k ∈ AL.keys s.nodes) ∧
    ∃ d cols, savedTimes row (nodeNames s) (AL.keys s.nodes) m = some d ∧ table (nodeNames s) m d = some cols ∧
      cols.map Prod.fst = nodeNames s ∧ ∀ c ∈ cols, c.2.length = m := by
  refine ⟨nodeNames_nodup h, nodeNames_mem h, ?_⟩
  obtain ⟨d, cols, a, b, c, e⟩ := table_after_saves row (nodeNames s) (AL.keys s.nodes) (nodeNames_nodup h) (nodeNames_mem h) m
  exact ⟨d, cols, a, b, c, fun x hx => by rw [e x hx]; simp⟩

theorem link_table_one_column_per_element {s : Reg} (h : Inv s) (row : Nat → Name → R) (m : Nat) :
    (linkNames s).Nodup ∧ (∀ k, k ∈ linkNames s ↔ k ∈ AL.keys s.links) ∧
    ∃ d cols, savedTimes row (linkNames s) (AL.keys s.links) m = some d ∧ table (linkNames s) m d = some cols ∧
      cols.map Prod.fst = linkNames s ∧ ∀ c ∈ cols, c.2.length = m := by
  refine ⟨linkNames_nodup h, linkNames_mem h, ?_⟩
  obtain ⟨d, cols, a, b, c, e⟩ := table_after_saves row (linkNames s) (AL.keys s.links) (linkNames_nodup h) (linkNames_mem h) m
  exact ⟨d, cols, a, b, c, fun x hx => by rw [e x hx]; simp⟩

end Wntr.RunLoop.Tables
