/- Helper lemmas for C19 (geometry of a split): sums of segment lengths, the point at a given arc length of a polyline. -/
import WntrModel.Model.Morph
import Mathlib.Tactic.Ring
import Mathlib.Tactic.Linarith
import Mathlib.Tactic.FieldSimp
import Mathlib.Algebra.Order.Field.Rat
namespace Wntr.Morph

theorem foldl_add (a : Rat) (ls : List Rat) : ls.foldl (· + ·) a = a + ls.foldl (· + ·) 0 := by
  induction ls generalizing a with
  | nil => simp
  | cons l t ih =>
    simp only [List.foldl_cons]
    rw [ih (a + l), ih (0 + l)]; ring

theorem lsum_nil : lsum [] = 0 := rfl

theorem lsum_cons (l : Rat) (ls : List Rat) : lsum (l :: ls) = l + lsum ls := by
  unfold lsum
  simp only [List.foldl_cons]
  rw [foldl_add]; ring

theorem lsum_nonneg (ls : List Rat) (h : ∀ l ∈ ls, 0 ≤ l) : 0 ≤ lsum ls := by
  induction ls with
  | nil => simp [lsum_nil]
  | cons l t ih =>
    rw [lsum_cons]
    have := h l (List.mem_cons_self ..)
    have := ih (fun x hx => h x (List.mem_cons_of_mem _ hx))
    linarith

theorem lerp_at_one (p q : Pt) : lerp p q 1 = q := by simp [lerp]

/-- when the first `k` segments all have length zero, the `k`-th point is the first point -/
theorem fits_zero_prefix (pts : List Pt) (ls : List Rat) (k : Nat) (hf : fits pts ls) (hl : ∀ l ∈ ls, 0 ≤ l)
    (hk : k ≤ ls.length) (hz : lsum (ls.take k) = 0) : pts[k]? = pts[0]? := by
  induction k generalizing pts ls with
  | zero => rfl
  | succ k ih =>
    match pts, ls, hf with
    | p :: q :: rest, l :: ls', hf =>
      have hl0 : 0 ≤ l := hl l (List.mem_cons_self ..)
      have hl' : ∀ x ∈ ls', 0 ≤ x := fun x hx => hl x (List.mem_cons_of_mem _ hx)
      have hs : 0 ≤ lsum (ls'.take k) := lsum_nonneg _ (fun x hx => hl' x (List.mem_of_mem_take hx))
      rw [List.take_succ_cons, lsum_cons] at hz
      have hlz : l = 0 := by linarith
      have hsz : lsum (ls'.take k) = 0 := by linarith
      have hpq : p = q := hf.1 hlz
      have := ih (q :: rest) ls' hf.2 hl' (by simpa using hk) hsz
      simp only [List.getElem?_cons_succ, List.getElem?_cons_zero] at this ⊢
      rw [this, hpq]
    | [_], [], _ => simp at hk
    | [], _, hf => simp [fits] at hf
    | [_], _ :: _, hf => simp [fits] at hf
    | _ :: _ :: _, [], hf => simp [fits] at hf

/-- **a cut at the arc length of a vertex lands on that vertex**: at the cumulated length of the first `k` segments the
polyline point is `pts[k]` (zero-length segments before or after it included) -/
theorem pointAt_vertex (pts : List Pt) (ls : List Rat) (k : Nat) (hf : fits pts ls) (hl : ∀ l ∈ ls, 0 ≤ l)
    (hk : k ≤ ls.length) (hpos : 0 < lsum (ls.take k)) : pointAt (lsum (ls.take k)) pts ls = pts[k]? := by
  induction k generalizing pts ls with
  | zero => simp [lsum_nil] at hpos
  | succ k ih =>
    match pts, ls, hf with
    | p :: q :: rest, l :: ls', hf =>
      have hl0 : 0 ≤ l := hl l (List.mem_cons_self ..)
      have hl' : ∀ x ∈ ls', 0 ≤ x := fun x hx => hl x (List.mem_cons_of_mem _ hx)
      have hs : 0 ≤ lsum (ls'.take k) := lsum_nonneg _ (fun x hx => hl' x (List.mem_of_mem_take hx))
      have hk' : k ≤ ls'.length := by simpa using hk
      rw [List.take_succ_cons, lsum_cons] at hpos ⊢
      simp only [pointAt, List.getElem?_cons_succ]
      by_cases hz : lsum (ls'.take k) = 0
      · have hlp : 0 < l := by linarith
        have hc : l + lsum (ls'.take k) ≤ l := by linarith
        rw [if_pos hc, hz, add_zero, div_self (ne_of_gt hlp), lerp_at_one]
        have := fits_zero_prefix (q :: rest) ls' k hf.2 hl' hk' hz
        simpa using this.symm
      · have hsp : 0 < lsum (ls'.take k) := lt_of_le_of_ne hs (Ne.symm hz)
        have hc : ¬ (l + lsum (ls'.take k) ≤ l) := by intro h; linarith
        rw [if_neg hc]
        have : l + lsum (ls'.take k) - l = lsum (ls'.take k) := by ring
        rw [this]
        exact ih (q :: rest) ls' hf.2 hl' hk' hsp
    | [_], [], _ => simp at hk
    | [], _, hf => simp [fits] at hf
    | [_], _ :: _, hf => simp [fits] at hf
    | _ :: _ :: _, [], hf => simp [fits] at hf

theorem fits_length (pts : List Pt) (ls : List Rat) (hf : fits pts ls) : pts.length = ls.length + 1 := by
  induction ls generalizing pts with
  | nil =>
    match pts, hf with
    | [_], _ => rfl
    | [], hf => simp [fits] at hf
    | _ :: _ :: _, hf => simp [fits] at hf
  | cons l t ih =>
    match pts, hf with
    | p :: q :: rest, hf => simp [ih (q :: rest) hf.2]
    | [], hf => simp [fits] at hf
    | [_], hf => simp [fits] at hf

end Wntr.Morph
