/-
Lemmas about M5b `Controls`: writes, "last writer wins" for a fold of actions, the stable insertion sort
(permutation + sortedness), used by Props/C05.
-/
import WntrModel.Model.Controls
import Mathlib.Tactic.Ring
import Mathlib.Tactic.Linarith
namespace Wntr.Controls
open Wntr.Tank

/-! ### writes -/

theorem modifyAt_length (f : Link → Link) (i : Nat) (ls : Links) : (modifyAt f i ls).length = ls.length := by
  induction ls generalizing i with
  | nil => cases i <;> rfl
  | cons l r ih => cases i with
    | zero => rfl
    | succ n => simp [modifyAt, ih]

theorem write_length (ls : Links) (a : Act) : (write ls a).length = ls.length := modifyAt_length _ _ _

theorem modifyAt_get_same (f : Link → Link) (i : Nat) (ls : Links) (l : Link) (h : ls[i]? = some l) :
    (modifyAt f i ls)[i]? = some (f l) := by
  induction ls generalizing i with
  | nil => simp at h
  | cons x r ih => cases i with
    | zero => simp at h; simp [modifyAt, h]
    | succ n => simp at h; simp [modifyAt, ih n h]

theorem modifyAt_get_other (f : Link → Link) (i j : Nat) (ls : Links) (h : i ≠ j) :
    (modifyAt f i ls)[j]? = ls[j]? := by
  induction ls generalizing i j with
  | nil => cases i <;> rfl
  | cons x r ih => cases i with
    | zero => cases j with
      | zero => exact absurd rfl h
      | succ m => simp [modifyAt]
    | succ n => cases j with
      | zero => simp [modifyAt]
      | succ m => simp [modifyAt]; exact ih n m (by omega)

theorem Link.get_set_same (l : Link) (f : Field) (v : Rat) : (l.set f v).get f = v := by cases f <;> rfl

theorem Link.get_set_other (l : Link) (f g : Field) (v : Rat) (h : f ≠ g) : (l.set f v).get g = l.get g := by
  cases f <;> cases g <;> first | rfl | exact absurd rfl h

theorem Link.kind_set (l : Link) (f : Field) (v : Rat) : (l.set f v).kind = l.kind := by cases f <;> rfl

theorem fieldAt_write_same (ls : Links) (a : Act) (h : a.link < ls.length) :
    fieldAt (write ls a) a.link a.field = some a.value := by
  have : ls[a.link]? = some ls[a.link] := List.getElem?_eq_getElem h
  simp [fieldAt, write, modifyAt_get_same _ _ _ _ this, Link.get_set_same]

theorem fieldAt_write_other (ls : Links) (a : Act) (i : Nat) (f : Field) (h : ¬ (a.link = i ∧ a.field = f)) :
    fieldAt (write ls a) i f = fieldAt ls i f := by
  by_cases hi : a.link = i
  · have hf : a.field ≠ f := fun e => h ⟨hi, e⟩
    subst hi
    unfold fieldAt write
    cases hl : ls[a.link]? with
    | none =>
      have : (modifyAt (fun l => l.set a.field a.value) a.link ls)[a.link]? = none := by
        rw [List.getElem?_eq_none_iff] at *
        rw [modifyAt_length]; exact hl
      simp [this]
    | some l => simp [modifyAt_get_same _ _ _ _ hl, Link.get_set_other _ _ _ _ hf]
  · simp [fieldAt, write, modifyAt_get_other _ _ _ _ hi]

/-- target of a control -/
def Ctl.hits (c : Ctl) (i : Nat) (f : Field) : Prop := c.act.link = i ∧ c.act.field = f

instance (c : Ctl) (i : Nat) (f : Field) : Decidable (c.hits i f) := by unfold Ctl.hits; exact inferInstance

def runList (l : List Ctl) (ls : Links) : Links := l.foldl (fun s c => write s c.act) ls

theorem runList_length (l : List Ctl) (ls : Links) : (runList l ls).length = ls.length := by
  induction l generalizing ls with
  | nil => rfl
  | cons c r ih => simp [runList, List.foldl_cons] at *; rw [ih]; exact write_length _ _

/-- a field keeps the value `v` through a list of writes each of which misses it or writes `v` -/
theorem runList_keeps (l : List Ctl) (ls : Links) (i : Nat) (f : Field) (v : Rat) (h0 : fieldAt ls i f = some v)
    (hall : ∀ c ∈ l, c.hits i f → c.act.value = v) : fieldAt (runList l ls) i f = some v := by
  induction l generalizing ls with
  | nil => exact h0
  | cons c r ih =>
    simp only [runList, List.foldl_cons]
    apply ih
    · by_cases hc : c.hits i f
      · have hv := hall c (List.mem_cons_self) hc
        obtain ⟨h1, h2⟩ := hc
        have hlt : c.act.link < ls.length := by
          subst h1
          unfold fieldAt at h0
          cases hl : ls[c.act.link]? with
          | none => simp [hl] at h0
          | some x => exact (List.getElem?_eq_some_iff.mp hl).1
        rw [← h1, ← h2, ← hv]
        exact fieldAt_write_same ls c.act hlt
      · rw [fieldAt_write_other ls c.act i f hc]; exact h0
    · intro d hd; exact hall d (List.mem_cons_of_mem _ hd)

/-- the last control of a list that hits `(i, f)` -/
theorem exists_last_writer (l : List Ctl) (i : Nat) (f : Field) (h : ∃ c ∈ l, c.hits i f) :
    ∃ l1 d l2, l = l1 ++ d :: l2 ∧ d.hits i f ∧ ∀ c ∈ l2, ¬ c.hits i f := by
  induction l with
  | nil => obtain ⟨c, hc, _⟩ := h; simp at hc
  | cons a r ih =>
    by_cases hr : ∃ c ∈ r, c.hits i f
    · obtain ⟨l1, d, l2, e, hd, hn⟩ := ih hr
      exact ⟨a :: l1, d, l2, by simp [e], hd, hn⟩
    · have ha : a.hits i f := by
        obtain ⟨c, hc, hh⟩ := h
        rcases List.mem_cons.mp hc with e | e
        · exact e ▸ hh
        · exact absurd ⟨c, e, hh⟩ hr
      exact ⟨[], a, r, rfl, ha, fun c hc hh => hr ⟨c, hc, hh⟩⟩

/-- after running `l1 ++ d :: l2` where nothing in `l2` hits `d`'s target, the target holds `d`'s value -/
theorem runList_last_writer (l1 l2 : List Ctl) (d : Ctl) (ls : Links) (hi : d.act.link < ls.length)
    (hn : ∀ c ∈ l2, ¬ c.hits d.act.link d.act.field) :
    fieldAt (runList (l1 ++ d :: l2) ls) d.act.link d.act.field = some d.act.value := by
  have e : runList (l1 ++ d :: l2) ls = runList l2 (write (runList l1 ls) d.act) := by
    simp [runList, List.foldl_append]
  rw [e]
  apply runList_keeps
  · exact fieldAt_write_same _ _ (by rw [runList_length]; exact hi)
  · intro c hc hh; exact absurd hh (hn c hc)

/-! ### the stable insertion sort -/

theorem insertBy_perm {α : Type} (key : α → Int) (x : α) (l : List α) : (insertBy key x l).Perm (x :: l) := by
  induction l with
  | nil => exact List.Perm.refl _
  | cons y ys ih =>
    unfold insertBy
    split
    · exact List.Perm.refl _
    · exact (List.Perm.cons y ih).trans (List.Perm.swap x y ys)

theorem sortBy_perm {α : Type} (key : α → Int) (l : List α) : (sortBy key l).Perm l := by
  induction l with
  | nil => exact List.Perm.refl _
  | cons x xs ih => exact (insertBy_perm key x _).trans (List.Perm.cons x ih)

theorem insertBy_sorted {α : Type} (key : α → Int) (x : α) (l : List α)
    (h : l.Pairwise (fun a b => key a ≤ key b)) : (insertBy key x l).Pairwise (fun a b => key a ≤ key b) := by
  induction l with
  | nil => simp [insertBy]
  | cons y ys ih =>
    unfold insertBy
    rw [List.pairwise_cons] at h
    split
    · rename_i hxy
      rw [List.pairwise_cons]
      refine ⟨?_, List.pairwise_cons.mpr h⟩
      intro z hz
      rcases List.mem_cons.mp hz with e | e
      · exact e ▸ hxy
      · exact le_trans hxy (h.1 z e)
    · rename_i hxy
      rw [List.pairwise_cons]
      refine ⟨?_, ih h.2⟩
      intro z hz
      have := (insertBy_perm key x ys).mem_iff.mp hz
      rcases List.mem_cons.mp this with e | e
      · rw [e]; omega
      · exact h.1 z e

theorem sortBy_sorted {α : Type} (key : α → Int) (l : List α) : (sortBy key l).Pairwise (fun a b => key a ≤ key b) := by
  induction l with
  | nil => simp [sortBy]
  | cons x xs ih => exact insertBy_sorted key x _ ih

/-- stability: elements with equal keys keep the relation `R` they had in the input order -/
theorem insertBy_stable {α : Type} (key : α → Int) (R : α → α → Prop) (x : α) (l : List α) (hx : ∀ y ∈ l, R x y)
    (h : l.Pairwise (fun a b => key a = key b → R a b)) :
    (insertBy key x l).Pairwise (fun a b => key a = key b → R a b) := by
  induction l with
  | nil => simp [insertBy]
  | cons y ys ih =>
    unfold insertBy
    rw [List.pairwise_cons] at h
    split
    · rw [List.pairwise_cons]
      exact ⟨fun z hz _ => hx z hz, List.pairwise_cons.mpr h⟩
    · rename_i hxy
      rw [List.pairwise_cons]
      refine ⟨?_, ih (fun z hz => hx z (List.mem_cons_of_mem _ hz)) h.2⟩
      intro z hz
      have := (insertBy_perm key x ys).mem_iff.mp hz
      rcases List.mem_cons.mp this with e | e
      · intro hk; rw [e] at hk; omega
      · exact h.1 z e

theorem sortBy_stable {α : Type} (key : α → Int) (R : α → α → Prop) (l : List α) (h : l.Pairwise R) :
    (sortBy key l).Pairwise (fun a b => key a = key b → R a b) := by
  induction l with
  | nil => simp [sortBy]
  | cons x xs ih =>
    rw [List.pairwise_cons] at h
    exact insertBy_stable key R x _ (fun y hy => h.1 y ((sortBy_perm key xs).mem_iff.mp hy)) (ih h.2)

theorem sortPrio_mem (l : List Ctl) (c : Ctl) : c ∈ sortPrio l ↔ c ∈ l := (sortBy_perm _ l).mem_iff

theorem sortPrio_sorted (l : List Ctl) : (sortPrio l).Pairwise (fun a b => a.prio ≤ b.prio) := by
  have := sortBy_sorted (fun c : Ctl => (c.prio : Int)) l
  exact this.imp (fun h => by exact_mod_cast h)

/-- in a sorted list, an element of the tail part has priority ≥ every element before it -/
theorem sorted_append_le (l1 l2 : List Ctl) (h : (l1 ++ l2).Pairwise (fun a b => a.prio ≤ b.prio)) (a b : Ctl)
    (ha : a ∈ l1) (hb : b ∈ l2) : a.prio ≤ b.prio :=
  (List.pairwise_append.mp h).2.2 a ha b hb

end Wntr.Controls
