/-
C11: `ControlCondition._backtrack` — is the value a run reads one that the same pass wrote?

Model of `wntr/network/controls.py`: a condition is a leaf (one of the condition classes; `assigns = true` when its
`evaluate()` assigns `self._backtrack` on every path, `false` when it never assigns it) or `And` / `Or`, whose
`evaluate()` SHORT-CIRCUITS (`bool(c1) and bool(c2)`) while their `backtrack` property reads BOTH children
(`np.min` / `np.max`). The only reader is `is_control_action_required`: `do = cond.evaluate(); back = cond.backtrack`.
-/
namespace Wntr.Frame.Backtrack

inductive Cond where
  | leaf (id : Nat) (assigns : Bool)
  | and (a b : Cond)
  | or (a b : Cond)
  deriving Repr, DecidableEq

/-- what one pass computes for the leaves: truth value and the backtrack an assigning `evaluate()` writes -/
structure Pass where
  truth : Nat → Bool
  fresh : Nat → Nat

abbrev Store := Nat → Nat     -- `_backtrack` of every leaf condition object

def Store.set (s : Store) (i v : Nat) : Store := fun j => if j = i then v else s j

/-- `cond.evaluate()`: result and the store afterwards (children of And/Or are evaluated left to right, the second one only
when needed) -/
def eval (p : Pass) : Cond → Store → Bool × Store
  | .leaf i true, s => (p.truth i, s.set i (p.fresh i))
  | .leaf i false, s => (p.truth i, s)
  | .and a b, s =>
    let r := eval p a s
    if r.1 then eval p b r.2 else (false, r.2)
  | .or a b, s =>
    let r := eval p a s
    if r.1 then (true, r.2) else eval p b r.2

/-- `cond.backtrack` -/
def backtrack : Cond → Store → Nat
  | .leaf i _, s => s i
  | .and a b, s => min (backtrack a s) (backtrack b s)
  | .or a b, s => max (backtrack a s) (backtrack b s)

/-- `do = cond.evaluate(); back = cond.backtrack` -/
def isRequired (p : Pass) (c : Cond) (s : Store) : Bool × Nat :=
  let r := eval p c s
  (r.1, backtrack c r.2)

/-- **a leaf condition whose `evaluate()` assigns `_backtrack` on every path: the value read right after `evaluate()` is the
one this pass wrote, whatever the store held before (previous step, previous run)** -/
theorem leaf_assigning_fresh (p : Pass) (i : Nat) (s s' : Store) :
    isRequired p (.leaf i true) s = isRequired p (.leaf i true) s' := by
  simp [isRequired, eval, backtrack, Store.set]

/-- a leaf condition that never assigns `_backtrack` reads the constructor's value: no run writes the slot -/
theorem leaf_never_untouched (p : Pass) (i : Nat) (s : Store) :
    (eval p (.leaf i false) s).2 = s := rfl

/-- **composite conditions CAN read a stale value**: `Or(true-leaf, assigning leaf)` does not evaluate its second child,
whose `_backtrack` is then whatever an earlier pass (or an earlier run: `reset_initial_values` does not touch it) left -/
theorem composite_can_be_stale :
    ∃ (p : Pass) (c : Cond) (s s' : Store), isRequired p c s ≠ isRequired p c s' :=
  ⟨⟨fun _ => true, fun _ => 0⟩, .or (.leaf 0 true) (.leaf 1 true), fun _ => 0, fun _ => 7, by decide⟩


/-- all leaves of the condition are of classes whose `evaluate()` never assigns `_backtrack` -/
def allNever : Cond → Bool
  | .leaf _ a => !a
  | .and a b => allNever a && allNever b
  | .or a b => allNever a && allNever b

/-- a composite over never-assigning leaves (the feasibility controls of `sim/core.py`: `AndCondition` of
`FunctionCondition` / `ValueCondition`) never writes the store: its `backtrack` is the constructors' constant -/
theorem allNever_untouched (p : Pass) (c : Cond) (h : allNever c = true) (s : Store) : (eval p c s).2 = s := by
  induction c generalizing s with
  | leaf i a => cases a <;> simp_all [allNever, eval]
  | and a b iha ihb =>
    simp only [allNever, Bool.and_eq_true] at h
    simp only [eval]
    split
    · rw [ihb h.2, iha h.1]
    · exact iha h.1 s
  | or a b iha ihb =>
    simp only [allNever, Bool.and_eq_true] at h
    simp only [eval]
    split
    · exact iha h.1 s
    · rw [ihb h.2, iha h.1]

end Wntr.Frame.Backtrack
