/-
Lemmas for C11: the frame argument. All statements are for EVERY write sequence (any control set, any number of steps).
-/
import WntrModel.Model.Frame
import Mathlib.Data.List.Basic

namespace Wntr.Frame

variable {V D Res : Type}

theorem write_other (s : State V) (l l' : Loc) (v : V) (h : l' ≠ l) : s.write l v l' = s l' := by
  simp [State.write, h]

/-- a location no write of the trace goes to keeps its value -/
theorem run_other (s : State V) (t : Trace V) (l : Loc) (h : ∀ p ∈ t, p.1 ≠ l) : run s t l = s l := by
  induction t generalizing s with
  | nil => rfl
  | cons p r ih =>
    simp only [run]
    rw [ih _ (fun q hq => h q (by simp [hq])), write_other _ _ _ _ (fun e => h p (by simp) e.symm)]

/-- slots outside the write-set are untouched by every run -/
theorem run_off (W : List Slot) (s : State V) (t : Trace V) (ht : t.within W) (l : Loc) (hl : l.slot ∉ W) :
    run s t l = s l :=
  run_other s t l (fun p hp e => hl (e ▸ ht p hp))

theorem overlap_eq_nil (W R : List Slot) : overlap W R = [] ↔ ∀ w ∈ W, w ∉ R := by
  simp [overlap, List.filter_eq_nil_iff]

theorem mem_overlap (W R : List Slot) (x : Slot) : x ∈ overlap W R ↔ x ∈ W ∧ x ∈ R := by
  simp [overlap]

theorem missing_eq_nil (W A : List Slot) : missing W A = [] ↔ ∀ w ∈ W, w ∈ A := by
  simp [missing, List.filter_eq_nil_iff]

/-- **frame**: if no written slot is read, the run is invisible on the read slots -/
theorem run_agreeOn (W R : List Slot) (hdisj : overlap W R = []) (s : State V) (t : Trace V) (ht : t.within W) :
    AgreeOn R (run s t) s := by
  intro l hl
  exact run_off W s t ht l (fun hw => (overlap_eq_nil W R).mp hdisj _ hw hl)

theorem toDict_readsOnly (R : List Slot) (E : Elems) : ReadsOnly R (toDict (V := V) R E) := by
  intro s s' h
  unfold toDict
  congr 1
  funext e
  apply List.map_congr_left
  intro sl hsl
  have : sl ∈ R := (List.mem_filter.mp hsl).1
  rw [h ⟨e.1, sl⟩ this]

/-- stores that agree OUTSIDE `W` -/
def AgreeOff (W : List Slot) (s s' : State V) : Prop := ∀ l : Loc, l.slot ∉ W → s l = s' l

/-- the initial values `reset_initial_values` assigns are computed from the definition (slots no run writes) -/
def InitFromDefinition (W : List Slot) (init : State V → Loc → V) : Prop :=
  ∀ s s', AgreeOff W s s' → ∀ l, init s l = init s' l

/-- **reset undoes every run**: if every written slot is re-assigned by reset, the store after run-then-reset is the
store after reset alone — whatever the run did -/
theorem reset_run (W A : List Slot) (hWA : missing W A = []) (init : State V → Loc → V)
    (hinit : InitFromDefinition W init) (s : State V) (t : Trace V) (ht : t.within W) :
    reset A init (run s t) = reset A init s := by
  funext l
  unfold reset
  have hoff : AgreeOff W (run s t) s := fun l hl => run_off W s t ht l hl
  by_cases hA : l.slot ∈ A
  · simp only [hA, if_true]; exact hinit _ _ hoff l
  · simp only [hA, if_false]
    exact hoff l (fun hw => hA ((missing_eq_nil W A).mp hWA _ hw))

/-- **any number of run / reset cycles reproduces the first run's results** -/
theorem cycles_replicate (W A : List Slot) (hWA : missing W A = []) (init : State V → Loc → V)
    (hinit : InitFromDefinition W init) (sim : Sim V Res) (hsim : ∀ s, (sim.trace s).within W)
    (s0 : State V) (hfix : reset A init s0 = s0) (n : Nat) :
    cycles A init sim n s0 = List.replicate n (sim.results s0) := by
  induction n with
  | zero => rfl
  | succ k ih =>
    simp only [cycles, List.replicate_succ]
    rw [reset_run W A hWA init hinit s0 _ (hsim s0), hfix, ih]

end Wntr.Frame
