/-
Lemmas for C11: the frame argument. All statements are for EVERY write sequence (any control set, any number of steps).
-/
import WntrModel.Model.Frame
import Mathlib.Data.List.Basic

namespace Wntr.Frame

variable {V D Res : Type}

theorem write_other (s : State V) (l l' : Loc) (v : V) (h : l' ≠ l) : s.write l v l' = s l' := by
  simp [State.write, h]

/-- a location no write of the trace goes to keeps its value -/
theorem run_other (s : State V) (t : Trace V) (l : Loc) (h : ∀ p ∈ t, p.1 ≠ l) : run s t l = s l := by
  induction t generalizing s with
  | nil => rfl
  | cons p r ih =>
    simp only [run]
    rw [ih _ (fun q hq => h q (by simp [hq])), write_other _ _ _ _ (fun e => h p (by simp) e.symm)]

/-- slots outside the write-set are untouched by every run -/
theorem run_off (W : List Slot) (s : State V) (t : Trace V) (ht : t.within W) (l : Loc) (hl : l.slot ∉ W) :
    run s t l = s l :=
  run_other s t l (fun p hp e => hl (e ▸ ht p hp))

theorem overlap_eq_nil (W R : List Slot) : overlap W R = [] ↔ ∀ w ∈ W, w ∉ R := by
  simp [overlap, List.filter_eq_nil_iff]

theorem mem_overlap (W R : List Slot) (x : Slot) : x ∈ overlap W R ↔ x ∈ W ∧ x ∈ R := by
  simp [overlap]

theorem missing_eq_nil (W A : List Slot) : missing W A = [] ↔ ∀ w ∈ W, w ∈ A := by
  simp [missing, List.filter_eq_nil_iff]

/-- **frame**: if no written slot is read, the run is invisible on the read slots -/
theorem run_agreeOn (W R : List Slot) (hdisj : overlap W R = []) (s : State V) (t : Trace V) (ht : t.within W) :
    AgreeOn R (run s t) s := by
  intro l hl
  exact run_off W s t ht l (fun hw => (overlap_eq_nil W R).mp hdisj _ hw hl)

theorem toDict_readsOnly (R : List Slot) (E : Elems) : ReadsOnly R (toDict (V := V) R E) := by
  intro s s' h
  unfold toDict
  congr 1
  funext e
  apply List.map_congr_left
  intro sl hsl
  have : sl ∈ R := (List.mem_filter.mp hsl).1
  rw [h ⟨e.1, sl⟩ this]

/-- stores that agree OUTSIDE `W` -/
def AgreeOff (W : List Slot) (s s' : State V) : Prop := ∀ l : Loc, l.slot ∉ W → s l = s' l

/-- the initial values `reset_initial_values` assigns are computed from the definition (slots no run writes) -/
def InitFromDefinition (W : List Slot) (init : State V → Loc → V) : Prop :=
  ∀ s s', AgreeOff W s s' → ∀ l, init s l = init s' l

/-- **reset undoes every run**: if every written slot is re-assigned by reset, the store after run-then-reset is the
store after reset alone — whatever the run did -/
theorem reset_run (W A : List Slot) (hWA : missing W A = []) (init : State V → Loc → V)
    (hinit : InitFromDefinition W init) (s : State V) (t : Trace V) (ht : t.within W) :
    reset A init (run s t) = reset A init s := by
  funext l
  unfold reset
  have hoff : AgreeOff W (run s t) s := fun l hl => run_off W s t ht l hl
  by_cases hA : l.slot ∈ A
  · simp only [hA, if_true]; exact hinit _ _ hoff l
  · simp only [hA, if_false]
    exact hoff l (fun hw => hA ((missing_eq_nil W A).mp hWA _ hw))

/-- **any number of run / reset cycles reproduces the first run's results** -/
theorem cycles_replicate (W A : List Slot) (hWA : missing W A = []) (init : State V → Loc → V)
    (hinit : InitFromDefinition W init) (sim : Sim V Res) (hsim : ∀ s, (sim.trace s).within W)
    (s0 : State V) (hfix : reset A init s0 = s0) (n : Nat) :
    cycles A init sim n s0 = List.replicate n (sim.results s0) := by
  induction n with
  | zero => rfl
  | succ k ih =>
    simp only [cycles, List.replicate_succ]
    rw [reset_run W A hWA init hinit s0 _ (hsim s0), hfix, ih]


/-! ### the same, ignoring slots a run initialises before it reads them (pure outputs, caches) -/

theorem AgreeOff.mono {W W' : List Slot} (h : ∀ x ∈ W, x ∈ W') {s s' : State V} (a : AgreeOff W s s') :
    AgreeOff W' s s' := fun l hl => a l (fun hw => hl (h _ hw))

theorem AgreeOff.trans {W : List Slot} {s s' s'' : State V} (a : AgreeOff W s s') (b : AgreeOff W s' s'') :
    AgreeOff W s s'' := fun l hl => (a l hl).trans (b l hl)

theorem AgreeOff.refl (W : List Slot) (s : State V) : AgreeOff W s s := fun _ _ => rfl

/-- every written slot is either re-assigned by reset or ignored: run-then-reset equals reset, off the ignored slots -/
theorem reset_run_off (W A Ign : List Slot) (hWA : missing W (A ++ Ign) = []) (init : State V → Loc → V)
    (hinit : InitFromDefinition W init) (s : State V) (t : Trace V) (ht : t.within W) :
    AgreeOff Ign (reset A init (run s t)) (reset A init s) := by
  intro l hI
  unfold reset
  have hoff : AgreeOff W (run s t) s := fun l hl => run_off W s t ht l hl
  by_cases hA : l.slot ∈ A
  · simp only [hA, if_true]; exact hinit _ _ hoff l
  · simp only [hA, if_false]
    refine hoff l (fun hw => ?_)
    have := (missing_eq_nil W (A ++ Ign)).mp hWA _ hw
    rcases List.mem_append.mp this with h | h
    · exact hA h
    · exact hI h

theorem reset_agreeOff (W A Ign : List Slot) (hIW : ∀ x ∈ Ign, x ∈ W) (init : State V → Loc → V)
    (hinit : InitFromDefinition W init) (s s' : State V) (a : AgreeOff Ign s s') :
    AgreeOff Ign (reset A init s) (reset A init s') := by
  intro l hI
  unfold reset
  by_cases hA : l.slot ∈ A
  · simp only [hA, if_true]; exact hinit _ _ (a.mono hIW) l
  · simp only [hA, if_false]; exact a l hI

/-- **any number of run / reset cycles reproduces the first run's results**, for a simulator that does not depend on the
ignored slots -/
theorem cycles_replicate_off (W A Ign : List Slot) (hWA : missing W (A ++ Ign) = []) (hIW : ∀ x ∈ Ign, x ∈ W)
    (init : State V → Loc → V) (hinit : InitFromDefinition W init) (sim : Sim V Res)
    (hsim : ∀ s, (sim.trace s).within W)
    (hdep : ∀ s s', AgreeOff Ign s s' → sim.results s = sim.results s' ∧ sim.trace s = sim.trace s')
    (s0 : State V) (hfix : AgreeOff Ign (reset A init s0) s0) (n : Nat) :
    ∀ s, AgreeOff Ign s s0 → cycles A init sim n s = List.replicate n (sim.results s0) := by
  induction n with
  | zero => intro s _; rfl
  | succ k ih =>
    intro s hs
    simp only [cycles, List.replicate_succ]
    rw [(hdep s s0 hs).1]
    congr 1
    apply ih
    exact (reset_run_off W A Ign hWA init hinit s _ (hsim s)).trans
      ((reset_agreeOff W A Ign hIW init hinit s s0 hs).trans hfix)

theorem overlap_filter_not_mem (W R : List Slot) : overlap (W.filter fun w => !decide (w ∈ R)) R = [] := by
  rw [overlap_eq_nil]
  intro w hw
  simpa using (List.mem_filter.mp hw).2

theorem missing_filter_mem (W A : List Slot) : missing (W.filter fun w => decide (w ∈ A)) A = [] := by
  rw [missing_eq_nil]
  intro w hw
  simpa using (List.mem_filter.mp hw).2

theorem within_mono {W W' : List Slot} (h : ∀ x ∈ W, x ∈ W') {t : Trace V} (ht : t.within W) : t.within W' :=
  fun p hp => h _ (ht p hp)

end Wntr.Frame
