/- Line-protocol driver for M5b RunLoop (C16).

   run <hyd> <report|0=ALL> <duration> <maxTrials> <backup 0/1> <convErr 0/1> <simTime> <prevTime> <fuelCap> <reportStart> <pres> <outs> <posts>
     pres  : comma separated new clock values returned by the successive presolve calls, or `-`
     outs  : one letter per `_solver_helper` call  c=converged i=iterLimit s=singular l=lineSearch t=timeLimit o=other, or `-`
     posts : one digit per post-solve phase (1 = changes made), or `-`
   ->  <halt> times=<..> rows=<..> acc=<..> nsolve=<n> left=<pres>,<outs>,<posts> starved=<n> contract=<ok|broken@i> fuel=<ok|cap> interp=<same|DIFFERS>

   The run is the interpretation (`execS`) of the GENERATED loop program `Gen.shape`; `interp` compares it with the hand-written `step`.

   `rows` are the node rows (= link rows, checked) identified by the number of solver calls made when they were saved. -/
import WntrModel.Model.RunLoop
import WntrModel.Gen.RunLoopShape
open Wntr.RunLoop

def parseInts (s : String) : Option (List Int) :=
  if s == "-" then some [] else (s.splitOn ",").mapM (fun x => x.toInt?)

def parseOuts (s : String) : Option (List SolveOutcome) :=
  if s == "-" then some [] else
    s.toList.mapM (fun c =>
      match c with
      | 'c' => some .converged | 'i' => some .iterLimit | 's' => some .singular
      | 'l' => some .lineSearch | 't' => some .timeLimit | 'o' => some .other | _ => none)

def parseBools (s : String) : Option (List Bool) :=
  if s == "-" then some [] else
    s.toList.mapM (fun c => match c with | '1' => some true | '0' => some false | _ => none)

def showInts (l : List Int) : String := if l.isEmpty then "-" else ",".intercalate (l.map toString)
def showNats (l : List Nat) : String := if l.isEmpty then "-" else ",".intercalate (l.map toString)

def haltName : Option Halt → String
  | none => "running"
  | some .finished => "finished"
  | some .flagNoConv => "flagNoConv"
  | some .flagTrials => "flagTrials"
  | some .raiseNoConv => "raiseNoConv"
  | some .raiseTrials => "raiseTrials"
  | some .raiseAlreadySolved => "raiseAlreadySolved"

/-- early-exit loop over the GENERATED program (`stepS Gen.shape`; equal to `step` by Props/C16 `generated_step_is_model`) -/
def runToS (cfg : Cfg) : Nat → St Trace Nat Nat → St Trace Nat Nat
  | 0, s => s
  | n + 1, s => if s.halt.isSome then s else runToS cfg n (stepS Gen.shape traceWorld cfg s)

/-- executable contract check along the run: index of the first pass whose presolve leaves `(prev, cur]` -/
def contractBreach (cfg : Cfg) : Nat → Nat → St Trace Nat Nat → Option Nat
  | 0, _, _ => none
  | n + 1, i, s =>
    if s.halt.isSome then none
    else
      let t' := (traceWorld.presolve s.w s.simTime s.prevTime s.firstStep).2
      if !s.resolve && !(s.prevTime < t' && t' ≤ s.simTime) then some i
      else contractBreach cfg n (i + 1) (step traceWorld cfg s)

def handle (line : String) : String :=
  match line.trimAscii.toString.splitOn " " with
  | ["run", hyd, rep, dur, mt, bk, ce, st, pt, cap, rs, pres, outs, posts] =>
    match hyd.toInt?, rep.toInt?, dur.toInt?, mt.toInt?, st.toInt?, pt.toInt?, cap.toNat?, rs.toInt?,
          parseInts pres, parseOuts outs, parseBools posts with
    | some hyd, some rep, some dur, some mt, some st, some pt, some cap, some rs, some pres, some outs, some posts =>
      let cfg : Cfg := { hyd, report := rep, duration := dur, maxTrials := mt, backup := bk == "1", convErr := ce == "1", reportStart := rs }
      let w : Trace := { pres, outs, posts, nsolved := 0, starved := 0 }
      let s0 : St Trace Nat Nat := enterS Gen.shape cfg w st pt
      let need := fuel cfg s0.simTime s0.prevTime
      let f := min need cap
      let s := runToS cfg f s0
      let sHand := runTo traceWorld cfg f (enter cfg w st pt)
      let same := s.times == sHand.times && s.nodeRows == sHand.nodeRows && s.nSolve == sHand.nSolve && haltName s.halt == haltName sHand.halt
      let rowsOk := s.nodeRows == s.linkRows
      let breach := contractBreach cfg f 0 s0
      s!"{haltName s.halt} times={showInts s.times} rows={if rowsOk then showNats s.nodeRows else "MISMATCH"} acc={showInts s.accepted} nsolve={s.nSolve} left={s.w.pres.length},{s.w.outs.length},{s.w.posts.length} starved={s.w.starved} contract={match breach with | none => "ok" | some i => s!"broken@{i}"} fuel={if need ≤ cap then "ok" else "cap"} interp={if same then "same" else "DIFFERS"}"
    | _, _, _, _, _, _, _, _, _, _, _ => "bad-op"
  | _ => "bad-op"

partial def loop (h : IO.FS.Stream) : IO Unit := do
  let line ← h.getLine
  if line.isEmpty then return ()
  IO.println (handle line)
  loop h

def main : IO Unit := do loop (← IO.getStdin)
