/- Line-protocol driver for the C07 / C08 rows.  Floats travel as decimal UInt64 bit patterns, exact rationals as p/q.
   pddrow  <e:p/q> <head demand expected pmin pnom elev a1 b1 c1 d1 a2 b2 c2 d2 delta> -> residual of `pddRow` (Float eval)
   pddcurve <pmin pnom e p>        -> fraction a1 b1 c1 d1 a2 b2 c2 d2 delta  (band width, spline end data and coefficients through
                                      the GENERATED `pnomBuild` / `pddPolyBuild` / `cubicSpline`), or `reject` when a build refuses
   leakrow <tank:0|1> <elev:p/q> <h rate elev a b c d area cd>                          -> residual of `leakRowG`
   leakrate <cd area p>            -> rate a b c d
   leakops <op;op;...>   op = add:<area p/q>:<cd p/q>:<start|->:<end|->  | remove | fs | fe   -> state after each op, '|'-separated
   mb <demand> <leak:0|1> <rate> <nin> <in...> <nout> <out...>                           -> value of `mbRow`
-/
import WntrModel.Model.Rows
import WntrModel.Gen.RowsC07
import WntrModel.Gen.RowsC08
open Wntr.Aml Wntr.Rows

def parseRat (s : String) : Option Rat :=
  match s.splitOn "/" with
  | [a, b] => do
    let n ← a.toInt?
    let d ← b.toNat?
    if d == 0 then none else some ((n : Rat) / (d : Rat))
  | [a] => (fun n : Int => (n : Rat)) <$> a.toInt?
  | _ => none

def parseF (s : String) : Option Float := (fun n => Float.ofBits (UInt64.ofNat n)) <$> s.toNat?
def showF (x : Float) : String := toString x.toBits.toNat
def showFs (xs : List Float) : String := " ".intercalate (xs.map showF)

def stdIx : PddIx :=
  { head := 0, demand := 1, expected := 0, pmin := 1, pnom := 2, elev := 3, delta := 12,
    a1 := 4, b1 := 5, c1 := 6, d1 := 7, a2 := 8, b2 := 9, c2 := 10, d2 := 11 }

def envOf (vars params : List Float) : Env Float :=
  { var := fun i => vars.getD i 0.0, param := fun i => params.getD i 0.0 }

def twoG : Rat := (5522539043063071 : Rat) / 281474976710656

def co4 (t : Float × Float × Float × Float) : List Float := [t.1, t.2.1, t.2.2.1, t.2.2.2]

def parseOptInt (s : String) : Option (Option Int) := if s == "-" then some none else some <$> s.toInt?

def parseLeakOp (s : String) : Option LeakOp :=
  match s.splitOn ":" with
  | ["add", a, c, st, en] => do
    let a ← parseRat a
    let c ← parseRat c
    let st ← parseOptInt st
    let en ← parseOptInt en
    some (.add a c st en)
  | ["remove"] => some .remove
  | ["fs"] => some .fireStart
  | ["fe"] => some .fireEnd
  | _ => none

def showOptInt : Option Int → String
  | none => "-"
  | some i => toString i

def showRat (r : Rat) : String := s!"{r.num}/{r.den}"

def showLeakState (s : LeakState) (o : Outcome) : String :=
  s!"{s.leak} {s.status} {showRat s.area} {showRat s.cd} {showOptInt s.startCtl} {showOptInt s.endCtl} {if o == .ok then "ok" else "ValueError"}"

def runLeakOps (s : LeakState) : List LeakOp → List String
  | [] => []
  | op :: rest => let (t, o) := s.step op; showLeakState t o :: runLeakOps t rest

def handle (line : String) : String :=
  match line.trimAscii.toString.splitOn " " with
  | "pddrow" :: e :: rest =>
    match parseRat e, rest.mapM parseF with
    | some e, some [h, d, ex, pmin, pnom, el, a1, b1, c1, d1, a2, b2, c2, d2, dl] =>
      let env := envOf [h, d] [ex, pmin, pnom, el, a1, b1, c1, d1, a2, b2, c2, d2, dl]
      showF (eval floatOps env (pddRow stdIx GenC07.pddSlope e))
    | _, _ => "bad-op"
  | ["pddcurve", pmin, pnom, e, p] =>
    match [pmin, pnom, e, p].mapM parseF with
    | some [pmin, pnom, e, p] =>
      let O := floatOps
      let δ := O.ofRat GenC07.pddDelta
      let s := O.ofRat GenC07.pddSlope
      match GenC07.pnomBuild O pnom δ, GenC07.pddPolyBuild O pmin pnom δ s e with
      | some _, some (d, i1, i2) =>
        let k1 := GenC07.cubicSpline O i1.1 i1.2.1 i1.2.2.1 i1.2.2.2.1 i1.2.2.2.2.1 i1.2.2.2.2.2
        let k2 := GenC07.cubicSpline O i2.1 i2.2.1 i2.2.2.1 i2.2.2.2.1 i2.2.2.2.2.1 i2.2.2.2.2.2
        showFs (pddFrac O pmin pnom d s e k1 k2 p :: (co4 k1 ++ co4 k2 ++ [d]))
      | _, _ => "reject"
    | _ => "bad-op"
  | "leakrow" :: tank :: elevq :: rest =>
    match parseRat elevq, rest.mapM parseF with
    | some eq, some [h, rate, el, a, b, c, d, area, cd] =>
      let isTank := tank == "1"
      let hE : Expr := if isTank then .param 0 else .var 1
      let elE : Expr := if isTank then .const eq else .param 1
      let env := envOf [rate, h] [h, el, a, b, c, d, area, cd]
      showF (eval floatOps env
        (leakRowG (leakCond1 isTank hE elE) hE elE 0 2 3 4 5 6 7 GenC08.leakDelta GenC08.leakSlope twoG))
    | _, _ => "bad-op"
  | ["leakrate", cd, area, p] =>
    match [cd, area, p].mapM parseF with
    | some [cd, area, p] =>
      let O := floatOps
      let δ := O.ofRat GenC08.leakDelta
      let s := O.ofRat GenC08.leakSlope
      let i := GenC08.leakSplineIn O cd area δ s
      let k := GenC07.cubicSpline O i.1 i.2.1 i.2.2.1 i.2.2.2.1 i.2.2.2.2.1 i.2.2.2.2.2
      showFs (leakRate O cd area δ s (O.ofRat twoG) k p :: co4 k)
    | _ => "bad-op"
  | ["leakops", ops] =>
    match (ops.splitOn ";").mapM parseLeakOp with
    | some ops => "|".intercalate (runLeakOps {} ops)
    | none => "bad-op"
  | "mb" :: dem :: leak :: rate :: rest =>
    match parseF dem, parseF rate, rest with
    | some dem, some rate, nin :: rest2 =>
      match nin.toNat? with
      | some nin =>
        let ins := rest2.take nin
        match (rest2.drop nin) with
        | nout :: outs =>
          match ins.mapM parseF, outs.mapM parseF, nout.toNat? with
          | some ins, some outs, some nout =>
            if outs.length != nout then "bad-op" else
            -- variables: 0 = leak_rate, 1.. = inflows, then outflows; parameter 0 = demand
            let inIx := (List.range ins.length).map (· + 1)
            let outIx := (List.range outs.length).map (· + 1 + ins.length)
            let env := envOf (rate :: (ins ++ outs)) [dem]
            showF (eval floatOps env (mbRow (.param 0) inIx outIx (if leak == "1" then some 0 else none)))
          | _, _, _ => "bad-op"
        | _ => "bad-op"
      | none => "bad-op"
    | _, _, _ => "bad-op"
  | _ => "bad-op"

partial def loop (h : IO.FS.Stream) : IO Unit := do
  let line ← h.getLine
  if line.isEmpty then return ()
  IO.println (handle line)
  loop h

def main : IO Unit := do loop (← IO.getStdin)
