/- Line-protocol driver for Model/OrderedSetModel.lean (`wntr.utils.ordered_set.OrderedSet`) and for the OrderedDict operations
   (`AL.*` of Model/Registry.lean) the registries use.  Elements are naturals; lists are `+`-separated (`-` = empty).

   reset | add x | discard x | remove x | update l | union l | sub l | or l | contains x | len | iter | eq l | le l | clear | pop
   dreset | dset k v | dpop k | dhas k | dkeys | dget k
   every answer: `<result> | <elements of the set in iteration order>` (sets) / `<result> | k=v ...` (dict) -/
import WntrModel.Model.OrderedSetModel
import WntrModel.Model.Registry
open Wntr.OrderedSetModel

def lstS (l : List Nat) : String := if l.isEmpty then "-" else "+".intercalate (l.map toString)
def lstP (t : String) : Option (List Nat) := if t == "-" then some [] else (t.splitOn "+").mapM String.toNat?
def dictS (d : List (Nat × Nat)) : String := if d.isEmpty then "-" else "+".intercalate (d.map fun (k, v) => s!"{k}={v}")

abbrev St := OSetM Nat × List (Nat × Nat)

def handle (st : St) (line : String) : St × String :=
  let s := st.1
  let d := st.2
  let out (s' : OSetM Nat) (r : String) : St × String := ((s', d), s!"{r} | {lstS (iter s')}")
  let dout (d' : List (Nat × Nat)) (r : String) : St × String := ((s, d'), s!"{r} | {dictS d'}")
  match (line.trimAscii.toString.splitOn " ") with
  | ["reset"] => out empty "ok"
  | ["add", x] => match x.toNat? with | some x => out (add s x) "ok" | none => (st, "bad")
  | ["discard", x] => match x.toNat? with | some x => out (discard s x) "ok" | none => (st, "bad")
  | ["remove", x] => match x.toNat? with
      | some x => (match remove s x with | some s' => out s' "ok" | none => out s "KeyError")
      | none => (st, "bad")
  | ["update", l] => match lstP l with | some l => out (update s l) "ok" | none => (st, "bad")
  | ["union", l] => match lstP l with | some l => out s (lstS (iter (union s l))) | none => (st, "bad")
  | ["sub", l] => match lstP l with | some l => out s (lstS (iter (sub s l))) | none => (st, "bad")
  | ["or", l] => match lstP l with | some l => out s (lstS (iter (or s l))) | none => (st, "bad")
  | ["contains", x] => match x.toNat? with | some x => out s (toString (contains s x)) | none => (st, "bad")
  | ["len"] => out s (toString (len s))
  | ["iter"] => out s (lstS (iter s))
  | ["eq", l] => match lstP l with | some l => out s (toString (eq s (ofList l))) | none => (st, "bad")
  | ["le", l] => match lstP l with | some l => out s (toString (le s (ofList l))) | none => (st, "bad")
  | ["clear"] => out (clear s) "ok"
  | ["pop"] => (match pop s with | some (v, s') => out s' (toString v) | none => out s "KeyError")
  | ["dreset"] => dout [] "ok"
  | ["dset", k, v] => match k.toNat?, v.toNat? with | some k, some v => dout (Wntr.Registry.AL.set d k v) "ok" | _, _ => (st, "bad")
  | ["dpop", k] => match k.toNat? with | some k => dout (Wntr.Registry.AL.del d k) "ok" | none => (st, "bad")
  | ["dhas", k] => match k.toNat? with | some k => dout d (toString (Wntr.Registry.AL.has d k)) | none => (st, "bad")
  | ["dget", k] => match k.toNat? with
      | some k => dout d (match Wntr.Registry.AL.get? d k with | some v => toString v | none => "None")
      | none => (st, "bad")
  | ["dkeys"] => dout d (lstS (Wntr.Registry.AL.keys d))
  | _ => (st, "bad")

partial def loop (h : IO.FS.Stream) (st : St) : IO Unit := do
  let line ← h.getLine
  if line.isEmpty then return ()
  let (st', ans) := handle st line
  IO.println ans
  loop h st'

def main : IO Unit := do loop (← IO.getStdin) (empty, [])
