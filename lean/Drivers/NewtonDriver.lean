/- Line-protocol driver for M5c Newton (C16 / C01 / C02).

   newton <maxiter> <tol> <rho> <btMaxiter> <bt 0/1> <btStart> <c1> <empty 0/1> <timeAt|-> <norms> <linOk>
     tol, rho, c1 : exact rationals p/q (the doubles the solver uses)
     norms : comma separated p/q or `nan`, in the order `model.evaluate_residuals()` was called, or `-`
     linOk : one digit per outer iteration (1 = spsolve succeeded, 0 = MatrixRankWarning), or `-` (missing = succeeded)
   ->  <converged|error|crash> <msg> <iter> evals=<n> given=<m> small=<yes|no|na> interp=<same|DIFFERS>

   `small` = the model-side statement of `newton_converged_implies_small_residual` evaluated on the final state. -/
import WntrModel.Model.Newton
import WntrModel.Gen.NewtonShape
open Wntr.Newton

def parseRat (s : String) : Option Rat :=
  match s.splitOn "/" with
  | [a, b] => do
    let n ← a.toInt?
    let d ← b.toNat?
    if d == 0 then none else some ((n : Rat) / (d : Rat))
  | [a] => (fun n : Int => (n : Rat)) <$> a.toInt?
  | _ => none

def parseNorms (s : String) : Option (List (Option Rat)) :=
  if s == "-" then some [] else
    (s.splitOn ",").mapM (fun x => if x == "nan" then some none else (parseRat x).map some)

def parseBits (s : String) : Option (List Bool) :=
  if s == "-" then some [] else s.toList.mapM (fun c => match c with | '1' => some true | '0' => some false | _ => none)

def msgName : Msg → String
  | .noVars => "noVars" | .solved => "solved" | .timeLimit => "timeLimit"
  | .singular => "singular" | .lineSearch => "lineSearch" | .maxIter => "maxIter"

def handle (line : String) : String :=
  match line.trimAscii.toString.splitOn " " with
  | ["newton", mi, tol, rho, bm, bt, bs, c1, em, ta, norms, lin] =>
    match mi.toNat?, parseRat tol, parseRat rho, bm.toNat?, bs.toNat?, parseRat c1, parseNorms norms, parseBits lin with
    | some mi, some tol, some rho, some bm, some bs, some c1, some norms, some lin =>
      let o : Opts := { maxiter := mi, tol, rho, btMaxiter := bm, bt := bt == "1", btStartIter := bs, c1 }
      let t : NTrace := { norms, linOk := lin, timeAt := if ta == "-" then none else ta.toNat? }
      let r := solve (traceWorld t) o (em == "1") 0
      let g := solveS Gen.solveShape (traceWorld t) o (em == "1") 0   -- the interpreted GENERATED program
      let same := g.1 == some r.1 && g.2.nEval == r.2.nEval
      let small := match r.1 with
        | .ret .converged _ _ => if em == "1" then "na" else if ltO ((traceWorld t).norm r.2.loaded) (some o.tol) then "yes" else "no"
        | _ => "na"
      match r.1 with
      | .ret st m k =>
        s!"{if st == .converged then "converged" else "error"} {msgName m} {k} evals={r.2.nEval} given={norms.length} small={small} interp={if same then "same" else "DIFFERS"}"
    | _, _, _, _, _, _, _, _ => "bad-op"
  | _ => "bad-op"

partial def loop (h : IO.FS.Stream) : IO Unit := do
  let line ← h.getLine
  if line.isEmpty then return ()
  IO.println (handle line)
  loop h

def main : IO Unit := do loop (← IO.getStdin)
