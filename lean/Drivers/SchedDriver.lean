/- Line-protocol driver for M5 `Sched`.
   cfg <hyd> <rule> <report(0=ALL)> <duration> <startClock>
   ctl P|R <id> <prio> <cond tokens> then <k> <v> ... [else <k> <v> ...]
        cond := sim <rel> <thr> <rep> | tod <rel> <thr> <rep01> <firstDay> | and cond cond | or cond cond
   init <k> <v> ...
   leak <key> <start> <end|none>  -> `leakctl …` one line per control the model's `Leak.ctls` registers, then `ok`
   dur <duration>
   pause <t>                -> like `dur t; run` but the configured duration is kept (first part of a paused simulation)
   run                      -> rows `row <time> <k>=<v> ...` then `end <simTime> <prevTime> <ruleIter>`
   reset                    -> forget everything
   eval sim|tod ... <prev> <cur> [<startClock>]   -> `T|F <backtrack|none>`
-/
import WntrModel.Model.Sched
open Wntr.Time Wntr.Sched

def parseRel : String → Option Rel
  | "gt" => some .gt | "ge" => some .ge | "lt" => some .lt | "le" => some .le | "eq" => some .eq | "ne" => some .ne
  | _ => none

partial def parseCond : List String → Option (Cond × List String)
  | "sim" :: r :: t :: p :: rest => do
    let rel ← parseRel r; let t ← t.toInt?; let p ← p.toInt?
    some (.sim ⟨rel, t, p⟩, rest)
  | "tod" :: r :: t :: p :: f :: rest => do
    let rel ← parseRel r; let t ← t.toInt?; let f ← f.toInt?
    some (.tod ⟨rel, t, p == "1", f⟩, rest)
  | "and" :: rest => do
    let (a, r1) ← parseCond rest; let (b, r2) ← parseCond r1
    some (.and a b, r2)
  | "or" :: rest => do
    let (a, r1) ← parseCond rest; let (b, r2) ← parseCond r1
    some (.or a b, r2)
  | _ => none

def parseActs : List String → Option (List Action × List String)
  | k :: v :: rest =>
    match k.toNat?, v.toInt? with
    | some k, some v =>
      match parseActs rest with
      | some (as, r) => some (⟨k, v⟩ :: as, r)
      | none => none
    | _, _ => some ([], k :: v :: rest)
  | rest => some ([], rest)

structure DState where
  cfg : Cfg := { hyd := 3600, rule := 360, report := 3600, duration := 0, startClock := 0, presolve := [], rules := [] }
  simTime : Int := 0
  prevTime : Int := -1
  vals : Vals := []

def showVals (v : Vals) : String :=
  let sorted := v.toArray.qsort (fun a b => a.1 < b.1) |>.toList
  " ".intercalate (sorted.map fun p => s!"{p.1}={p.2}")

def showEval (r : Bool × Option Int) : String :=
  (if r.1 then "T " else "F ") ++ (match r.2 with | some b => toString b | none => "none")

/-- one `run_sim()` call on the model state kept in `d` with configuration `cfg` -/
def doRun (d : DState) (cfg : Cfg) : DState × List String :=
  let (s, rows) := runSim cfg d.simTime d.prevTime d.vals
  let out := rows.map fun r => s!"row {r.time} {showVals r.vals}"
  ({ d with simTime := s.simTime, prevTime := s.prevTime, vals := s.vals },
    out ++ [s!"end {s.simTime} {s.prevTime} {s.ruleIter} rules {" ".intercalate (s.ruleLog.map toString)}"])

def handle (d : DState) (line : String) : DState × List String :=
  match line.trimAscii.toString.splitOn " " |>.filter (· ≠ "") with
  | ["reset"] => ({}, ["ok"])
  | ["cfg", h, r, rp, du, sc] =>
    match h.toInt?, r.toInt?, rp.toInt?, du.toInt?, sc.toInt? with
    | some h, some r, some rp, some du, some sc =>
      ({ d with cfg := { d.cfg with hyd := h, rule := r, report := rp, duration := du, startClock := sc } }, ["ok"])
    | _, _, _, _, _ => (d, ["bad-op"])
  | "ctl" :: kind :: id :: prio :: rest =>
    match id.toNat?, prio.toNat?, parseCond rest with
    | some id, some prio, some (c, "then" :: r1) =>
      match parseActs r1 with
      | some (ta, r2) =>
        let ea := match r2 with
          | "else" :: r3 => (parseActs r3).map (·.1) |>.getD []
          | _ => []
        let ctl : Ctl := ⟨id, prio, c, ta, ea⟩
        if kind == "P" then ({ d with cfg := { d.cfg with presolve := d.cfg.presolve ++ [ctl] } }, ["ok"])
        else ({ d with cfg := { d.cfg with rules := d.cfg.rules ++ [ctl] } }, ["ok"])
      | none => (d, ["bad-op"])
    | _, _, _ => (d, ["bad-op"])
  | ["leak", k, st, en] =>
    -- node.add_leak(wn, …, start_time, end_time): print the controls the MODEL registers and register them
    match k.toNat?, st.toInt? with
    | some k, some st =>
      let l : Leak := ⟨k, st, en.toInt?⟩
      let out := l.ctls.map fun c =>
        match c.cond, c.thenA with
        | .sim ⟨rel, thr, rep⟩, [a] => s!"leakctl {c.id} {c.prio} sim {repr rel} {thr} {rep} {a.key} {a.value} else {c.elseA.length}"
        | _, _ => "leakctl ?"
      ({ d with cfg := { d.cfg with presolve := d.cfg.presolve ++ l.ctls } }, out ++ ["ok"])
    | _, _ => (d, ["bad-op"])
  | "init" :: rest =>
    match parseActs rest with
    | some (as, []) => ({ d with vals := runActions d.vals as }, ["ok"])
    | _ => (d, ["bad-op"])
  | ["dur", du] =>
    match du.toInt? with
    | some du => ({ d with cfg := { d.cfg with duration := du } }, ["ok"])
    | none => (d, ["bad-op"])
  | ["run"] => doRun d d.cfg
  | ["pause", t] =>
    -- run to the intermediate duration `t` (wn.options.time.duration = t; run_sim()); the model keeps
    -- (sim_time, _prev_sim_time, element states); the configured duration is restored for the next `run`/`pause`
    match t.toInt? with
    | some t => doRun d { d.cfg with duration := t }
    | none => (d, ["bad-op"])
  | "eval" :: "sim" :: r :: t :: p :: prev :: cur :: _ =>
    match parseRel r, t.toInt?, p.toInt?, prev.toInt?, cur.toInt? with
    | some rel, some t, some p, some prev, some cur => (d, [showEval (evalSimTime ⟨rel, t, p⟩ prev cur)])
    | _, _, _, _, _ => (d, ["bad-op"])
  | ["eval", "tod", r, t, p, f, prev, cur, sc] =>
    match parseRel r, t.toInt?, f.toInt?, prev.toInt?, cur.toInt?, sc.toInt? with
    | some rel, some t, some f, some prev, some cur, some sc =>
      (d, [showEval (evalTod ⟨rel, t, p == "1", f⟩ (prev + sc) (cur + sc))])
    | _, _, _, _, _, _ => (d, ["bad-op"])
  | ["clock", "parse", h, m, s, ap] =>
    match h.toInt?, m.toInt?, s.toInt?, ap.toNat? with
    | some h, some m, some s, some ap => (d, [toString (parseClock h m s ap)])
    | _, _, _, _ => (d, ["bad-op"])
  | ["clock", "fmt", s] =>
    match s.toInt? with
    | some s => let (h, m, ss, pm) := secToClock s; (d, [s!"{h} {m} {ss} {if pm then "PM" else "AM"}"])
    | none => (d, ["bad-op"])
  | _ => (d, ["bad-op"])

partial def loop (h : IO.FS.Stream) (d : DState) : IO Unit := do
  let line ← h.getLine
  if line.isEmpty then return ()
  let (d', out) := handle d line
  for o in out do IO.println o
  loop h d'

def main : IO Unit := do loop (← IO.getStdin) {}
