/- Line-protocol driver for M1 Units:  `conv <hyd> <param> <unit> <mass> <order> <dw> <p/q>`  ->  `<toSI> <fromSI>` as exact p/q;
   `xconv …` the same through the container value model (`XVal.scale`): the value may also be nan / inf / -inf -/
import WntrModel.Model.Units
import WntrModel.Model.UnitsNames
import WntrModel.Gen.Units
open Wntr.Units

def parseRat (s : String) : Option Rat :=
  match s.splitOn "/" with
  | [a, b] => do
    let n ← a.toInt?
    let d ← b.toNat?
    if d == 0 then none else some ((n : Rat) / (d : Rat))
  | [a] => (fun n : Int => (n : Rat)) <$> a.toInt?
  | _ => none

def showRat (r : Rat) : String := s!"{r.num}/{r.den}"

def showX : XVal → String
  | .fin q => showRat q
  | .nan => "nan"
  | .pinf => "inf"
  | .ninf => "-inf"

def parseX (s : String) : Option XVal :=
  if s == "nan" then some .nan else if s == "inf" then some .pinf else if s == "-inf" then some .ninf
  else (parseRat s).map .fin

def handle (line : String) : String :=
  match line.trimAscii.toString.splitOn " " with
  | ["xconv", h, p, u, m, o, d, x] =>
    match p.toNat?, u.toNat?, m.toNat?, o.toNat?, parseX x with
    | some p, some u, some m, some o, some x =>
      match lookup Gen.table (h == "1") p u m o (d == "1") with
      | some e => s!"{showX (XVal.scale (factor e.toSteps) x)} {showX (XVal.scale (factor e.fromSteps) x)}"
      | none => "missing"
    | _, _, _, _, _ => "bad-op"
  | ["conv", h, p, u, m, o, d, x] =>
    match p.toNat?, u.toNat?, m.toNat?, o.toNat?, parseRat x with
    | some p, some u, some m, some o, some x =>
      match lookup Gen.table (h == "1") p u m o (d == "1") with
      | some e => s!"{showRat (e.toSI x)} {showRat (e.fromSI x)}"
      | none => "missing"
    | _, _, _, _, _ => "bad-op"
  | _ => "bad-op"

partial def loop (h : IO.FS.Stream) : IO Unit := do
  let line ← h.getLine
  if line.isEmpty then return ()
  IO.println (handle line)
  loop h

def main : IO Unit := do loop (← IO.getStdin)
