/- Line-protocol driver for M9 Morph (wntr/morph/link.py `_split_or_break_pipe`, wntr/morph/skel.py `_Skeletonize`).
   Fields are separated by `|`, records by `;`, sub-fields by `,`, inner lists by blanks; rationals travel as `p/q`; `~` is Python's None.

   split       | <nodes> | <pipes> | <others> | <pipe>,<newPipe>,<j0>[ <j1>],<atEnd 0/1>,<f>,<isBreak 0/1> | <segLens>
   splitpinned | ... same ...        (the code before fixes/C19-split-neutral-new-pipe.patch: minor loss and current status copied to the new pipe)
        node  = name,J|T|R,elev,x,y            pipe = name,a,b,length,diam,rough,minor,initStatus,status,cv,x:y x:y ...      other = name,a,b
     -> `ok N=<nodes> P=<pipes> O=<others>` | `error notAPipe|badFraction|nameInUse|unbound|noElevation`
   skelrun | <snodes> | <slinks> | <jExcl> | <pExcl> | <thr> | <ops>
        snode = name,J|T|R,base:pat:cat ...    slink = name,a,b,isPipe,diam,length,minor,status,cv
        op    = t,j | s,j,n0,n1 | p,j,n,p0,p1
     -> `ok N=<snodes> L=<slinks> M=<key>=<names>;...`
   skelora | <snodes> | <slinks> | <jExcl> | <pExcl> | <final snodes> | <final slinks> | <final map>
   merge | s|p | <pipe0> | <pipe1>     pipe = length,diam,rough,minor (decimal of the binary64 bit pattern),status
     -> `ok <length> <diam> <rough> <minor> <status>`: `_series_merge_properties` / `_parallel_merge_properties` in Lean Float
   (skelora) -> the executable form of `SkelInv` evaluated on the IMPLEMENTATION's before/after data: `ok` | `fail retained|demands|map`
-/
import WntrModel.Model.Morph
import WntrModel.Gen.MorphShape
open Wntr.Morph

def trim (s : String) : String := s.trimAscii.toString

def parseRat (s : String) : Option Rat :=
  match (trim s).splitOn "/" with
  | [a, b] => do
    let n ← a.toInt?
    let d ← b.toNat?
    if d == 0 then none else some ((n : Rat) / (d : Rat))
  | [a] => (fun n : Int => (n : Rat)) <$> a.toInt?
  | _ => none

def showRat (r : Rat) : String := s!"{r.num}/{r.den}"

def items (sep : String) (s : String) : List String := ((trim s).splitOn sep).map trim |>.filter (fun t => !t.isEmpty)

def parseKind : String → Option NodeKind
  | "J" => some .junction
  | "T" => some .tank
  | "R" => some .reservoir
  | _ => none

def showKind : NodeKind → String
  | .junction => "J"
  | .tank => "T"
  | .reservoir => "R"

def parseBool : String → Option Bool
  | "1" => some true
  | "0" => some false
  | _ => none

def showBool (b : Bool) : String := if b then "1" else "0"

def parsePt (s : String) : Option Pt :=
  match s.splitOn ":" with
  | [x, y] => do some ((← parseRat x), (← parseRat y))
  | _ => none

def showPt (p : Pt) : String := s!"{showRat p.1}:{showRat p.2}"

def parseNode (s : String) : Option Node :=
  match (s.splitOn ",").map trim with
  | [n, k, e, x, y] => do some { name := n, kind := ← parseKind k, elev := ← parseRat e, xy := (← parseRat x, ← parseRat y) }
  | _ => none

def showNode (n : Node) : String := s!"{n.name},{showKind n.kind},{showRat n.elev},{showRat n.xy.1},{showRat n.xy.2}"

def parsePipe (s : String) : Option Pipe :=
  match (s.splitOn ",").map trim with
  | [n, a, b, l, d, r, m, is, st, cv, vs] => do
    some { name := n, a := a, b := b, length := ← parseRat l, diam := ← parseRat d, rough := ← parseRat r, minor := ← parseRat m,
           initStatus := ← is.toNat?, status := ← st.toNat?, cv := ← parseBool cv, verts := ← (items " " vs).mapM parsePt }
  | _ => none

def showPipe (p : Pipe) : String :=
  s!"{p.name},{p.a},{p.b},{showRat p.length},{showRat p.diam},{showRat p.rough},{showRat p.minor},{p.initStatus},{p.status}," ++
  s!"{showBool p.cv},{" ".intercalate (p.verts.map showPt)}"

def parseOther (s : String) : Option Other :=
  match (s.splitOn ",").map trim with
  | [n, a, b] => some { name := n, a := a, b := b }
  | _ => none

def showErr : Err → String
  | .notAPipe => "notAPipe"
  | .badFraction => "badFraction"
  | .nameInUse => "nameInUse"
  | .unbound => "unbound"
  | .noElevation => "noElevation"

def showNet (n : Net) : String :=
  s!"ok N={";".intercalate (n.nodes.map showNode)} P={";".intercalate (n.pipes.map showPipe)} " ++
  s!"O={";".intercalate (n.others.map fun o => s!"{o.name},{o.a},{o.b}")}"

def doSplit (pinned : Bool) (fs : List String) : String :=
  match fs with
  | [nodes, pipes, others, call, segs] =>
    match (items ";" nodes).mapM parseNode, (items ";" pipes).mapM parsePipe, (items ";" others).mapM parseOther,
          (call.splitOn ",").map trim, (items " " segs).mapM parseRat with
    | some ns, some ps, some os, [pn, np, js, ae, f, br], some sl =>
      match parseBool ae, parseRat f, parseBool br with
      | some ae, some f, some br =>
        let net : Net := { nodes := ns, pipes := ps, others := os }
        let r := if pinned then splitCopying net pn np (items " " js) ae f sl br
                 else splitOrBreak net pn np (items " " js) ae f sl br
        match r with
        | .ok n => showNet n
        | .error e => s!"error {showErr e}"
      | _, _, _ => "bad-op"
    | _, _, _, _, _ => "bad-op"
  | _ => "bad-op"

def parseDem (s : String) : Option Dem :=
  match s.splitOn ":" with
  | [b, p, c] => do some { base := ← parseRat b, pat := p, cat := c }
  | _ => none

def showDem (d : Dem) : String := s!"{showRat d.base}:{d.pat}:{d.cat}"

def parseSNode (s : String) : Option SNode :=
  match (s.splitOn ",").map trim with
  | [n, k, ds] => do some { name := n, kind := ← parseKind k, demands := ← (items " " ds).mapM parseDem }
  | _ => none

def showSNode (n : SNode) : String := s!"{n.name},{showKind n.kind},{" ".intercalate (n.demands.map showDem)}"

def parseSLink (s : String) : Option SLink :=
  match (s.splitOn ",").map trim with
  | [n, a, b, ip, d, l, m, st, cv] => do
    some { name := n, a := a, b := b, isPipe := ← parseBool ip, diam := ← parseRat d, length := ← parseRat l, minor := ← parseRat m,
           status := ← st.toNat?, cv := ← parseBool cv }
  | _ => none

def showSLink (l : SLink) : String :=
  s!"{l.name},{l.a},{l.b},{showBool l.isPipe},{showRat l.diam},{showRat l.length},{showRat l.minor},{l.status},{showBool l.cv}"

def parseOp (s : String) : Option SkelOp :=
  match (s.splitOn ",").map trim with
  | ["t", j] => some (.trim j)
  | ["s", j, n0, n1] => some (.series j n0 n1)
  | ["p", j, n, p0, p1] => some (.parallel j n p0 p1)
  | _ => none

def parseMapEntry (s : String) : Option (String × List String) :=
  match s.splitOn "=" with
  | [k, v] => some (trim k, items " " v)
  | _ => none

def showMap (m : List (String × List String)) : String := ";".intercalate (m.map fun kl => s!"{kl.1}={" ".intercalate kl.2}")

def doSkelRun (fs : List String) : String :=
  match fs with
  | [nodes, links, jx, px, thr, ops] =>
    match (items ";" nodes).mapM parseSNode, (items ";" links).mapM parseSLink, parseRat thr, (items ";" ops).mapM parseOp with
    | some ns, some ls, some thr, some ops =>
      let s := Skel.run thr (Skel.init ns ls (items " " jx) (items " " px)) ops
      s!"ok N={";".intercalate (s.nodes.map showSNode)} L={";".intercalate (s.links.map showSLink)} M={showMap s.map}"
    | _, _, _, _ => "bad-op"
  | _ => "bad-op"

def doSkelOracle (fs : List String) : String :=
  match fs with
  | [nodes, links, jx, px, fnodes, flinks, fmap] =>
    match (items ";" nodes).mapM parseSNode, (items ";" links).mapM parseSLink, (items ";" fnodes).mapM parseSNode,
          (items ";" flinks).mapM parseSLink, (items ";" fmap).mapM parseMapEntry with
    | some ns, some ls, some fns, some fls, some fm =>
      let orig := Skel.init ns ls (items " " jx) (items " " px)
      let final : Skel := { orig with nodes := fns, links := fls, map := fm }
      skelOracle orig final
    | _, _, _, _, _ => "bad-op"
  | _ => "bad-op"

/-- binary64 values travel as the decimal of their bit pattern -/
def parseF (s : String) : Option Float := (fun n => Float.ofBits (UInt64.ofNat n)) <$> (trim s).toNat?
def showF (x : Float) : String := toString x.toBits.toNat

def parseMPipe (s : String) : Option (MPipe Float) :=
  match (s.splitOn ",").map trim with
  | [l, d, c, m, st] => do some { length := ← parseF l, diam := ← parseF d, rough := ← parseF c, minor := ← parseF m, status := ← st.toNat? }
  | _ => none

/-- merge | s|p | <pipe0> | <pipe1>   (pipe = length,diam,rough,minor as bit patterns, status) -> `ok <length> <diam> <rough> <minor> <status>` -/
def doMerge (fs : List String) : String :=
  match fs with
  | [k, a, b] =>
    match parseMPipe a, parseMPipe b with
    | some p0, some p1 =>
      -- the expression trees regenerated from the source (Gen.seriesMX / Gen.parallelMX), evaluated in binary64
      let d := if decide (p0.diam ≥ p1.diam) then p0 else p1
      let nan : Float := 0.0 / 0.0
      let env : String → Float := fun n =>
        match n.splitOn "." with
        | [o, attr] =>
          let p := if o == "pipe0" then p0 else if o == "pipe1" then p1 else d
          if attr == "length" then p.length else if attr == "diameter" then p.diam else if attr == "roughness" then p.rough
          else if attr == "minor_loss" then p.minor else nan
        | _ => nan
      let litv : Nat → Nat → Float := fun n m => n.toFloat / m.toFloat
      let m := if k == "s" then Wntr.Morph.Gen.seriesMX else Wntr.Morph.Gen.parallelMX
      let ev := fun (e : MX) => e.eval Float.pow litv env
      let st := if m.status == "dominant_pipe.status" then d.status else 99
      s!"ok {showF (ev m.length)} {showF (ev m.diam)} {showF (ev m.rough)} {showF (ev m.minor)} {st}"
    | _, _ => "bad-op"
  | _ => "bad-op"

def parseRefs (s : String) : List Ref :=
  (items " " s).filterMap fun t => match t.splitOn ":" with
    | ["n", x] => some { isNode := true, name := x }
    | ["l", x] => some { isNode := false, name := x }
    | _ => none

def parseCtl (s : String) : Option Ctl :=
  match s.splitOn "," with
  | [c, t, e] => some { cond := parseRefs c, thenA := parseRefs t, elseA := parseRefs e }
  | _ => none

/-- ctlrefs | <snodes> | <slinks> | <ctl;ctl…> (ctl = cond refs,then refs,else refs; ref = n:name | l:name) | <edits> (c|t|e,i,refs ; p,i)
    -> `ok J=<junction names> P=<pipe names>`: the exclusion lists `_Skeletonize.__init__` derives from the edited controls -/
def doCtlRefs (fs : List String) : String :=
  match fs with
  | [nodes, links, ctls, edits] =>
    match (items ";" nodes).mapM parseSNode, (items ";" links).mapM parseSLink, (items ";" ctls).mapM parseCtl with
    | some ns, some ls, some cs =>
      let es : List CtlEdit := (items ";" edits).filterMap fun t => match (t.splitOn ",").map trim with
        | ["c", i, r] => i.toNat?.map fun i => CtlEdit.cond i (parseRefs r)
        | ["t", i, r] => i.toNat?.map fun i => CtlEdit.thenA i (parseRefs r)
        | ["e", i, r] => i.toNat?.map fun i => CtlEdit.elseA i (parseRefs r)
        | ["p", i] => i.toNat?.map CtlEdit.priority
        | _ => none
      let cs := es.foldl applyEdit cs
      s!"ok J={" ".intercalate (ctlJunctions ns cs)} P={" ".intercalate (ctlPipes ls cs)}"
    | _, _, _ => "bad-op"
  | _ => "bad-op"

def handle (line : String) : String :=
  match (line.splitOn "|").map trim with
  | "split" :: fs => doSplit false fs
  | "splitpinned" :: fs => doSplit true fs
  | "skelrun" :: fs => doSkelRun fs
  | "skelora" :: fs => doSkelOracle fs
  | "merge" :: fs => doMerge fs
  | "ctlrefs" :: fs => doCtlRefs fs
  | _ => "bad-op"

partial def loop (h : IO.FS.Stream) : IO Unit := do
  let line ← h.getLine
  if line.isEmpty then return ()
  IO.println (handle line)
  loop h

def main : IO Unit := do loop (← IO.getStdin)
