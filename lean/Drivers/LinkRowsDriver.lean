/- Line-protocol driver for C01 / C02.  Floats travel as decimal UInt64 bit patterns, exact rationals as p/q.
   nb <tol> <slack> <demand> <leak> <nin> <in p/q ...> <nout> <out p/q ...>     -> ok|fail <residual p/q>      (`nodeBalanceOk`)
   dd <patStep> <interp 0|1> <patStart> <simTime> <dm p/q> <entry ...>           -> p/q   (`expectedDemand`)
        entry = <base p/q>:-   |  <base p/q>:<wrap 0|1>:<m1,m2,...>   (mults may be empty)
   mb <demandIsVar 0|1> <leak 0|1> <demand> <rate> <nin> <in ...> <nout> <out ...>   (floats)  -> residual of `massBalanceRow`
   row <approx d|p> <kind> <status c|o|a> <iso 0|1> <tol> f hs he rough diam len K setting elevS elevE power (floats)
       A B C a b c d qbar hbar (p/q)                                               -> ok|fail <residual float>   (`linkLawOk`)
   gen <C01DD|C01PDD|C02D|C02P> <nv> <v ...> <np> <p ...>  (floats)                 -> residuals of ALL generated rows
   pumpsmooth <A B C> (floats)                                                    -> a b c d qbar hbar (floats)
   closecv <hs he q> (p/q)                                                        -> <close T|F> <open T|F>
   closepump <A hs he q> (p/q)                                 -> <close repaired> <open repaired> <close as coded> <power close> <power open> <power close repaired> <power open repaired>
   tracker <v0> <f<v>|r ...>   (ControlChangeTracker for one target)                 -> changed flag after every op
   norev <q p/q>                                                                  -> ok|fail
-/
import WntrModel.Model.LinkRows
import WntrModel.Gen.RowsC01
import WntrModel.Gen.RowsC02
open Wntr.Aml Wntr.LinkRows Wntr.Gen

def parseRat (s : String) : Option Rat :=
  match s.splitOn "/" with
  | [a, b] => do
    let n ← a.toInt?
    let d ← b.toNat?
    if d == 0 then none else some ((n : Rat) / (d : Rat))
  | [a] => (fun n : Int => (n : Rat)) <$> a.toInt?
  | _ => none

def parseF (s : String) : Option Float := (fun n => Float.ofBits (UInt64.ofNat n)) <$> s.toNat?
def showF (x : Float) : String := toString x.toBits.toNat
def showFs (xs : List Float) : String := " ".intercalate (xs.map showF)
def showRat (r : Rat) : String := s!"{r.num}/{r.den}"
def showB (b : Bool) : String := if b then "T" else "F"

def envOf (vars params : List Float) : Env Float :=
  { var := fun i => vars.getD i 0.0, param := fun i => params.getD i 0.0 }

/-- split `n x1 .. xn rest` -/
def takeCounted (l : List String) : Option (List String × List String) :=
  match l with
  | n :: rest =>
    match n.toNat? with
    | some n => if rest.length < n then none else some (rest.take n, rest.drop n)
    | none => none
  | [] => none

def parseEntry (s : String) : Option Wntr.Pattern.TS :=
  match s.splitOn ":" with
  | [b, "-"] => (fun b => { base := b }) <$> parseRat b
  | [b, w, ms] => do
    let b ← parseRat b
    let mults ← (if ms == "" then some [] else (ms.splitOn ",").mapM parseRat)
    some { base := b, pat := some { mults := mults, wrap := w == "1" } }
  | _ => none

def parseKind : String → Option LinkKind
  | "pipe" => some .pipe | "headPump" => some .headPump | "powerPump" => some .powerPump
  | "prv" => some .prv | "psv" => some .psv | "fcv" => some .fcv | "tcv" => some .tcv
  | _ => none

def parseStatus : String → Option Status
  | "c" => some .closed | "o" => some .opened | "a" => some .active
  | _ => none

def stdLeaves : Leaves :=
  { f := .var 0, hs := .var 1, he := .var 2, k := .param 0, mkl := .param 1, setting := .param 2,
    elevS := .param 3, elevE := .param 4, tcvR := .param 5, power := .param 6 }

def genRows (which : String) : Option (List Expr) :=
  match which with
  | "C01DD" => some (RowsC01.DD.rows.map (·.expr))
  | "C01PDD" => some (RowsC01.PDD.rows.map (·.expr))
  | "C02D" => some (RowsC02.Default.rows.map (·.expr))
  | "C02P" => some (RowsC02.Piecewise.rows.map (·.expr))
  | _ => none

def handle (line : String) : String :=
  match line.trimAscii.toString.splitOn " " with
  | "nb" :: tol :: slack :: dem :: leak :: rest =>
    match parseRat tol, parseRat slack, parseRat dem, parseRat leak, takeCounted rest with
    | some tol, some slack, some dem, some leak, some (ins, rest2) =>
      match takeCounted rest2 with
      | some (outs, []) =>
        match ins.mapM parseRat, outs.mapM parseRat with
        | some ins, some outs =>
          (if nodeBalanceOk tol slack ins outs dem leak then "ok " else "fail ") ++ showRat (nodeBalanceResidual ins outs dem leak)
        | _, _ => "bad-op"
      | _ => "bad-op"
    | _, _, _, _, _ => "bad-op"
  | "dd" :: step :: interp :: pstart :: t :: dm :: entries =>
    match step.toInt?, pstart.toInt?, t.toInt?, parseRat dm, entries.mapM parseEntry with
    | some step, some pstart, some t, some dm, some es => showRat (expectedDemand es step (interp == "1") pstart t dm)
    | _, _, _, _, _ => "bad-op"
  | "mb" :: isVar :: leak :: dem :: rate :: rest =>
    match parseF dem, parseF rate, takeCounted rest with
    | some dem, some rate, some (ins, rest2) =>
      match takeCounted rest2 with
      | some (outs, []) =>
        match ins.mapM parseF, outs.mapM parseF with
        | some ins, some outs =>
          -- variables: 0 = demand (PDD), 1 = leak_rate, 2.. = inflows then outflows; parameter 0 = expected demand (DD)
          let inIx := (List.range ins.length).map (· + 2)
          let outIx := (List.range outs.length).map (· + 2 + ins.length)
          let env := envOf (dem :: rate :: (ins ++ outs)) [dem]
          let d : Expr := if isVar == "1" then .var 0 else .param 0
          showF (eval floatOps env (massBalanceRow d inIx outIx (if leak == "1" then some 1 else none)))
        | _, _ => "bad-op"
      | _ => "bad-op"
    | _, _, _ => "bad-op"
  | "row" :: approx :: kind :: status :: iso :: rest =>
    match parseKind kind, parseStatus status, (rest.take 12).mapM parseF, (rest.drop 12).mapM parseRat with
    | some kind, some status, some [tol, f, hs, he, rough, diam, len, kK, setting, elevS, elevE, power],
        some [pA, pB, pC, pa, pb, pc, pd, qbar, hbar] =>
      let O := floatOps
      -- the DOCUMENTED formulas and constants (`ref…`), not the generated ones: the oracle must not follow an edited constant
      let k := eval O (envOf [] [rough, diam, len]) refHwResistance
      let mkl := eval O (envOf [] [kK, diam]) refLossCoeff
      let tcvR := eval O (envOf [] [setting, diam]) refLossCoeff
      let spec : LinkSpec :=
        { kind := kind, status := status, isolated := iso == "1",
          approx := if approx == "p" then .piecewise else .default, leaves := stdLeaves,
          pump := { A := pA, B := pB, C := pC, a := pa, b := pb, c := pc, d := pd, qbar := qbar, hbar := hbar } }
      let env := envOf [f, hs, he] [k, mkl, setting, elevS, elevE, tcvR, power]
      let r := linkLawResidual refHW refPC refLit spec env
      (if linkLawOk tol refHW refPC refLit spec env then "ok " else "fail ") ++ showF r
    | _, _, _, _ => "bad-op"
  | "gen" :: which :: rest =>
    match genRows which, takeCounted rest with
    | some rows, some (vs, rest2) =>
      match takeCounted rest2 with
      | some (ps, []) =>
        match vs.mapM parseF, ps.mapM parseF with
        | some vs, some ps => showFs (rows.map (eval floatOps (envOf vs ps)))
        | _, _ => "bad-op"
      | _ => "bad-op"
    | _, _ => "bad-op"
  | ["pumpsmooth", a, b, c] =>
    match [a, b, c].mapM parseF with
    | some [a, b, c] =>
      let q1 := ratToFloat refPC.q1
      let q2 := ratToFloat refPC.q2
      let sl := ratToFloat refPC.slope
      let p := pumpPoly Float.pow a b c q1 q2 sl
      let l := pumpLine Float.pow a b c sl
      showFs [p.1, p.2.1, p.2.2.1, p.2.2.2, l.1, l.2]
    | _ => "bad-op"
  | ["closecv", hs, he, q] =>
    match [hs, he, q].mapM parseRat with
    | some [hs, he, q] =>
      showB (closeCV refHtol refQtol hs he q) ++ " " ++ showB (openCV refHtol refQtol hs he q)
    | _ => "bad-op"
  | ["closepump", a, hs, he, q] =>
    match [a, hs, he, q].mapM parseRat with
    | some [a, hs, he, q] =>
      showB (closeHeadPump refHtol refQtol a hs he q) ++ " " ++ showB (openHeadPump a hs he) ++ " " ++
        showB (closeHeadPumpAsCoded refHtol a hs he) ++ " " ++
        showB (closePowerPump refHtol RowsC02.powerHmax hs he) ++ " " ++
        showB (openPowerPump refHtol RowsC02.powerHmax hs he) ++ " " ++
        showB (closePowerPumpRepaired refHtol refQtol RowsC02.powerHmax hs he q) ++ " " ++
        showB (openPowerPumpRepaired refHtol RowsC02.powerHmax hs he)
    | _ => "bad-op"
  | "tracker" :: init :: ops =>
    -- values are natural numbers (status codes); ops: f<v> | r ; answer: changed flag after every op
    match init.toNat? with
    | some v0 =>
      let step (acc : Tracked Nat × List String) (o : String) : Tracked Nat × List String :=
        let op : TrackOp Nat := if o == "r" then .reset else .fire ((o.drop 1).toNat?.getD 0)
        let t := acc.1.step op
        (t, acc.2 ++ [showB t.changed])
      " ".intercalate (ops.foldl step (Tracked.start v0, [])).2
    | none => "bad-op"
  | ["norev", q] =>
    match parseRat q with
    | some q => if noReverseOk refQtol q then "ok" else "fail"
    | none => "bad-op"
  | _ => "bad-op"

partial def loop (h : IO.FS.Stream) : IO Unit := do
  let line ← h.getLine
  if line.isEmpty then return ()
  IO.println (handle line)
  loop h

def main : IO Unit := do loop (← IO.getStdin)
