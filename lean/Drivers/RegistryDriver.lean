/- Line-protocol driver for M3 Registry (property C14).  Names are interned integers, `-` = None.

  reset coded|repaired                      -> ready
  aj n pat [O] | ad n pat [O] | dd n idx | af n pat | rf n | al n 0|1 0|1 | rlk n | at n curve | ar n pat | ap n a b | apu n a b H|P curve pat | av n a b kind curve
  apat n | acur n type | asrc n node pat | actl n nodes links [style] | uctl n nodes links
  rn n wc force | rl n wc force | rpat n | rcur n | rsrc n | rctl n
  ss l n | se l n | ssp l pat | spc l c | shp n pat | svc n c | shc l c
                                            -> ok|refused|error
  snap                                      -> canonical snapshot of the model state incl. derived views
  inv                                       -> inv:true | inv:false <clauses>
  check <snapshot>                          -> same for an OBSERVED state, plus views:ok | views:bad
-/
import WntrModel.Model.Registry
open Wntr.Registry

def optS (o : Option Nat) : String := match o with | none => "-" | some n => toString n
def joinS (sep : String) (l : List String) : String := sep.intercalate l

instance : BEq NodeKind := ⟨fun a b => decide (a = b)⟩
/-- the demand entries of a junction: pattern (`-` = none), `*` marks the fire-flow entry; `.`-separated, `~` when empty -/
def demS (l : List (Option Nat × Bool)) : String :=
  if l.isEmpty then "~" else ".".intercalate (l.map fun (p, f) => (match p with | none => "-" | some n => toString n) ++ (if f then "*" else ""))
def demP (t : String) : Option (List (Option Nat × Bool)) :=
  if t == "~" then some [] else (t.splitOn ".").mapM fun e =>
    let f := e.endsWith "*"
    let b := if f then (e.dropEnd 1).toString else e
    if b == "-" then some (none, f) else b.toNat?.map (fun n => (some n, f))
def nkS : NodeKind → String | .junction => "j" | .tank => "t" | .reservoir => "r"
def lkS : LinkKind → String
  | .pipe => "pipe" | .headPump => "hpump" | .powerPump => "ppump" | .prv => "prv" | .psv => "psv"
  | .pbv => "pbv" | .tcv => "tcv" | .fcv => "fcv" | .gpv => "gpv"
def ukS : UKind → String
  | .pipe => "Pipe" | .pump => "Pump" | .valve => "Valve" | .source => "Source" | .junction => "Junction"
  | .reservoir => "Reservoir" | .tank => "Tank"
def tsS : TSet → String
  | .junctions => "junctions" | .tanks => "tanks" | .reservoirs => "reservoirs" | .pipes => "pipes" | .pumps => "pumps"
  | .headPumps => "head_pumps" | .powerPumps => "power_pumps" | .prvs => "prvs" | .psvs => "psvs" | .pbvs => "pbvs"
  | .tcvs => "tcvs" | .fcvs => "fcvs" | .gpvs => "gpvs" | .valves => "valves" | .pumpCurves => "pump_curves"
  | .effCurves => "efficiency_curves" | .headlossCurves => "headloss_curves" | .volCurves => "volume_curves"

def nkP : String → Option NodeKind | "j" => some .junction | "t" => some .tank | "r" => some .reservoir | _ => none
def lkP : String → Option LinkKind
  | "pipe" => some .pipe | "hpump" => some .headPump | "ppump" => some .powerPump | "prv" => some .prv
  | "psv" => some .psv | "pbv" => some .pbv | "tcv" => some .tcv | "fcv" => some .fcv | "gpv" => some .gpv | _ => none
def ukP : String → Option UKind
  | "Pipe" => some .pipe | "Pump" => some .pump | "Valve" => some .valve | "Source" => some .source
  | "Junction" => some .junction | "Reservoir" => some .reservoir | "Tank" => some .tank | _ => none
def ctP : String → Option (Option CurveType)
  | "HEAD" => some (some .head) | "HEADLOSS" => some (some .headloss) | "VOLUME" => some (some .volume)
  | "EFFICIENCY" => some (some .efficiency) | "-" => some none | _ => none

def namesS (l : List Nat) : String := joinS "+" (l.map toString)
def onamesS (o : Option (List Nat)) : String := match o with | none => "!" | some l => namesS l

def usageS (m : List (Name × List User)) : String :=
  joinS "," (m.map fun (k, us) => s!"{k}={joinS "+" (us.map fun (u, ty) => s!"{u}.{ukS ty}")}")

def primaryS (s : Reg) : String :=
  let n := joinS "," (s.nodes.map fun (k, i) => s!"{k}:{nkS i.kind}:{if i.kind == .junction then demS i.demands else optS i.pat}:{optS i.curve}")
  let l := joinS "," (s.links.map fun (k, i) => s!"{k}:{lkS i.kind}:{i.start}:{i.end_}:{optS i.pat}:{optS i.curve}")
  let src := joinS "," (s.sources.map fun (k, i) => s!"{k}:{i.node}:{optS i.pat}")
  let t := joinS "," (allTSets.map fun t => s!"{tsS t}={namesS (s.typed t)}")
  s!"N {n}|L {l}|P {namesS s.patterns}|C {namesS s.curves}|S {src}|K {namesS (AL.keys s.controls)}|UN {usageS (s.usage .node)}|UP {usageS (s.usage .pattern)}|UC {usageS (s.usage .curve)}|UO {usageS (s.usage .patternObj)}|T {t}"

def viewsS (w : Views) : String :=
  let i := joinS "," (w.iters.map fun (t, r) => s!"{tsS t}={onamesS r}")
  let f := joinS "," (w.linksFor.map fun (n, a, b, c) => s!"{n}=A:{onamesS a};I:{onamesS b};O:{onamesS c}")
  let e := joinS "+" (w.gedges.map fun (a, b, l) => s!"{a}>{b}>{l}")
  s!"I {i}|F {f}|G {namesS w.gnodes};{e}"

def snapS (s : Reg) : String :=
  s!"{primaryS s}|{viewsS (views s)}|O {namesS (orphaned s .node)};{namesS (orphaned s .pattern)};{namesS (orphaned s .curve)};{namesS (orphaned s .patternObj)}|X {namesS (unused s .node)};{namesS (unused s .pattern)};{namesS (unused s .curve)}"

/-! parsing -/
def optP (t : String) : Option (Option Nat) := if t == "-" then some none else t.toNat?.map some
def listP (sep : String) (t : String) : List String := if t.isEmpty then [] else t.splitOn sep
def natsP (sep : String) (t : String) : Option (List Nat) := (listP sep t).mapM String.toNat?
def onatsP (t : String) : Option (Option (List Nat)) := if t == "!" then some none else (natsP "+" t).map some
def boolP (t : String) : Option Bool := if t == "1" then some true else if t == "0" then some false else none

def parseOp (ts : List String) : Option Op :=
  match ts with
  | ["aj", n, p] => do pure (.addJunction (← n.toNat?) (← optP p) false)
  | ["aj", n, p, "O"] => do pure (.addJunction (← n.toNat?) (← optP p) true)
  | ["ad", n, p] => do pure (.addDemand (← n.toNat?) (← optP p) false)
  | ["ad", n, p, "O"] => do pure (.addDemand (← n.toNat?) (← optP p) true)
  | ["dd", n, i] => do pure (.delDemand (← n.toNat?) (← i.toNat?))
  | ["af", n, p] => do pure (.addFire (← n.toNat?) (← p.toNat?))
  | ["rf", n] => do pure (.removeFire (← n.toNat?))
  | ["al", n, a, b] => do pure (.addLeak (← n.toNat?) (← boolP a) (← boolP b))
  | ["rlk", n] => do pure (.removeLeak (← n.toNat?))
  | ["rens", a, b] => do pure (.renameSource (← a.toNat?) (← b.toNat?))
  | ["cd", n] => do pure (.clearDemands (← n.toNat?))
  | ["idd", n, i, p] => do pure (.insertDemand (← n.toNat?) (← i.toNat?) (← optP p))
  | ["asd", n, p] => do pure (.assignDemand (← n.toNat?) (← p.toNat?))
  | ["ssn", n, nd] => do pure (.setSourceNode (← n.toNat?) (← nd.toNat?))
  | ["ssp", l, p, "O"] => do pure (.setSpeedPattern (← l.toNat?) (← optP p))     -- the Pattern object instead of its name
  | ["shp", n, p, "O"] => do pure (.setHeadPattern (← n.toNat?) (← optP p))
  | ["at", n, c] => do pure (.addTank (← n.toNat?) (← optP c))
  | ["ar", n, p] => do pure (.addReservoir (← n.toNat?) (← optP p))
  | ["ap", n, a, b] => do pure (.addPipe (← n.toNat?) (← a.toNat?) (← b.toNat?))
  | ["apu", n, a, b, "H", c, p] => do pure (.addPump (← n.toNat?) (← a.toNat?) (← b.toNat?) (.head (← c.toNat?)) (← optP p))
  | ["apu", n, a, b, "P", _, p] => do pure (.addPump (← n.toNat?) (← a.toNat?) (← b.toNat?) .power (← optP p))
  | ["av", n, a, b, k, c] => do pure (.addValve (← n.toNat?) (← a.toNat?) (← b.toNat?) (← lkP k) (← optP c))
  | ["apat", n] => do pure (.addPattern (← n.toNat?))
  | ["apat", n, _] => do pure (.addPattern (← n.toNat?))          -- 3rd token: number of multipliers (not modelled)
  | ["acur", n, t, _] => do pure (.addCurve (← n.toNat?) (← ctP t))   -- 4th token: number of points (not modelled)
  | ["acur", n, t] => do pure (.addCurve (← n.toNat?) (← ctP t))
  | ["asrc", n, nd, p, "O"] => do pure (.addSource (← n.toNat?) (← nd.toNat?) (← optP p))
  | ["asrc", n, nd, p] => do pure (.addSource (← n.toNat?) (← nd.toNat?) (← optP p))
  | ["actl", n, ns, ls] => do
      pure (.addControl (← n.toNat?) (← natsP "," (if ns == "-" then "" else ns)) (← natsP "," (if ls == "-" then "" else ls)))
  | ["actl", n, ns, ls, _] => do   -- 5th token: how the implementation side builds the condition (shared / own objects)
      pure (.addControl (← n.toNat?) (← natsP "," (if ns == "-" then "" else ns)) (← natsP "," (if ls == "-" then "" else ls)))
  | ["uctl", n, ns, ls] => do
      pure (.updateControl (← n.toNat?) (← natsP "," (if ns == "-" then "" else ns)) (← natsP "," (if ls == "-" then "" else ls)))
  | ["rn", n, w, f] => do pure (.removeNode (← n.toNat?) (← boolP w) (← boolP f))
  | ["rl", n, w, f] => do pure (.removeLink (← n.toNat?) (← boolP w) (← boolP f))
  | ["rpat", n] => do pure (.removePattern (← n.toNat?))
  | ["rcur", n] => do pure (.removeCurve (← n.toNat?))
  | ["rsrc", n] => do pure (.removeSource (← n.toNat?))
  | ["rctl", n] => do pure (.removeControl (← n.toNat?))
  | ["ss", l, n] => do pure (.setStart (← l.toNat?) (← n.toNat?))
  | ["se", l, n] => do pure (.setEnd (← l.toNat?) (← n.toNat?))
  | ["ssp", l, p] => do pure (.setSpeedPattern (← l.toNat?) (← optP p))
  | ["spc", l, c] => do pure (.setPumpCurve (← l.toNat?) (← c.toNat?))
  | ["shp", n, p] => do pure (.setHeadPattern (← n.toNat?) (← optP p))
  | ["svc", n, c] => do pure (.setVolCurve (← n.toNat?) (← optP c))
  | ["shc", l, c] => do pure (.setHeadlossCurve (← l.toNat?) (← c.toNat?))
  | _ => none

def tsP (t : String) : Option TSet := allTSets.find? (fun x => tsS x == t)

def usageP (t : String) : Option (List (Name × List User)) :=
  (listP "," t).mapM fun rec =>
    match rec.splitOn "=" with
    | [k, us] => do
      let k ← k.toNat?
      let us ← (listP "+" us).mapM fun u =>
        match u.splitOn "." with
        | [n, ty] => do pure ((← n.toNat?), (← ukP ty))
        | _ => none
      pure (k, us)
    | _ => none

def section? (secs : List String) (tag : String) : Option String :=
  (secs.find? (fun s => s.startsWith (tag ++ " "))).map (fun s => (s.drop (tag.length + 1)).toString)

/-- parse a snapshot (primary stores + bookkeeping + observed derived views) -/
def parseSnap (line : String) : Option (Reg × Views) := do
  let secs := line.splitOn "|"
  let nodes ← (listP "," (← section? secs "N")).mapM fun r =>
    match r.splitOn ":" with
    | [k, kd, p, c] => do
      let kind ← nkP kd
      if kind == .junction then pure ((← k.toNat?), (⟨kind, none, ← optP c, ← demP p, 0⟩ : NodeInfo))
      else pure ((← k.toNat?), (⟨kind, ← optP p, ← optP c, [], 0⟩ : NodeInfo))
    | _ => none
  let links ← (listP "," (← section? secs "L")).mapM fun r =>
    match r.splitOn ":" with
    | [k, kd, a, b, p, c] => do pure ((← k.toNat?), (⟨← lkP kd, ← a.toNat?, ← b.toNat?, ← optP p, ← optP c, 0⟩ : LinkInfo))
    | _ => none
  let pats ← natsP "+" (← section? secs "P")
  let curves ← natsP "+" (← section? secs "C")
  let sources ← (listP "," (← section? secs "S")).mapM fun r =>
    match r.splitOn ":" with
    | [k, nd, p] => do pure ((← k.toNat?), (⟨← nd.toNat?, ← optP p⟩ : SourceInfo))
    | _ => none
  let ctl ← natsP "+" (← section? secs "K")
  let un ← usageP (← section? secs "UN")
  let up ← usageP (← section? secs "UP")
  let uc ← usageP (← section? secs "UC")
  let uo ← usageP (← section? secs "UO")
  let typed ← (listP "," (← section? secs "T")).mapM fun r =>
    match r.splitOn "=" with
    | [t, ns] => do pure ((← tsP t), (← natsP "+" ns))
    | _ => none
  let iters ← (listP "," (← section? secs "I")).mapM fun r =>
    match r.splitOn "=" with
    | [t, ns] => do pure ((← tsP t), (← onatsP ns))
    | _ => none
  let lf ← (listP "," (← section? secs "F")).mapM fun r =>
    match r.splitOn "=" with
    | [n, rest] =>
      match rest.splitOn ";" with
      | [a, b, c] => do
        pure ((← n.toNat?), (← onatsP ((a.drop 2).toString)), (← onatsP ((b.drop 2).toString)), (← onatsP ((c.drop 2).toString)))
      | _ => none
    | _ => none
  let g ← section? secs "G"
  let (gn, ge) ← match g.splitOn ";" with
    | [gn, ge] => do
      let gn ← natsP "+" gn
      let ge ← (listP "+" ge).mapM fun e =>
        match e.splitOn ">" with
        | [a, b, l] => do pure ((← a.toNat?), (← b.toNat?), (← l.toNat?))
        | _ => none
      pure (gn, ge)
    | _ => none
  let s : Reg :=
    { nodes := nodes, links := links, patterns := pats, curves := curves, sources := sources,
      controls := ctl.map (fun k => (k, [])),
      usage := fun r => match r with | .node => un | .pattern => up | .curve => uc | .patternObj => uo,
      typed := fun t => ((typed.find? (fun p => p.1 == t)).map (·.2)).getD [],
      nextUid := 0 }
  pure (s, { iters := iters, linksFor := lf, gnodes := gn, gedges := ge })

def invS (s : Reg) : String :=
  let bad := (clauseTable s).filter (fun p => !p.2)
  if bad.isEmpty then "inv:true" else "inv:false " ++ joinS "," (bad.map (·.1))

def outS : Out → String | .ok => "ok" | .refused => "refused" | .error => "error"

def handle (st : Variant × Reg) (line : String) : (Variant × Reg) × String :=
  let line := line.trimAscii.toString
  let ts := line.splitOn " "
  match ts with
  | ["reset", "coded"] => ((coded, init), "ready")
  | ["reset", "repaired"] => ((repaired, init), "ready")
  | ["reset", "round1"] => ((round1, init), "ready")
  | ["reset", "round3"] => ((round3, init), "ready")
  | ["reset", "round4"] => ((round4, init), "ready")
  | ["reset", "round5"] => ((round5, init), "ready")
  | ["reset", "round6"] => ((round6, init), "ready")
  | ["snap"] => (st, snapS st.2)
  | ["inv"] => (st, invS st.2)
  | "check" :: _ =>
    match parseSnap ((line.drop 6).toString) with
    | none => (st, "bad-snapshot")
    | some (s, w) => (st, invS s ++ (if viewsOk s w then " views:ok" else " views:bad"))
  | ["sdp", n, i, p] =>   -- raw: demand_timeseries_list[i].pattern_name = p (outside `Op`)
    match n.toNat?, i.toNat?, optP p with
    | some n, some i, some p => let (s', o) := setDemandPatternRaw st.2 n i p; ((st.1, s'), outS o)
    | _, _, _ => (st, "bad-op")
  | ["ssrcp", n, p] =>    -- raw: source.strength_timeseries.pattern_name = p
    match n.toNat?, optP p with
    | some n, some p => let (s', o) := setSourcePatternRaw st.2 n p; ((st.1, s'), outS o)
    | _, _ => (st, "bad-op")
  | _ =>
    match parseOp ts with
    | none => (st, "bad-op")
    | some op =>
      let (s', o) := step st.1 st.2 op
      ((st.1, s'), outS o)

partial def loop (h : IO.FS.Stream) (st : Variant × Reg) : IO Unit := do
  let line ← h.getLine
  if line.isEmpty then return ()
  let (st', ans) := handle st line
  IO.println ans
  loop h st'

def main : IO Unit := do loop (← IO.getStdin) (repaired, init)
