/- Line-protocol driver for M9 Segments.
   seg <n> | <a>-<b>,... | <link>-<node>,... | <demands p/q ...> | <lengths p/q ...>
     -> `ok NL=<node labels> LL=<link labels> SZ=<label>:<nodes>:<links>;... A=<row>:<num_surround>:<demand_increase>:<length_increase>;...`
        or `invalid` when a row of the layer does not name a link and one of its ends / a self-loop occurs.
        CP = the component id of every node from the concrete components function `compChecked` (proved to satisfy `CompOk`);
        `components-not-closed` if its final closure test fails (never observed; Lemmas/SegmentsComp.lean needs no such case)
-/
import WntrModel.Model.Segments
open Wntr.Segments

def parseRat (s : String) : Option Rat :=
  match s.splitOn "/" with
  | [a, b] => do
    let n ← a.toInt?
    let d ← b.toNat?
    if d == 0 then none else some ((n : Rat) / (d : Rat))
  | [a] => (fun n : Int => (n : Rat)) <$> a.toInt?
  | _ => none

def showRat (r : Rat) : String := s!"{r.num}/{r.den}"

def pairs (s : String) : List (Nat × Nat) :=
  (s.trimAscii.toString.splitOn ",").filterMap fun t =>
    match t.trimAscii.toString.splitOn "-" with
    | [a, b] => match a.toNat?, b.toNat? with
      | some a, some b => some (a, b)
      | _, _ => none
    | _ => none

def rats (s : String) : List Rat :=
  (s.trimAscii.toString.splitOn " ").filterMap fun t => if t.isEmpty then none else parseRat t

def commaN (l : List Nat) : String := ",".intercalate (l.map toString)

def handle (line : String) : String :=
  let line := line.trimAscii.toString
  if !line.startsWith "seg " then "bad-op" else
  match (line.drop 4).toString.splitOn "|" with
  | [n, links, layer, dem, len] =>
    match n.trimAscii.toString.toNat? with
    | none => "bad-op"
    | some n =>
      let inp : Inp := { n := n, links := pairs links, layer := pairs layer }
      if !inp.valid then "invalid" else
      match compChecked inp with
      | none => "components-not-closed"
      | some cl =>
      let comp := fun u => cl.getD u 0
      let nlab := (List.range inp.n).map (inp.nodeLabel comp)
      let llab := (List.range inp.nl).map (inp.linkLabel comp)
      let nf := fun u => nlab.getD u 0
      let lf := fun k => llab.getD k 0
      let labels := (nlab ++ llab).eraseDups
      let sz := ";".intercalate (labels.map fun s => s!"{s}:{nodeSize inp.n nf s}:{linkSize inp.nl lf s}")
      let d := rats dem
      let l := rats len
      let rows := inp.rows
      let attrs := ";".intercalate (rows.map fun r =>
        s!"{r.1}:{numSurround rows nf lf r.2}:{showRat (demandIncrease inp.n nf lf (fun u => d.getD u 0) r.2)}:" ++
        s!"{showRat (lengthIncrease inp.nl nf lf (fun k => l.getD k 0) r.2)}")
      s!"ok NL={commaN nlab} LL={commaN llab} SZ={sz} A={attrs} CP={commaN ((List.range inp.n).map comp)}"
  | _ => "bad-op"

partial def loop (h : IO.FS.Stream) : IO Unit := do
  let line ← h.getLine
  if line.isEmpty then return ()
  IO.println (handle line)
  loop h

def main : IO Unit := do loop (← IO.getStdin)
