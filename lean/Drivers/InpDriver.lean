/- Line-protocol driver for the control / rule text model (`Model/InpText.lean`).
   T <sec>                      -> `<h>:<m>:<s> <H>:<M>:<S> <AM|PM>`   (hmsOf; secToClock)
   P <h> <m> <s>                -> seconds by `_str_time_to_sec`
   Q <h> <m> <s> <AM|PM>        -> seconds by `_parse_value` (clock string of a rule)
   C <conj> <conj> ...          -> the condition tree `generate_control` builds from clauses `IF a0 / AND a1 / OR a2 ...`
                                   over the atoms 0,1,2,… as an s-expression, or `none`
   R <kw> <kw> ...              -> `<#if> <#then> <#else> <priority|->`: how `parse_rules_lines` sorts the lines of ONE rule
                                   (kw in if and or then else priority:<p>); AND/OR are atoms or actions by the block they are in
   F <k> <p/q>                  -> `<string> <p/q>`: the model of '{:.kf}'.format(x) (characters) and the value read back
   G <n> <p/q>                  -> `<p/q>`: the value read back from '{:.ng}'.format(x), `none` when the mantissa is not normalised
   K <tok> <tok> ...            -> the premise `generate_control` reads from one IF/AND/OR clause (after the keyword):
                                   `time <rel> <sec>` | `clock <rel> <sec>` | `value <node|link> <cls> <id> <attr> <rel> <v>` | none
                                   tokens: w:<word (lower case)>  h:<h>:<m>:<s>  c:<h>:<m>:<s>:<AM|PM>  n:<int>
   A <pipe|pump|valve> <tok>    -> the action `_read_control_line` builds from the third word: status <s> | speed <v> | setting <v> | none
   D <prefix tree: & | a>       -> `<conjs of the repaired INP writer (AND of OR-groups) over numbered atoms> ; <conjs in tree order (str(cond))>`
                                   e.g. `D | & a a a` -> `if:0 or:2 and:1 or:2 ; if:0 and:1 or:2`
   S<US>line<US>line...         -> the first loop of `InpFile.read` on a whole file (lines separated by the unit separator
                                   U+001F): `ok|err|end` then, per stored line in file order, <RS>section<US>line (RS = U+0002),
                                   then <RS>#top<US>number of comment lines before the first header
   M <w0> <w1|-> <h:H:M:S | m:H:M | d:p/q>  -> `<options.time attribute> <seconds>`: what `_read_times` does with the line
   U <h> <m> <s> <AM|PM>        -> seconds by `_clock_time_to_sec` (START CLOCKTIME), `none` when it raises
   anything else                -> bad -/
import WntrModel.Model.InpText
import WntrModel.Gen.SchemaInp
open Wntr.InpText

def parseRat (s : String) : Option Rat :=
  match s.splitOn "/" with
  | [a, b] => do
    let n ← a.toInt?
    let d ← b.toNat?
    if d == 0 then none else some ((n : Rat) / (d : Rat))
  | [a] => (fun n : Int => (n : Rat)) <$> a.toInt?
  | _ => none

def showRat (r : Rat) : String := s!"{r.num}/{r.den}"

def parseTok (t : String) : Option Tok :=
  match t.splitOn ":" with
  | ["w", w] => some (.word w)
  | "w" :: ws => some (.word (String.intercalate ":" ws))
  | ["h", h, m, s] => do some (.hms (← h.toInt?) (← m.toInt?) (← s.toInt?))
  | ["c", h, m, s, ap] => do some (.clock (← h.toInt?) (← m.toInt?) (← s.toInt?) (ap == "PM"))
  | ["n", v] => v.toInt?.map Tok.num
  | _ => none

def relName : Rel → String
  | .gt => "gt" | .ge => "ge" | .lt => "lt" | .le => "le" | .eq => "eq" | .ne => "ne"

def showAtom : RAtom → String
  | .sysTime r s => s!"time {relName r} {s}"
  | .sysClock r s => s!"clock {relName r} {s}"
  | .value isNode cls n a r v => s!"value {if isNode then "node" else "link"} {cls} {n} {a} {relName r} {v}"

/-- prefix notation: `&` / `|` binary, `a` the next atom number -/
def readTree : Nat → List String → Nat → Option (Cond Nat × List String × Nat)
  | 0, _, _ => none
  | fuel + 1, w :: ws, n =>
    if w == "a" then some (.atom n, ws, n + 1)
    else if w == "&" || w == "|" then
      match readTree fuel ws n with
      | some (l, ws1, n1) =>
        match readTree fuel ws1 n1 with
        | some (r, ws2, n2) => some (if w == "&" then .and l r else .or l r, ws2, n2)
        | none => none
      | none => none
    else none
  | _, [], _ => none

def showClauses (cls : List (Conj × Nat)) : String :=
  String.intercalate " " (cls.map fun cl => (match cl.1 with | .if_ => "if" | .and_ => "and" | .or_ => "or") ++ ":" ++ toString cl.2)

def showTree : Cond Nat → String
  | .atom a => toString a
  | .and l r => "(and " ++ showTree l ++ " " ++ showTree r ++ ")"
  | .or l r => "(or " ++ showTree l ++ " " ++ showTree r ++ ")"

def conjOf (w : String) : Option Conj :=
  if w == "if" then some .if_ else if w == "and" then some .and_ else if w == "or" then some .or_ else none

def number (cs : List Conj) : List (Conj × Nat) := (cs.zip (List.range cs.length))

def kwLine (w : String) : Option (Kw × Payload Nat Nat) :=
  if w == "if" then some (.if_, .atom 0) else if w == "or" then some (.or_, .atom 0)
  else if w == "then" then some (.then_, .act 0) else if w == "else" then some (.else_, .act 0)
  else if w.startsWith "priority:" then (w.drop 9).toInt?.map fun p => (Kw.priority, Payload.prio p)
  else none

/-- an AND line carries an atom in the IF block and an action in the THEN/ELSE blocks: the payload kind follows the block,
exactly as the text of the line is handed to `add_if` / `add_then` / `add_else` -/
def feed (st : PState Nat Nat) (w : String) : Option (PState Nat Nat) :=
  if w == "and" then
    some (match st.mode with
      | .inIf => stepR st (.and_, .atom 0)
      | _ => stepR st (.and_, .act 0))
  else (kwLine w).map (stepR st)

def us : String := String.singleton (Char.ofNat 31)
def rs : String := String.singleton (Char.ofNat 2)

def handleFile (body : String) : String :=
  let st := Wntr.InpRead.read Wntr.InpSchema.Gen.inpSections ((body.splitOn us).map String.toList)
  (if st.err then "err" else if st.done then "end" else "ok") ++
    String.join (st.lines.map fun p => rs ++ p.1 ++ us ++ String.ofList p.2) ++ rs ++ "#top" ++ us ++ toString st.top.length

def handle (line : String) : String :=
  let line := (line.splitOn "\n").headD ""
  if line.startsWith ("S" ++ us) then handleFile (line.drop 2).toString else
  match (line.splitOn " ").filter (· ≠ "") with
  | ["T", s] =>
    match s.toInt? with
    | some sec =>
      let (h, m, x) := hmsOf sec
      let (ch, cm, cs, pm) := secToClock sec
      s!"{h}:{m}:{x} {ch}:{cm}:{cs} {if pm then "PM" else "AM"}"
    | none => "bad"
  | ["P", h, m, s] =>
    match h.toInt?, m.toInt?, s.toInt? with
    | some h, some m, some s => toString (strTimeToSec h m s)
    | _, _, _ => "bad"
  | ["Q", h, m, s, ap] =>
    match h.toInt?, m.toInt?, s.toInt? with
    | some h, some m, some s => toString (parseClock h m s (ap == "PM"))
    | _, _, _ => "bad"
  | ["F", k, x] =>
    match k.toNat?, parseRat x with
    | some k, some x =>
      let d := Wntr.InpFormat.fixWrite k x
      s!"{d.render (decide (x < 0) && d.value == 0)} {showRat d.value}"
    | _, _ => "bad"
  | ["G", n, x] =>
    match n.toNat?, parseRat x with
    | some n, some x =>
      match Wntr.InpFormat.sigWrite n x with
      | some ms => showRat (Wntr.InpFormat.sigValue ms)
      | none => "none"
    | _, _ => "bad"
  | ["M", w0, w1, v] =>
    let tv : Option Wntr.InpTimes.TimeVal := match v.splitOn ":" with
      | ["h", h, m, x] => do some (.hms (← h.toInt?) (← m.toInt?) (← x.toInt?))
      | ["m", h, m] => do some (.hm (← h.toInt?) (← m.toInt?))
      | ["d", x] => (parseRat x).map .dec
      | _ => none
    match tv with
    | some tv => s!"{Wntr.InpTimes.timesField w0 (if w1 == "-" then "" else w1)} {Wntr.InpTimes.parseTimeVal tv}"
    | none => "bad"
  | ["U", h, m, x, ap] =>
    match h.toInt?, m.toInt?, x.toInt? with
    | some h, some m, some x => match clockTimeToSec h m x (ap == "PM") with
      | some t => toString t
      | none => "none"
    | _, _, _ => "bad"
  | "K" :: ws =>
    match ws.mapM parseTok with
    | some toks => match parseAtom toks with
      | some a => showAtom a
      | none => "none"
    | none => "bad"
  | ["A", k, t] =>
    let kind := if k == "pump" then some LinkKind.pump else if k == "valve" then some .valve else if k == "pipe" then some .pipe else none
    match kind, parseTok t with
    | some kind, some tok => match parseAct kind tok with
      | some (.status s) => s!"status {s}"
      | some (.speed v) => s!"speed {v}"
      | some (.setting v) => s!"setting {v}"
      | none => "none"
    | _, _ => "bad"
  | "D" :: ws =>
    match readTree 200 ws 0 with
    | some (t, [], _) => showClauses (flattenCnf t) ++ " ; " ++ showClauses (flatten t .if_)
    | _ => "bad"
  | "C" :: ws =>
    match ws.mapM conjOf with
    | some cs => match parse (number cs) with
      | some t => showTree t
      | none => "none"
    | none => "bad"
  | "R" :: ws =>
    match ws.foldlM feed (PState.init (α := Nat) (β := Nat)) with
    | some st => s!"{st.ifs.length} {st.thens.length} {st.elses.length} {st.priority}"
    | none => "bad"
  | _ => "bad"

partial def loop (h : IO.FS.Stream) : IO Unit := do
  let line ← h.getLine
  if line.isEmpty then return ()
  IO.println (handle line)
  loop h

def main : IO Unit := do loop (← IO.getStdin)
