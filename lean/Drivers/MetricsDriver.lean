/- Line-protocol driver for M2 Pattern + M10 Metrics.  One request per line, one answer per line.
   Rationals travel as `p/q`; a division by zero is answered `nan`.
   pat  <step> <interp> <wrap> <t> <m,m,…|->                          -> p/q
   dem  <step> <interp> <dm> <cat|-> <t> | <base> <cat|-> <pat> ; …   -> p/q        (pat = `-` | `<wrap>:<m,m,…>`)
   exp  <step> <interp> <pstart> <dm> <cat|-> <t> | ts ; …            -> p/q <simDemand p/q>
   avg  <step> <interp> <pstart> <dm> <cat|-> <len,len,…|-> | ts ; …  -> <period> <nsamples> <p/q|nan>
   gcd x y | lcml a,b,…                                               -> int
   nearest <x> <k,k,…>                                                -> idx
   todini <pstar> | d h p ; … | d h ; … | q hs he ; …                 -> p/q|nan
   mrij <pstar> <p> <z> | mris <pstar> | d p z ; …                    -> p/q|nan
   tankcap cyl <d> <maxl> <level> | tankcap curve <maxl> <level> x:y,…-> p/q|nan
   wsa d e | pop avg R | pump q hs he eff rstep price                 -> …
   popimp <lt|gt|le|ge|eq|ne> <arg1> <arg2> <pop>                     -> p/q
   netcost <default|T=k:v,…;P=…;V=…;U=…> | item ; …                   -> p/q   (default = the DOCUMENTED tables)
   ghg <default|k:v,…> | d l ; …                                      -> p/q
   pmax A B C eff                                                     -> float bits (decimal UInt64) -/
import WntrModel.Model.Pattern
import WntrModel.Model.Metrics
import WntrModel.Gen.Tables
open Wntr.Pattern Wntr.Metrics

def parseRat (s : String) : Option Rat :=
  match s.splitOn "/" with
  | [a, b] => do
    let n ← a.toInt?
    let d ← b.toNat?
    if d == 0 then none else some ((n : Rat) / (d : Rat))
  | [a] => (fun n : Int => (n : Rat)) <$> a.toInt?
  | _ => none

def showRat (r : Rat) : String := s!"{r.num}/{r.den}"
def showOpt : Option Rat → String
  | some r => showRat r
  | none => "nan"

def words (s : String) : List String := (s.splitOn " ").filter (· ≠ "")
def fields (s : String) (sep : String) : List String := (s.splitOn sep).map (fun x => x.trimAscii.toString)

def parseRats (s : String) : Option (List Rat) :=
  if s == "-" || s == "" then some [] else (s.splitOn ",").mapM parseRat

def parseCat (s : String) : Option String := if s == "-" then none else if s == "@e" then some "" else some s

def parsePat (s : String) : Option (Option Pat) :=
  if s == "-" then some none
  else match s.splitOn ":" with
    | [w, ms] => do
      let l ← parseRats ms
      some (some { mults := l, wrap := w == "1" })
    | _ => none

def parseTS (s : String) : Option TS :=
  match words s with
  | [b, c, p] => do
    let b ← parseRat b
    let p ← parsePat p
    some { base := b, pat := p, cat := parseCat c }
  | _ => none

def parseList {α} (f : String → Option α) (s : String) : Option (List α) :=
  ((fields s ";").filter (· ≠ "")).mapM f

def parsePairs (s : String) : Option (List (Rat × Rat)) :=
  if s == "-" || s == "" then some [] else
  (s.splitOn ",").mapM fun kv => match kv.splitOn ":" with
    | [k, v] => do some ((← parseRat k), (← parseRat v))
    | _ => none

def rats3 (s : String) : Option (Rat × Rat × Rat) :=
  match words s with
  | [a, b, c] => do some ((← parseRat a), (← parseRat b), (← parseRat c))
  | _ => none

def rats2 (s : String) : Option (Rat × Rat) :=
  match words s with
  | [a, b] => do some ((← parseRat a), (← parseRat b))
  | _ => none

/-- exact value of the double nearest to π (what `numpy.pi` is) -/
def piDouble : Rat := 884279719003555 / 281474976710656

def ratToFloat (r : Rat) : Float := Float.ofInt r.num / Float.ofNat r.den

def floatToRat (x : Float) : Rat :=
  let b : Nat := x.toBits.toNat
  let neg : Bool := b / 2 ^ 63 == 1
  let e : Nat := (b / 2 ^ 52) % 2048
  let m : Nat := b % 2 ^ 52
  let num : Nat := if e == 0 then m else (2 ^ 52 + m) * 2 ^ e
  let den : Nat := if e == 0 then 2 ^ 1074 else 2 ^ 1075
  let mag : Rat := (num : Rat) / (den : Rat)
  if neg then -mag else mag

def parseTables (s : String) : Option CostTables :=
  if s == "default" then some { tank := Gen.tankCostOracle, pipe := Gen.pipeCostOracle, prv := Gen.prvCostOracle, pump := Gen.pumpCostOracle }
  else do
    let parts := s.splitOn ";"
    let get (tag : String) : Option (List (Rat × Rat)) :=
      match parts.find? (fun p => p.startsWith (tag ++ "=")) with
      | some p => parsePairs ((p.drop 2).toString)
      | none => none
    some { tank := (← get "T"), pipe := (← get "P"), prv := (← get "V"), pump := (← get "U") }

def parseItem (s : String) : Option CostItem :=
  match words s with
  | ["tank", "cyl", d, lo, hi] => do some (.tank (.cyl (← parseRat d)) (← parseRat lo) (← parseRat hi))
  | ["tank", "curve", lo, hi, pts] => do some (.tank (.curve (← parsePairs pts)) (← parseRat lo) (← parseRat hi))
  | ["pipe", d, l] => do some (.pipe (← parseRat d) (← parseRat l))
  | ["prv", d] => do some (.prv (← parseRat d))
  | ["ppump", p, eff] => do some (.pump ((← parseRat p) / (← parseRat eff)))
  | ["hpump", a, b, c, eff] => do
    let a ← parseRat a; let b ← parseRat b; let c ← parseRat c; let eff ← parseRat eff
    if c == 1 then some (.pump (pmaxLinear a b eff))
    else some (.pump (floatToRat (pmaxFloat (ratToFloat a) (ratToFloat b) (ratToFloat c) (ratToFloat eff))))
  | _ => none

def orBad (o : Option String) : String := o.getD "bad-op"

def handle (line : String) : String :=
  let secs := fields line "|"
  let head := words (secs.getD 0 "")
  orBad <| match head with
  | ["pat", step, ip, w, t, ms] => do
    let l ← parseRats ms
    some (showRat (Pat.at { mults := l, wrap := w == "1" } (← step.toInt?) (ip == "1") (← t.toInt?)))
  | ["dem", step, ip, dm, cat, t] => do
    let l ← parseList parseTS (secs.getD 1 "")
    some (showRat (demandsAt l (← step.toInt?) (ip == "1") (parseCat cat) (← parseRat dm) (← t.toInt?)))
  | ["exp", step, ip, ps, dm, cat, t] => do
    let l ← parseList parseTS (secs.getD 1 "")
    let net : DemandNet := { step := (← step.toInt?), interp := ip == "1", patternStart := (← ps.toInt?), dm := (← parseRat dm), patLens := [] }
    let t ← t.toInt?
    some s!"{showRat (expectedDemand net (parseCat cat) l t)} {showRat (simDemand net l t)}"
  | ["avg", step, ip, ps, dm, cat, lens] => do
    let l ← parseList parseTS (secs.getD 1 "")
    let lens ← if lens == "-" then some [] else (lens.splitOn ",").mapM (·.toNat?)
    let net : DemandNet := { step := (← step.toInt?), interp := ip == "1", patternStart := (← ps.toInt?), dm := (← parseRat dm), patLens := lens }
    some s!"{period net} {nSamples net} {showOpt (avgExpectedDemand net (parseCat cat) l)}"
  | ["gcd", x, y] => do some s!"{pyGcd (← x.toInt?) (← y.toInt?)}"
  | ["lcml", l] => do
    match (← (l.splitOn ",").mapM (·.toInt?)) with
    | a :: rest => some s!"{lcml a rest}"
    | [] => none
  | ["nearest", x, ks] => do some s!"{nearest (← parseRats ks) (← parseRat x)}"
  | ["todini", pstar] => do
    let js ← parseList rats3 (secs.getD 1 "")
    let rs ← parseList rats2 (secs.getD 2 "")
    let ps ← parseList rats3 (secs.getD 3 "")
    some (showOpt (todini (← parseRat pstar) (js.map fun (d, h, p) => ⟨d, h, p⟩) (rs.map fun (d, h) => ⟨d, h⟩)
      (ps.map fun (q, hs, he) => ⟨q, hs, he⟩)))
  | ["mrij", pstar, p, z] => do some (showOpt (mriJunction (← parseRat pstar) (← parseRat p) (← parseRat z)))
  | ["mris", pstar] => do some (showOpt (mriSystem (← parseRat pstar) (← parseList rats3 (secs.getD 1 ""))))
  | ["tankcap", "cyl", d, maxl, lvl] => do
    some (showOpt (tankCapacity piDouble (.cyl (← parseRat d)) (← parseRat maxl) (← parseRat lvl)))
  | ["tankcap", "curve", maxl, lvl, pts] => do
    some (showOpt (tankCapacity piDouble (.curve (← parsePairs pts)) (← parseRat maxl) (← parseRat lvl)))
  | ["wsa", d, e] => do some (showOpt (wsa (← parseRat d) (← parseRat e)))
  | ["pop", a, r] => do
    match population (← parseRat a) (← parseRat r) with
    | some n => some s!"{n}"
    | none => some "nan"
  | ["popimp", op, a, b, p] => do
    let a ← parseRat a; let b ← parseRat b
    let m ← match op with
      | "lt" => some (decide (a < b)) | "gt" => some (decide (a > b)) | "le" => some (decide (a ≤ b))
      | "ge" => some (decide (a ≥ b)) | "eq" => some (decide (a = b)) | "ne" => some (decide (a ≠ b)) | _ => none
    some (showRat (populationImpacted m (← parseRat p)))
  | ["pump", q, hs, he, eff, rstep, price] => do
    match pumpPower (← parseRat q) (← parseRat hs) (← parseRat he) (← parseRat eff) with
    | some p =>
      let e := pumpEnergy p (← parseRat rstep)
      some s!"{showRat p} {showRat e} {showRat (pumpCost e (← parseRat price))}"
    | none => some "nan nan nan"
  | ["netcost", tabs] => do
    let t ← parseTables tabs
    let items ← parseList parseItem (secs.getD 1 "")
    some (showRat (annualNetworkCost piDouble t items))
  | ["ghg", tab] => do
    let t ← if tab == "default" then some Gen.pipeGhgOracle else parsePairs tab
    some (showRat (annualGhg t (← parseList rats2 (secs.getD 1 ""))))
  | ["pmax", a, b, c, eff] => do
    let f := pmaxFloat (ratToFloat (← parseRat a)) (ratToFloat (← parseRat b)) (ratToFloat (← parseRat c)) (ratToFloat (← parseRat eff))
    some s!"{f.toBits.toNat}"
  | _ => none

partial def loop (h : IO.FS.Stream) : IO Unit := do
  let line ← h.getLine
  if line.isEmpty then return ()
  IO.println (handle (line.trimAscii.toString))
  loop h

def main : IO Unit := do loop (← IO.getStdin)
