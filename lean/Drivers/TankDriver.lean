/- Line-protocol driver for M7 `Tank` + M5b `Controls` (properties C05, C06).  Rationals travel as p/q.
   pi <p/q>
   mode clamp|extrap                                                     -> ok   (curve lookup of the tanks defined afterwards)
   tank <id> <elev> <min> <max> <diam> <n> {<level> <volume>}*n          n = 0: cylindrical           -> ok
   upd <tank> <prevHead> <head> <demand> <dt>                            -> <newHead>
   vol <tank> <level>                                                    -> <volume>
   lvl <tank> <attr> <rel> <thr> <head> <demand|none> <last>             -> <T|F> <back> <last'> <raised 0|1>
   val <rel> <cur> <thr>                                                 -> T|F
   stat <kind> <user> <internal>                                         -> <status>        (the `status` property)
   tctl <tank> <htol> <n> {<id> <kind> <cv> <startIsTank> <other>}*n     -> link,value,rel,thr,relOther|-,other|-,prio,pre ; ...
   links <n> {<kind> <user> <internal> <setting> <speed>}*n              -> ok      (current link state)
   comp <idBase> <n> {<id> <prio> <link> <kind> <status|setting|speed> <value>}*n
                                                                         -> P link,field,value,prio ; ... | V link,field,value,prio ; ...   (companions; `error` = ValueError)
   order <idBase> <n> {uctl as in comp}*n <nTank> <nCV> <nPumpInternal> <nValveInternal>
                                                                         -> ids of `simulatorControls` in registration order (user k, tank 10000+i, cv 20000+i,
                                                                            pump companion idBase+k, pump internal 30000+i, valve companion 2*idBase+k, valve internal 40000+i)
   track <n> {<link> <S|V|P>}*n                                            -> ok      (registered tracker targets)
   post <n> {<id> <prio> <link> <field> <value>}*n                       -> <changed 0|1> | user,internal,setting ; ...
   pre <first 0|1> <simTime> <n> {<id> <prio> <link> <field> <value> <back>}*n   -> <simTime'> <changed> | links...
   prer <first 0|1> <simTime> <ruleStep> <ruleIter> <n> {due as in pre}*n R <m> {<time> <k> {<prio> <link> <field> <value>}*k}*m
                                                                         -> <simTime'> <ruleIter'> <changed> | links...   (presolve WITH rules; R = the rules
                                                                            triggered at each rule instant the implementation evaluated, in check order)
   rows <tank> <n> {<time> <head> <demand>}*n                            -> ok
   rowsl <tank> <n> {<time> <head> <demand> <leak> <linkNet>}*n          -> ok
   integrall <tank> <rtol> <atol> <qtol>                                 -> ok | bad <i>     (identity with the leak explicit)
   integral <tank> <rtol> <atol>                                         -> ok | bad <i>
   limits <tank> <secs> <atol>                                           -> ok | bad <i>
   limitsmax <tank> <secs> <atol>                                        -> ok | bad <i>     (upper limit only)
   limflow <tank> <qtol>                                                 -> ok | bad <i>
   thr <tank> <attr> <rel> <thr> <secs> <atol> <i>                       -> ok | bad | na     (rows i, i+1)
   step <band> T <n> {<tank> <head>}*n L <n> {<status> <setting> <cvpump> <k> {<tank>}*k}*n
        C <n> {<id> <prio> <link> <S|V> <value> (L <tank> <attr> <rel> <thr> | V <rel> <thr> <cur>)}*n
                                                                         -> <id>:<ok|excused|conflict|bad|idle> ...
-/
import WntrModel.Model.Controls
open Wntr.Tank Wntr.Controls

def parseRat (s : String) : Option Rat :=
  match s.splitOn "/" with
  | [a, b] => do
    let n ← a.toInt?
    let d ← b.toNat?
    if d == 0 then none else some ((n : Rat) / (d : Rat))
  | [a] => (fun n : Int => (n : Rat)) <$> a.toInt?
  | _ => none

def showRat (r : Rat) : String := s!"{r.num}/{r.den}"

def parseRel : String → Option Rel
  | "gt" => some .gt | "ge" => some .ge | "lt" => some .lt | "le" => some .le | "eq" => some .eq | "ne" => some .ne
  | _ => none

def showRel : Rel → String
  | .gt => "gt" | .ge => "ge" | .lt => "lt" | .le => "le" | .eq => "eq" | .ne => "ne"

def parseAttr : String → Option Attr
  | "level" => some .level | "pressure" => some .pressure | "head" => some .head | _ => none

def parseKind : String → Option Kind
  | "pipe" => some .pipe | "pump" => some .pump | "valve" => some .valve | _ => none

def parseField : String → Option Field
  | "user" => some .user | "internal" => some .internal | "setting" => some .setting | "speed" => some .speed | _ => none

def parseWatch : String → Option Watch
  | "S" => some .status | "V" => some .setting | "P" => some .speed | _ => none

structure DState where
  pi : Rat := 355 / 113
  extrap : Bool := false
  tanks : List (Nat × Tank) := []
  links : Links := []
  tracked : List (Nat × Watch) := []
  rows : List (Nat × List Row) := []
  rowsl : List (Nat × List RowL) := []

def DState.tank? (d : DState) (id : Nat) : Option Tank := (d.tanks.find? (·.1 == id)).map (·.2)
def DState.rows? (d : DState) (id : Nat) : List Row := ((d.rows.find? (·.1 == id)).map (·.2)).getD []

def parsePts : Nat → List String → Option (List (Rat × Rat) × List String)
  | 0, rest => some ([], rest)
  | n + 1, a :: b :: rest => do
    let x ← parseRat a; let y ← parseRat b
    let (ps, r) ← parsePts n rest
    some ((x, y) :: ps, r)
  | _, _ => none

def parseTLinks : Nat → List String → Option (List TLink)
  | 0, [] => some []
  | n + 1, i :: k :: cv :: st :: o :: rest => do
    let i ← i.toNat?; let k ← parseKind k; let o ← o.toNat?
    let ls ← parseTLinks n rest
    some (⟨i, k, cv == "1", st == "1", o⟩ :: ls)
  | _, _ => none

def parseLinks : Nat → List String → Option Links
  | 0, [] => some []
  | n + 1, k :: u :: i :: s :: sp :: rest => do
    let k ← parseKind k; let u ← parseRat u; let i ← parseRat i; let s ← parseRat s; let sp ← parseRat sp
    let ls ← parseLinks n rest
    some (⟨k, u, i, s, sp⟩ :: ls)
  | _, _ => none

def parseTrack : Nat → List String → Option (List (Nat × Watch))
  | 0, [] => some []
  | n + 1, l :: w :: rest => do
    let l ← l.toNat?; let w ← parseWatch w
    let r ← parseTrack n rest
    some ((l, w) :: r)
  | _, _ => none

def parseCtls : Nat → List String → Option (List Ctl)
  | 0, [] => some []
  | n + 1, i :: p :: l :: f :: v :: rest => do
    let i ← i.toNat?; let p ← p.toNat?; let l ← l.toNat?; let f ← parseField f; let v ← parseRat v
    let r ← parseCtls n rest
    some (⟨i, p, ⟨l, f, v⟩⟩ :: r)
  | _, _ => none

def parseDues : Nat → List String → Option (List Due)
  | 0, [] => some []
  | n + 1, i :: p :: l :: f :: v :: b :: rest => do
    let i ← i.toNat?; let p ← p.toNat?; let l ← l.toNat?; let f ← parseField f; let v ← parseRat v; let b ← b.toInt?
    let r ← parseDues n rest
    some (⟨⟨i, p, ⟨l, f, v⟩⟩, b⟩ :: r)
  | _, _ => none

def takeDues : Nat → List String → Option (List Due × List String)
  | 0, rest => some ([], rest)
  | n + 1, i :: p :: l :: f :: v :: b :: rest => do
    let i ← i.toNat?; let p ← p.toNat?; let l ← l.toNat?; let f ← parseField f; let v ← parseRat v; let b ← b.toInt?
    let (r, rest') ← takeDues n rest
    some (⟨⟨i, p, ⟨l, f, v⟩⟩, b⟩ :: r, rest')
  | _, _ => none

def takeRuleActs : Nat → List String → Option (List Ctl × List String)
  | 0, rest => some ([], rest)
  | n + 1, p :: l :: f :: v :: rest => do
    let p ← p.toNat?; let l ← l.toNat?; let f ← parseField f; let v ← parseRat v
    let (r, rest') ← takeRuleActs n rest
    some (⟨0, p, ⟨l, f, v⟩⟩ :: r, rest')
  | _, _ => none

def takeRuleTable : Nat → List String → Option (List (Int × List Ctl))
  | 0, [] => some []
  | n + 1, t :: k :: rest => do
    let t ← t.toInt?; let k ← k.toNat?
    let (acts, rest') ← takeRuleActs k rest
    let r ← takeRuleTable n rest'
    some ((t, acts) :: r)
  | _, _ => none

def parseRows : Nat → List String → Option (List Row)
  | 0, [] => some []
  | n + 1, t :: h :: q :: rest => do
    let t ← parseRat t; let h ← parseRat h; let q ← parseRat q
    let r ← parseRows n rest
    some (⟨t, h, q⟩ :: r)
  | _, _ => none

def parseRowsL : Nat → List String → Option (List RowL)
  | 0, [] => some []
  | n + 1, t :: h :: q :: l :: ln :: rest => do
    let t ← parseRat t; let h ← parseRat h; let q ← parseRat q; let l ← parseRat l; let ln ← parseRat ln
    let r ← parseRowsL n rest
    some (⟨t, h, q, l, ln⟩ :: r)
  | _, _ => none

def showLinks (ls : Links) : String :=
  " ; ".intercalate (ls.map fun l => s!"{showRat l.user},{showRat l.internal},{showRat l.setting},{showRat l.speed}")

def takeUCtls : Nat → List String → Option (List UCtl × List String)
  | 0, rest => some ([], rest)
  | n + 1, i :: p :: l :: k :: a :: v :: rest => do
    let i ← i.toNat?; let p ← p.toNat?; let l ← l.toNat?; let k ← parseKind k; let v ← parseRat v
    let a ← (match a with | "status" => some UAttr.status | "setting" => some .setting | "speed" => some .baseSpeed | _ => none)
    let (r, rest') ← takeUCtls n rest
    some (⟨i, p, l, k, a, v⟩ :: r, rest')
  | _, _ => none

def dummyCtls (base n : Nat) : List Ctl := (List.range n).map fun i => ⟨base + i, 0, ⟨0, .internal, 0⟩⟩

def parseUCtls : Nat → List String → Option (List UCtl)
  | 0, [] => some []
  | n + 1, i :: p :: l :: k :: a :: v :: rest => do
    let i ← i.toNat?; let p ← p.toNat?; let l ← l.toNat?; let k ← parseKind k; let v ← parseRat v
    let a ← (match a with | "status" => some UAttr.status | "setting" => some .setting | "speed" => some .baseSpeed | _ => none)
    let r ← parseUCtls n rest
    some (⟨i, p, l, k, a, v⟩ :: r)
  | _, _ => none

def showField : Field → String
  | .user => "user" | .internal => "internal" | .setting => "setting" | .speed => "speed"

def showComp (cs : List Ctl) : String :=
  " ; ".intercalate (cs.map fun c => s!"{c.act.link},{showField c.act.field},{showRat c.act.value},{c.prio}")

def showTCtl (c : TCtl) : String :=
  let ro := match c.relOther with | some (r, o) => s!"{showRel r},{o}" | none => "-,-"
  s!"{c.link},{c.value},{showRel c.rel},{showRat c.thr},{ro},{c.prio},{if c.pre then 1 else 0}"

def showBad : Option Nat → String
  | none => "ok" | some i => s!"bad {i}"

def parseHeads : Nat → List String → Option (List (Nat × Rat) × List String)
  | 0, rest => some ([], rest)
  | n + 1, t :: h :: rest => do
    let t ← t.toNat?; let h ← parseRat h
    let (r, rest') ← parseHeads n rest
    some ((t, h) :: r, rest')
  | _, _ => none

def takeNats : Nat → List String → Option (List Nat × List String)
  | 0, rest => some ([], rest)
  | n + 1, a :: rest => do
    let a ← a.toNat?
    let (r, rest') ← takeNats n rest
    some (a :: r, rest')
  | _, _ => none

def parseRLinks (d : DState) (band : Rat) (heads : List (Nat × Rat)) : Nat → List String → Option (List RLink × List String)
  | 0, rest => some ([], rest)
  | n + 1, st :: se :: cp :: k :: rest => do
    let st ← parseRat st; let se ← parseRat se; let k ← k.toNat?
    let (adj, rest1) ← takeNats k rest
    let lim := adj.any fun tid =>
      match d.tank? tid, heads.find? (·.1 == tid) with
      | some t, some (_, h) => atLimit t h band
      | _, _ => false
    let (r, rest2) ← parseRLinks d band heads n rest1
    some (⟨st, se, cp == "1" || lim⟩ :: r, rest2)
  | _, _ => none

def parseRCtls (d : DState) (heads : List (Nat × Rat)) : Nat → List String → Option (List RCtl)
  | 0, [] => some []
  | n + 1, i :: p :: l :: w :: v :: "L" :: t :: a :: r :: th :: rest => do
    let i ← i.toNat?; let p ← p.toNat?; let l ← l.toNat?; let w ← parseWatch w; let v ← parseRat v
    let tid ← t.toNat?; let a ← parseAttr a; let r ← parseRel r; let th ← parseRat th
    let tk ← d.tank? tid
    let (_, h) ← heads.find? (·.1 == tid)
    let holds := (foldRel r).holds (attrValue tk h a) th
    let cs ← parseRCtls d heads n rest
    some (⟨i, p, holds, l, w, v⟩ :: cs)
  | n + 1, i :: p :: l :: w :: v :: "V" :: r :: th :: cur :: rest => do
    let i ← i.toNat?; let p ← p.toNat?; let l ← l.toNat?; let w ← parseWatch w; let v ← parseRat v
    let r ← parseRel r; let th ← parseRat th; let cur ← parseRat cur
    let cs ← parseRCtls d heads n rest
    some (⟨i, p, evalValue r cur th, l, w, v⟩ :: cs)
  | _, _ => none

def showVerdict : Verdict → String
  | .ok => "ok" | .excused => "excused" | .conflict => "conflict" | .bad => "bad"

def handle (d : DState) (line : String) : DState × String :=
  match line.trimAscii.toString.splitOn " " |>.filter (· ≠ "") with
  | ["pi", p] => match parseRat p with
    | some p => ({ d with pi := p }, "ok")
    | none => (d, "bad-op")
  | ["mode", m] => ({ d with extrap := m == "extrap" }, "ok")
  | "tank" :: id :: e :: mn :: mx :: dm :: n :: rest =>
    match id.toNat?, parseRat e, parseRat mn, parseRat mx, parseRat dm, n.toNat? with
    | some id, some e, some mn, some mx, some dm, some n =>
      match parsePts n rest with
      | some (pts, []) =>
        let t : Tank := ⟨e, mn, mx, dm, if n == 0 then none else some pts, d.extrap⟩
        ({ d with tanks := (id, t) :: d.tanks.filter (·.1 != id) }, "ok")
      | _ => (d, "bad-op")
    | _, _, _, _, _, _ => (d, "bad-op")
  | ["upd", t, ph, h, q, dt] =>
    match t.toNat? >>= d.tank?, parseRat ph, parseRat h, parseRat q, parseRat dt with
    | some t, some ph, some h, some q, some dt => (d, showRat (updateHead d.pi t ph h q dt))
    | _, _, _, _, _ => (d, "bad-op")
  | ["vol", t, l] =>
    match t.toNat? >>= d.tank?, parseRat l with
    | some t, some l => (d, showRat (getVolume d.pi t l))
    | _, _ => (d, "bad-op")
  | ["lvl", t, a, r, th, h, q, last] =>
    match t.toNat? >>= d.tank?, parseAttr a, parseRel r, parseRat th, parseRat h, parseRat last with
    | some t, some a, some r, some th, some h, some last =>
      let q? : Option (Option Rat) := if q == "none" then some none else (parseRat q).map some
      match q? with
      | some q =>
        let o := evalLevel d.pi t ⟨a, r, th⟩ h q last
        (d, s!"{if o.state then "T" else "F"} {o.back} {showRat o.last} {if o.raised then 1 else 0}")
      | none => (d, "bad-op")
    | _, _, _, _, _, _ => (d, "bad-op")
  | ["val", r, cur, th] =>
    match parseRel r, parseRat cur, parseRat th with
    | some r, some cur, some th => (d, if evalValue r cur th then "T" else "F")
    | _, _, _ => (d, "bad-op")
  | ["stat", k, u, i] =>
    match parseKind k, parseRat u, parseRat i with
    | some k, some u, some i => (d, showRat (status k u i))
    | _, _, _ => (d, "bad-op")
  | "tctl" :: t :: htol :: n :: rest =>
    match t.toNat? >>= d.tank?, parseRat htol, n.toNat? with
    | some t, some htol, some n =>
      match parseTLinks n rest with
      | some ls => (d, " ; ".intercalate ((tankControls t htol ls).map showTCtl))
      | none => (d, "bad-op")
    | _, _, _ => (d, "bad-op")
  | "order" :: b :: n :: rest =>
    match b.toNat?, n.toNat? >>= (takeUCtls · rest) with
    | some b, some (us, [nt, nc, np, nv]) =>
      match nt.toNat?, nc.toNat?, np.toNat?, nv.toNat? with
      | some nt, some nc, some np, some nv =>
        let all := simulatorControls b us (dummyCtls 10000 nt) (dummyCtls 20000 nc) (dummyCtls 30000 np) (dummyCtls 40000 nv)
        (d, " ".intercalate (all.map fun c => toString c.id))
      | _, _, _, _ => (d, "bad-op")
    | _, _ => (d, "bad-op")
  | "comp" :: b :: n :: rest =>
    match b.toNat?, n.toNat? >>= (parseUCtls · rest) with
    | some b, some us =>
      if us.any (fun u => (pumpCompanion b u).isNone || (valveCompanion b u).isNone) then (d, "error")
      else (d, s!"P {showComp (companionsOf (pumpCompanion b) us)} | V {showComp (companionsOf (valveCompanion b) us)}")
    | _, _ => (d, "bad-op")
  | "links" :: n :: rest =>
    match n.toNat? >>= (parseLinks · rest) with
    | some ls => ({ d with links := ls }, "ok")
    | none => (d, "bad-op")
  | "track" :: n :: rest =>
    match n.toNat? >>= (parseTrack · rest) with
    | some tr => ({ d with tracked := tr }, "ok")
    | none => (d, "bad-op")
  | "post" :: n :: rest =>
    match n.toNat? >>= (parseCtls · rest) with
    | some due =>
      let ls' := runPass due d.links
      ({ d with links := ls' }, s!"{if changed d.tracked d.links ls' then 1 else 0} | {showLinks ls'}")
    | none => (d, "bad-op")
  | "pre" :: first :: t :: n :: rest =>
    match t.toInt?, n.toNat? >>= (parseDues · rest) with
    | some t, some due =>
      let r := presolve d.tracked (first == "1") due d.links t
      ({ d with links := r.1 }, s!"{r.2} {if changed d.tracked d.links r.1 then 1 else 0} | {showLinks r.1}")
    | _, _ => (d, "bad-op")
  | "prer" :: first :: t :: rule :: ri :: n :: rest =>
    match t.toInt?, rule.toInt?, ri.toInt?, n.toNat? >>= (takeDues · rest) with
    | some t, some rule, some ri, some (due, "R" :: m :: rest') =>
      match m.toNat? >>= (takeRuleTable · rest') with
      | some table =>
        let ruleAt := fun (r : Int) (ls : Links) =>
          match table.find? (·.1 == r) with
          | some (_, acts) => runPass acts ls
          | none => ls
        let r := presolveRules d.tracked (first == "1") due d.links t rule ri ruleAt
        ({ d with links := r.1 }, s!"{r.2.1} {r.2.2} {if changed d.tracked d.links r.1 then 1 else 0} | {showLinks r.1}")
      | none => (d, "bad-op")
    | _, _, _, _ => (d, "bad-op")
  | "rows" :: t :: n :: rest =>
    match t.toNat?, n.toNat? >>= (parseRows · rest) with
    | some t, some rs => ({ d with rows := (t, rs) :: d.rows.filter (·.1 != t) }, "ok")
    | _, _ => (d, "bad-op")
  | "rowsl" :: t :: n :: rest =>
    match t.toNat?, n.toNat? >>= (parseRowsL · rest) with
    | some t, some rs => ({ d with rowsl := (t, rs) :: d.rowsl.filter (·.1 != t) }, "ok")
    | _, _ => (d, "bad-op")
  | ["integrall", t, rtol, atol, qtol] =>
    match t.toNat?, parseRat rtol, parseRat atol, parseRat qtol with
    | some tid, some rtol, some atol, some qtol =>
      match d.tank? tid with
      | some t => (d, showBad (tankIntegralLeakFirstBad d.pi t rtol atol qtol (((d.rowsl.find? (·.1 == tid)).map (·.2)).getD []) 0))
      | none => (d, "bad-op")
    | _, _, _, _ => (d, "bad-op")
  | ["integral", t, rtol, atol] =>
    match t.toNat?, parseRat rtol, parseRat atol with
    | some tid, some rtol, some atol =>
      match d.tank? tid with
      | some t => (d, showBad (tankIntegralFirstBad d.pi t rtol atol (d.rows? tid) 0))
      | none => (d, "bad-op")
    | _, _, _ => (d, "bad-op")
  | ["limits", t, secs, atol] =>
    match t.toNat?, parseRat secs, parseRat atol with
    | some tid, some secs, some atol =>
      match d.tank? tid with
      | some t => (d, showBad (tankLimitsFirstBad d.pi t secs atol (d.rows? tid) 0))
      | none => (d, "bad-op")
    | _, _, _ => (d, "bad-op")
  | ["limitsmax", t, secs, atol] =>
    match t.toNat?, parseRat secs, parseRat atol with
    | some tid, some secs, some atol =>
      match d.tank? tid with
      | some t => (d, showBad (tankLimitsMaxFirstBad d.pi t secs atol (d.rows? tid) 0))
      | none => (d, "bad-op")
    | _, _, _ => (d, "bad-op")
  | ["limflow", t, qtol] =>
    match t.toNat?, parseRat qtol with
    | some tid, some qtol =>
      match d.tank? tid with
      | some t => (d, showBad (limitFlowFirstBad t qtol (d.rows? tid) 0))
      | none => (d, "bad-op")
    | _, _ => (d, "bad-op")
  | ["thr", t, a, r, th, secs, atol, i] =>
    match t.toNat?, parseAttr a, parseRel r, parseRat th, parseRat secs, parseRat atol, i.toNat? with
    | some tid, some a, some r, some th, some secs, some atol, some i =>
      match d.tank? tid, (d.rows? tid)[i]?, (d.rows? tid)[i + 1]? with
      | some t, some ra, some rb =>
        let rel := foldRel r
        if !(rel.holds (attrValue t ra.head a) th) && rel.holds (attrValue t rb.head a) th then
          (d, if thresholdPairOk d.pi t ⟨a, r, th⟩ secs atol ra rb then "ok" else "bad")
        else (d, "na")
      | _, _, _ => (d, "bad-op")
    | _, _, _, _, _, _, _ => (d, "bad-op")
  | "step" :: band :: "T" :: n :: rest =>
    match parseRat band, n.toNat? with
    | some band, some n =>
      match parseHeads n rest with
      | some (heads, "L" :: m :: rest1) =>
        match m.toNat? >>= (parseRLinks d band heads · rest1) with
        | some (ls, "C" :: k :: rest2) =>
          match k.toNat? >>= (parseRCtls d heads · rest2) with
          | some cs =>
            let vs := consistentAt cs ls
            let idle := cs.filter (fun c => !c.holds) |>.map (·.id)
            (d, " ".intercalate (vs.map fun (i, v) => s!"{i}:{if idle.contains i then "idle" else showVerdict v}"))
          | none => (d, "bad-op")
        | _ => (d, "bad-op")
      | _ => (d, "bad-op")
    | _, _ => (d, "bad-op")
  | _ => (d, "bad-op")

partial def loop (h : IO.FS.Stream) (d : DState) : IO Unit := do
  let line ← h.getLine
  if line.isEmpty then return ()
  let (d', out) := handle d line
  IO.println out
  loop h d'

def main : IO Unit := do loop (← IO.getStdin) {}
