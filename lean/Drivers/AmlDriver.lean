/- Line-protocol driver for M6 (C15): expression layer (`expr`, `tree`, `fold`) and bookkeeping layer (`aml.*`).
   Floats travel as the decimal of their IEEE bit pattern; rationals as p/q; trees in prefix form. -/
import WntrModel.Model.Rpn
import WntrModel.Model.AmlModel
open Wntr.Aml

abbrev P := StateT (List String) (Except String)

def tok : P String := do
  match (← get) with
  | [] => throw "eof"
  | t :: ts => set ts; pure t

def peek : P (Option String) := do
  match (← get) with
  | [] => pure none
  | t :: _ => pure (some t)

def pNatS (s : String) : P Nat :=
  match s.toNat? with | some n => pure n | none => throw s!"nat? {s}"

def pNat : P Nat := do pNatS (← tok)

def pRatS (s : String) : P Rat :=
  match s.splitOn "/" with
  | [a, b] =>
    match a.toInt?, b.toNat? with
    | some n, some d => if d == 0 then throw "den0" else pure ((n : Rat) / (d : Rat))
    | _, _ => throw s!"rat? {s}"
  | [a] => match a.toInt? with | some n => pure (n : Rat) | none => throw s!"rat? {s}"
  | _ => throw s!"rat? {s}"

def pBits : P Float := do
  let n ← pNat
  pure (Float.ofBits n.toUInt64)

/-- `<tag><n>` then n items -/
def pCounted (tag : String) (item : P α) : P (List α) := do
  let t ← tok
  if !t.startsWith tag then throw s!"expected {tag} got {t}"
  let n ← pNatS (t.drop tag.length).toString
  let mut out := []
  for _ in [0:n] do
    out := (← item) :: out
  pure out.reverse

def binOf : String → Option Bin
  | "add" => some .add | "sub" => some .sub | "mul" => some .mul | "div" => some .div | "pow" => some .pow | _ => none

def unOf : String → Option Un
  | "neg" => some .neg | "abs" => some .abs | "sign" => some .sign | "exp" => some .exp | "log" => some .log
  | "sin" => some .sin | "cos" => some .cos | "tan" => some .tan | "asin" => some .asin | "acos" => some .acos
  | "atan" => some .atan | _ => none

def binName : Bin → String
  | .add => "add" | .sub => "sub" | .mul => "mul" | .div => "div" | .pow => "pow"
def unName : Un → String
  | .neg => "neg" | .abs => "abs" | .sign => "sign" | .exp => "exp" | .log => "log" | .sin => "sin" | .cos => "cos"
  | .tan => "tan" | .asin => "asin" | .acos => "acos" | .atan => "atan"

def pBound : P (Option Rat) := do
  let t ← tok
  if t == "n" then pure none else some <$> pRatS t

partial def pTree : P Expr := do
  let t ← tok
  let rest := (t.drop 1).toString
  match t.front with
  | 'v' => pure (.var (← pNatS rest))
  | 'p' => pure (.param (← pNatS rest))
  | 'c' => pure (.const (← pRatS rest))
  | 'B' => match binOf rest with
    | some op => do let a ← pTree; let b ← pTree; pure (.bin op a b)
    | none => throw s!"bin? {t}"
  | 'U' => match unOf rest with
    | some op => do let a ← pTree; pure (.un op a)
    | none => throw s!"un? {t}"
  | 'I' => do let c ← pTree; let a ← pTree; let b ← pTree; pure (.ifElse c a b)
  | 'Q' => do let b ← pTree; let lb ← pBound; let ub ← pBound; pure (.ineq b lb ub)
  | _ => throw s!"tree? {t}"

def showRat (r : Rat) : String := s!"{r.num}/{r.den}"

def showTree : Expr → String
  | .var i => s!"v{i}"
  | .param i => s!"p{i}"
  | .const q => s!"c{showRat q}"
  | .bin op a b => s!"B{binName op} {showTree a} {showTree b}"
  | .un op a => s!"U{unName op} {showTree a}"
  | .ifElse c t e => s!"I {showTree c} {showTree t} {showTree e}"
  | .ineq b lb ub =>
    let sb := fun (o : Option Rat) => match o with | none => "n" | some q => showRat q
    s!"Q {showTree b} {sb lb} {sb ub}"

def showSVal : SVal → String
  | .num q => s!"n{showRat q}"
  | .ex e => s!"e {showTree e}"

def pLeaf : P PLeaf := do
  let t ← tok
  let rest := (t.drop 1).toString
  match t.front with
  | 'v' => pure (.var (← pNatS rest))
  | 'p' => pure (.param (← pNatS rest))
  | 'f' =>
    match rest.splitOn ":" with
    | [i, v] => do
      let id ← pNatS i
      if v == "-" then pure (.flt id .negInf)
      else if v == "+" then pure (.flt id .posInf)
      else pure (.flt id (.fin (← pRatS v)))
    | _ => throw s!"leaf? {t}"
  | _ => throw s!"leaf? {t}"

def pOperand (leaves : Array PLeaf) : P Operand := do
  let t ← tok
  let n ← pNatS (t.drop 1).toString
  match t.front with
  | 'l' => match leaves[n]? with | some l => pure (.leaf l) | none => throw "leafref"
  | 'o' => pure (.op n)
  | _ => throw s!"operand? {t}"

def pLeafRef (leaves : Array PLeaf) : P PLeaf := do
  match (← pOperand leaves) with
  | .leaf l => pure l
  | _ => throw "bound must be a leaf"

def pNode (leaves : Array PLeaf) : P PyNode := do
  let id ← pNat
  let t ← tok
  let rest := (t.drop 1).toString
  match t.front with
  | 'B' => match binOf rest with
    | some op => do let a ← pOperand leaves; let b ← pOperand leaves; pure ⟨id, .bin op a b⟩
    | none => throw s!"bin? {t}"
  | 'U' => match unOf rest with
    | some op => do let a ← pOperand leaves; pure ⟨id, .un op a⟩
    | none => throw s!"un? {t}"
  | 'I' => do let c ← pOperand leaves; let a ← pOperand leaves; let b ← pOperand leaves; pure ⟨id, .ifElse c a b⟩
  | 'Q' => do let b ← pOperand leaves; let lb ← pLeafRef leaves; let ub ← pLeafRef leaves; pure ⟨id, .ineq b lb ub⟩
  | _ => throw s!"node? {t}"

def mkEnv (vs ps : List Float) : Env Float :=
  let va := vs.toArray; let pa := ps.toArray
  ⟨fun i => va.getD i 0, fun i => pa.getD i 0⟩

def fInf : InfVals Float := ⟨-(1.0 / 0.0), 1.0 / 0.0⟩

def bitsOf (x : Float) : String := toString x.toBits.toNat

def showOptF : Option Float → String
  | some x => bitsOf x
  | none => "none"

def showInts (l : List Int) : String := ",".intercalate (l.map toString)

def showOptInts : Option (List Int) → String
  | some l => showInts l
  | none => "none"


/-- tree-level check: number the leaves of the tree itself -/
def treeLeaves : Expr → List TLeaf → List TLeaf
  | .var i, acc => if acc.contains (.var i) then acc else acc ++ [.var i]
  | .param i, acc => if acc.contains (.param i) then acc else acc ++ [.param i]
  | .const q, acc => if acc.contains (.const q) then acc else acc ++ [.const q]
  | .bin _ a b, acc => treeLeaves b (treeLeaves a acc)
  | .un _ a, acc => treeLeaves a acc
  | .ifElse c t e, acc => treeLeaves e (treeLeaves t (treeLeaves c acc))
  | .ineq b lb ub, acc =>
    let acc := treeLeaves b acc
    let acc := if acc.contains (lbLeaf lb) then acc else acc ++ [lbLeaf lb]
    if acc.contains (ubLeaf ub) then acc else acc ++ [ubLeaf ub]

def evalTreeRpn (env : Env Float) (e : Expr) : Option Float :=
  let ls := treeLeaves e []
  let arr := ls.toArray
  let vals := fun k => match arr[k]? with | some l => leafVal floatOps fInf env l | none => 0
  evalRpn floatOps vals (toRpn (fun l => ls.idxOf l) e)

def cmdTree : P String := do
  let e ← pTree
  let vs ← pCounted "V" pBits
  let ps ← pCounted "P" pBits
  let js ← pCounted "J" pNat
  let env := mkEnv vs ps
  let ev := eval floatOps env e
  let ds := js.map fun v => s!"D{v}:{bitsOf (eval floatOps env (D v e))}"
  pure (";".intercalate ([s!"ev:{bitsOf ev}", s!"evrpn:{showOptF (evalTreeRpn env e)}"] ++ ds))

def cmdExpr : P String := do
  let leaves ← pCounted "L" pLeaf
  let la := leaves.toArray
  let nodes ← pCounted "N" (pNode la)
  let ndxs ← pCounted "X" pNat
  let vs ← pCounted "V" pBits
  let ps ← pCounted "P" pBits
  let js ← pCounted "J" pNat
  let env := mkEnv vs ps
  let ndxArr := ndxs.toArray
  let ndx := fun (l : PLeaf) => ndxArr.getD (leaves.idxOf l) 0
  -- leaf vector as the C++ constraint would hold it
  let maxN := ndxs.foldl max 0
  let valArr : Array Float := Id.run do
    let mut a := Array.replicate (maxN + 1) (0 : Float)
    for l in leaves, k in ndxs do
      a := a.set! k (pleafValF env l)
    pure a
  let vals := fun k => valArr.getD k 0
  let rpn := getRpn ndx nodes
  let rpnA := getRpnAliased ndx nodes
  let ev := pyEvaluate floatOps env nodes
  let evrpn := rpn.bind (evalRpn floatOps vals)
  let tree := denote nodes
  let sd := reverseSd nodes
  let sdc := reverseSdAsCoded nodes
  let per := js.map fun v =>
    let s := sd.bind (jacOf · v)
    let sc := sdc.bind (jacOf · v)
    let sv := s.map fun x => eval floatOps env x.toExpr
    let scv := sc.map fun x => eval floatOps env x.toExpr
    let dv := tree.map fun t => eval floatOps env (D v t)
    s!"d{v}:{match s with | some x => showSVal x | none => "none"};dv{v}:{showOptF sv};dc{v}:{showOptF scv};D{v}:{showOptF dv}"
  pure (";".intercalate ([s!"rpn:{showOptInts rpn}", s!"rpnA:{showOptInts rpnA}", s!"ev:{showOptF ev}",
    s!"evrpn:{showOptF evrpn}", s!"wf:{wellFormed nodes}",
    s!"tree:{match tree with | some t => showTree t | none => "none"}"] ++ per))
where
  pleafValF (env : Env Float) (l : PLeaf) : Float := leafVal floatOps fInf env l.toTLeaf

/-- terms of overload applications: n<rat> native number, F<rat> Float object, v/p leaves -/
partial def pFold : P (Option SVal) := do
  let t ← tok
  let rest := (t.drop 1).toString
  match t.front with
  | 'n' => pure (some (.num (← pRatS rest)))
  | 'F' => pure (some (.ex (.const (← pRatS rest))))
  | 'v' => pure (some (.ex (.var (← pNatS rest))))
  | 'p' => pure (some (.ex (.param (← pNatS rest))))
  | 'B' => match binOf rest with
    | some op => do
      let a ← pFold; let b ← pFold
      pure (do let x ← a; let y ← b; sBin op x y)
    | none => throw s!"bin? {t}"
  | 'U' => match unOf rest with
    | some op => do let a ← pFold; pure (a.map (sUn op))
    | none => throw s!"un? {t}"
  | 'I' => do
    let c ← pFold; let a ← pFold; let b ← pFold
    pure (do let x ← c; let y ← a; let z ← b; pure (sIfElse x y z))
  | 'Q' => do
    let b ← pFold; let lb ← pBound; let ub ← pBound
    pure (b.map fun x => sIneq x lb ub)
  | _ => throw s!"fold? {t}"

def cmdFold : P String := do
  match (← pFold) with
  | some s => pure (showSVal s)
  | none => pure "err"

/-! bookkeeping layer -/

def pBranch : P Branch := do
  let c ← pTree
  let f ← pTree
  let jac ← pCounted "JAC" (do let v ← pNat; let e ← pTree; pure (v, e))
  pure { cond := c, fn := f, jac := jac }

def pPair : P (Nat × Nat) := do
  let t ← tok
  match t.splitOn ":" with
  | [a, b] => do pure ((← pNatS a), (← pNatS b))
  | _ => throw s!"pair? {t}"

def showOut : Out → String
  | .ok => "ok" | .keyError => "keyError" | .structureError => "structureError"

def showKey : LeafKey → String
  | .var i => s!"v{i}" | .param i => s!"p{i}" | .flt i => s!"f{i}"

def showNats (l : List Nat) : String := ",".intercalate (l.map toString)

def cmdAml (cmd : String) (m : Model Float) : P (Model Float × String) := do
  match cmd with
  | "aml.reset" => pure ({}, "ok")
  | "aml.add" =>
    let id ← pNat
    let cond := (← pNat) == 1
    let addr ← pNat
    let va ← pCounted "VA" pPair
    let pa ← pCounted "PA" pPair
    let fs ← pCounted "F" pNat
    let brs ← pCounted "BR" pBranch
    let spec : ConSpec := { id := id, conditional := cond, vars := va.map (·.1), params := pa.map (·.1),
                            floats := fs, branches := brs }
    let (m', o) := m.register floatOps Model.incFloat spec addr (va.map (·.2)) (pa.map (·.2))
    pure (m', showOut o)
  | "aml.del" =>
    let id ← pNat
    let (m', o) := m.remove floatOps id
    pure (m', showOut o)
  | "aml.struct" =>
    let (m', o) := m.setStructure
    pure (m', showOut o)
  | "aml.setv" =>
    let i ← pNat; let x ← pBits
    pure (m.setVar i x, "ok")
  | "aml.setp" =>
    let i ← pNat; let x ← pBits
    pure (m.setParam i x, "ok")
  | "aml.loadx" =>
    let xs ← pCounted "X" pBits
    let (m', o) := m.loadX xs
    pure (m', showOut o)
  | "aml.check" =>
    -- con ids / var ids / param ids to report on
    let cids ← pCounted "C" pNat
    let vids ← pCounted "V" pNat
    let pids ← pCounted "P" pNat
    let fids ← pCounted "F" pNat
    let res := match m.ev.evaluate floatOps fInf with
      | .ok l => ",".intercalate (l.map bitsOf)
      | .error .structureNotSet => "structureNotSet"
      | .error .machine => "machine"
    let jac := match m.ev.evaluateCsr floatOps fInf with
      | .ok (v, c, r) => s!"{",".intercalate (v.map bitsOf)}|{showNats c}|{showNats r}"
      | .error .structureNotSet => "structureNotSet"
      | .error .machine => "machine"
    let showO := fun (o : Option Nat) => match o with | some n => toString n | none => "-"
    let cidx := ",".intercalate (cids.map fun c => showO (m.conIndex c))
    let vidx := ",".intercalate (vids.map fun v => showO (m.varIndexOf v))
    let rc := ",".intercalate ((vids.map LeafKey.var ++ pids.map LeafKey.param ++ fids.map LeafKey.flt).map
      fun k => toString (getCount m.refcounts k))
    let live := ",".intercalate ((vids.map fun v => if (m.varMap.lookup v).isSome then "1" else "0") ++
      (pids.map fun p => if (m.paramMap.lookup p).isSome then "1" else "0") ++
      (fids.map fun f => if m.floatMap.contains f then "1" else "0"))
    let vv := ",".intercalate (vids.map fun v => bitsOf (m.varValue floatOps v))
    let pv := ",".intercalate (pids.map fun p => bitsOf (m.paramValue floatOps p))
    let x := ",".intercalate ((m.ev.vars.map fun c => bitsOf c.value))
    pure (m, s!"res:{res};jac:{jac};cidx:{cidx};vidx:{vidx};rc:{rc};live:{live};vv:{vv};pv:{pv};x:{x};ncon:{m.conMap.length};nvar:{m.varMap.length};nnz:{m.ev.st.nnz}")
  | _ => throw s!"cmd? {cmd}"

def handle (m : Model Float) (line : String) : Model Float × String :=
  let toks := (line.trimAscii.toString.splitOn " ").filter (· != "")
  match toks with
  | [] => (m, "bad-op empty")
  | cmd :: rest =>
    if cmd.startsWith "aml." then
      match (cmdAml cmd m).run rest with
      | .ok ((m', s), _) => (m', s)
      | .error e => (m, s!"bad-op {e}")
    else
      let p : Option (P String) := match cmd with
        | "expr" => some cmdExpr | "tree" => some cmdTree | "fold" => some cmdFold | _ => none
      match p with
      | none => (m, "bad-op cmd")
      | some p => match p.run rest with
        | .ok (s, _) => (m, s)
        | .error e => (m, s!"bad-op {e}")

partial def loop (h : IO.FS.Stream) (m : Model Float) : IO Unit := do
  let line ← h.getLine
  if line.isEmpty then return ()
  let (m', out) := handle m line
  IO.println out
  loop h m'

def main : IO Unit := do loop (← IO.getStdin) {}
