/- Line-protocol driver for C03 (`IsSolution` rows in Float, EPANET-semantics instants).
   Floats travel as decimal UInt64 bit patterns, exact rationals as p/q.
   mb <demand> <nin> <in...> <nout> <out...>                 -> value of `LinkRows.massBalanceRow` (D − Σin + Σout)
   link <kind> <status> <approx> <f hs he k mkl setting elevS elevE tcvR power> <A B C a b c d qbar hbar : p/q>
                                                              -> value of `LinkRows.linkRow` for that link kind / status
        kind ∈ pipe headPump powerPump prv psv fcv tcv ; status ∈ closed open active ; approx ∈ default piecewise
   fire <dur> <startclock> <rulestep> <atTime|atClock|ruleGe> <value>   -> instants of `Engines.fireTimes`, space separated ("-" if none)
-/
import WntrModel.Model.LinkRows
import WntrModel.Model.Engines
import WntrModel.Gen.SchemaBin
open Wntr.Aml Wntr.LinkRows

def parseRat (s : String) : Option Rat :=
  match s.splitOn "/" with
  | [a, b] => do
    let n ← a.toInt?
    let d ← b.toNat?
    if d == 0 then none else some ((n : Rat) / (d : Rat))
  | [a] => (fun n : Int => (n : Rat)) <$> a.toInt?
  | _ => none

def parseF (s : String) : Option Float := (fun n => Float.ofBits (UInt64.ofNat n)) <$> s.toNat?
def showF (x : Float) : String := toString x.toBits.toNat

def envOf (vars params : List Float) : Env Float :=
  { var := fun i => vars.getD i 0.0, param := fun i => params.getD i 0.0 }

def parseKind : String → Option LinkKind
  | "pipe" => some .pipe | "headPump" => some .headPump | "powerPump" => some .powerPump
  | "prv" => some .prv | "psv" => some .psv | "fcv" => some .fcv | "tcv" => some .tcv | _ => none

def parseStatus : String → Option Status
  | "closed" => some .closed | "open" => some .opened | "active" => some .active | _ => none

def parseApprox : String → Option Approx
  | "default" => some .default | "piecewise" => some .piecewise | _ => none

/-- leaves: variables 0 f, 1 hs, 2 he ; parameters 0 k, 1 mkl, 2 setting, 3 elevS, 4 elevE, 5 tcvR, 6 power -/
def stdLeaves : Leaves :=
  { f := .var 0, hs := .var 1, he := .var 2, k := .param 0, mkl := .param 1, setting := .param 2,
    elevS := .param 3, elevE := .param 4, tcvR := .param 5, power := .param 6 }

def handle (line : String) : String :=
  match line.trimAscii.toString.splitOn " " with
  | "mb" :: dem :: nin :: rest =>
    match parseF dem, nin.toNat? with
    | some dem, some nin =>
      let ins := rest.take nin
      match rest.drop nin with
      | nout :: outs =>
        match ins.mapM parseF, outs.mapM parseF, nout.toNat? with
        | some ins, some outs, some nout =>
          if outs.length != nout then "bad-op" else
          let inIx := List.range ins.length
          let outIx := (List.range outs.length).map (· + ins.length)
          let env := envOf (ins ++ outs) [dem]
          showF (eval floatOps env (massBalanceRow (.param 0) inIx outIx none))
        | _, _, _ => "bad-op"
      | _ => "bad-op"
    | _, _ => "bad-op"
  | "link" :: kind :: status :: approx :: rest =>
    match parseKind kind, parseStatus status, parseApprox approx with
    | some kind, some status, some approx =>
      match (rest.take 10).mapM parseF, (rest.drop 10).mapM parseRat with
      | some [f, hs, he, k, mkl, setting, elevS, elevE, tcvR, power], some [A, B, C, a, b, c, d, qbar, hbar] =>
        let spec : LinkSpec :=
          { kind := kind, status := status, isolated := false, approx := approx, leaves := stdLeaves,
            pump := { A := A, B := B, C := C, a := a, b := b, c := c, d := d, qbar := qbar, hbar := hbar } }
        let env := envOf [f, hs, he] [k, mkl, setting, elevS, elevE, tcvR, power]
        showF (eval floatOps env (linkRow Wntr.Engines.Gen.hw Wntr.Engines.Gen.pc Wntr.Engines.Gen.lit spec))
      | _, _ => "bad-op"
    | _, _, _ => "bad-op"
  | ["fire", dur, sc, r, kind, v] =>
    match dur.toInt?, sc.toInt?, r.toInt?, v.toInt? with
    | some dur, some sc, some r, some v =>
      let it : Option Wntr.Engines.TimeItem :=
        match kind with
        | "atTime" => some (.atTime v) | "atClock" => some (.atClock v) | "ruleGe" => some (.ruleGe v) | _ => none
      match it with
      | some it =>
        let l := Wntr.Engines.fireTimes dur sc r it
        if l.isEmpty then "-" else " ".intercalate (l.map toString)
      | none => "bad-op"
    | _, _, _, _ => "bad-op"
  | _ => "bad-op"

partial def loop (h : IO.FS.Stream) : IO Unit := do
  let line ← h.getLine
  if line.isEmpty then return ()
  IO.println (handle line)
  loop h

def main : IO Unit := do loop (← IO.getStdin)
