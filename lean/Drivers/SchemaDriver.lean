/- Line-protocol driver for the `Schema` model:
   `<Class>\t<key>\x1f<json>\t<key>\x1f<json>…`  ->  the model's to_dict(from_dict(d)) in the same format
   (derived keys are printed as `<derived>`); `bad-class` when the class is not in the generated tables.
   `@ctl\t<net>\t<cond tokens>\t<action tokens>` -> what the CURRENT from_dict (Gen.simpleReader) makes of a simple control:
       `ok\t<condition text>\t<action text>` or `raises <Exception>`;  net = `N|L:<kind>:<name>` joined by \x1f,
       tokens = `w:<word>` / `u:<lower-case attribute>` / `n:<number>` joined by \x1f.
   `@app\t<m0>\t<d>` -> `ok|refused\t<names after the call>`; a model = six name spaces (curves;patterns;nodes;links;sources;controls)
       joined by \x02, names joined by \x1f. -/
import WntrModel.Model.Schema
import WntrModel.Model.SchemaSections
import WntrModel.Gen.SchemaDict
import WntrModel.Gen.SchemaSections
open Wntr.Schema

def sep : String := String.singleton (Char.ofNat 31)
def sep2 : String := String.singleton (Char.ofNat 2)

def parsePair (s : String) : Option (String × String) :=
  match s.splitOn sep with
  | k :: v :: rest => some (k, String.intercalate sep (v :: rest))
  | _ => none

def splitNonEmpty (s : String) (by_ : String) : List String := (s.splitOn by_).filter (· ≠ "")

def parseTok (s : String) : Ctl.Tok :=
  if s.startsWith "u:" then .up (s.drop 2).toString
  else if s.startsWith "n:" then .n (s.drop 2).toString
  else .w (s.drop 2).toString

def parseKind (s : String) : Option Ctl.Kind :=
  match s with
  | "junction" => some .junction | "tank" => some .tank | "reservoir" => some .reservoir
  | "pipe" => some .pipe | "pump" => some .pump | "valve" => some (.valve false) | "gpv" => some (.valve true)
  | _ => none

def parseNet (s : String) : Ctl.Net :=
  let es := (splitNonEmpty s sep).filterMap fun e =>
    match e.splitOn ":" with
    | reg :: kind :: nm => (parseKind kind).map fun k => (reg, String.intercalate ":" nm, k)
    | _ => none
  { node := fun n => (es.find? fun e => e.1 == "N" && e.2.1 == n).map (·.2.2),
    link := fun n => (es.find? fun e => e.1 == "L" && e.2.1 == n).map (·.2.2) }

def parseModel (s : String) : App.Model Unit Unit Unit Unit :=
  let secs := (s.splitOn sep2).map fun x => (splitNonEmpty x sep).map fun n => (n, ())
  { top := (), curves := secs.getD 0 [], patterns := secs.getD 1 [], nodes := secs.getD 2 [], links := secs.getD 3 [],
    sources := secs.getD 4 [], controls := secs.getD 5 [] }

def renderModel (m : App.Model Unit Unit Unit Unit) : String :=
  String.intercalate sep2 ([m.curves, m.patterns, m.nodes, m.links, m.sources, m.controls].map fun x => String.intercalate sep (App.names x))

def handle (line : String) : String :=
  let line := (line.splitOn "\n").headD ""
  match line.splitOn "\t" with
  | ["@ctl", net, cond, act] =>
    (Ctl.readSimple Gen.simpleReader (parseNet net) ((splitNonEmpty cond sep).map parseTok) ((splitNonEmpty act sep).map parseTok)).render
  | ["@app", m0, d] =>
    let r := App.append (parseModel m0) (parseModel d)
    (if r.2 then "ok" else "refused") ++ "\t" ++ renderModel r.1
  | cls :: kvs =>
    match Gen.tables.find? (fun t => t.cls == cls) with
    | none => "bad-class " ++ cls
    | some t =>
      let d := kvs.filterMap parsePair
      String.intercalate "\t" ((t.roundtripText d).map fun kv => kv.1 ++ sep ++ kv.2)
  | [] => "bad-line"

partial def loop (h : IO.FS.Stream) : IO Unit := do
  let line ← h.getLine
  if line.isEmpty then return ()
  IO.println (handle line)
  loop h

def main : IO Unit := do loop (← IO.getStdin)
