/- Line-protocol driver for the `Schema` model:
   `<Class>\t<key>\x1f<json>\t<key>\x1f<json>…`  ->  the model's to_dict(from_dict(d)) in the same format
   (derived keys are printed as `<derived>`); `bad-class` when the class is not in the generated tables. -/
import WntrModel.Model.Schema
import WntrModel.Gen.SchemaDict
open Wntr.Schema

def sep : String := String.singleton (Char.ofNat 31)

def parsePair (s : String) : Option (String × String) :=
  match s.splitOn sep with
  | k :: v :: rest => some (k, String.intercalate sep (v :: rest))
  | _ => none

def handle (line : String) : String :=
  let line := (line.splitOn "\n").headD ""
  match line.splitOn "\t" with
  | cls :: kvs =>
    match Gen.tables.find? (fun t => t.cls == cls) with
    | none => "bad-class " ++ cls
    | some t =>
      let d := kvs.filterMap parsePair
      String.intercalate "\t" ((t.roundtripText d).map fun kv => kv.1 ++ sep ++ kv.2)
  | [] => "bad-line"

partial def loop (h : IO.FS.Stream) : IO Unit := do
  let line ← h.getLine
  if line.isEmpty then return ()
  IO.println (handle line)
  loop h

def main : IO Unit := do loop (← IO.getStdin)
