/- Line-protocol driver for M8 Isolation.
   csr <sources> | <indicator> | <indptr> | <indices> | <data> | <nconn>            -> final indicator (comma separated)
   net <n> | <a> <b> <valve01> <user> <internal>, ... | <initOrder> | <sources> | <ops>
        ops: U<k>=<v> (user status action)  I<k>=<v> (internal status action)  u (update graph)  g (get isolated)  p (u then g)
        -> `init ...` segment then one segment per op, separated by " | "
-/
import WntrModel.Model.Isolation
import WntrModel.Model.IsolationStatic
open Wntr.Isolation

def nats (s : String) : List Nat :=
  (s.trimAscii.toString.splitOn " ").filterMap fun t => if t.isEmpty then none else t.toNat?

def ints (s : String) : List Int :=
  (s.trimAscii.toString.splitOn " ").filterMap fun t => if t.isEmpty then none else t.toInt?

def commaN (l : List Nat) : String := ",".intercalate (l.map toString)
def commaI (l : List Int) : String := ",".intercalate (l.map toString)
def bits (l : List Bool) : String := String.join (l.map fun b => if b then "1" else "0")

def parseOp (t : String) : Option Op :=
  if t == "u" then some .update
  else if t == "g" then some .isolated
  else if t == "p" then some .prepare
  else
    let body := (t.drop 1).toString
    match body.splitOn "=" with
    | [k, v] =>
      match k.toNat?, v.toNat? with
      | some k, some v =>
        if t.startsWith "U" then some (.act true k v)
        else if t.startsWith "I" then some (.act false k v) else none
      | _, _ => none
    | _ => none

def showOutcome : Outcome → String
  | .ok => "ok" | .runtimeError => "RuntimeError" | .indexError => "IndexError"

def showMulti (m : List ((Nat × Nat) × List Nat)) : String :=
  ";".intercalate (m.map fun e => s!"{e.1.1}-{e.1.2}:{commaN e.2}")

def showIso (s : Sim) : String :=
  s!"J={bits s.isoJ} L={bits s.isoL} PJ={commaN s.prevIsoJ} PL={commaN s.prevIsoL}"

def showAfter (s : Sim) : Op → String
  | .act .. => s!"C={commaN s.changed}"
  | .update => s!"D={commaI s.g.data} C={commaN s.changed}"
  | .isolated => showIso s
  | .prepare => s!"D={commaI s.g.data} C={commaN s.changed} {showIso s}"

def handleNet (parts : List String) : String :=
  match parts with
  | [n, links, order, sources, ops] =>
    match n.trimAscii.toString.toNat? with
    | none => "bad-op"
    | some n =>
      let ls := (links.splitOn ",").filterMap fun l =>
        match nats l with
        | [a, b, v, u, i] => some ((a, b), v == 1, u, i)
        | _ => none
      let net : Net := { n := n, links := ls.map (·.1), valve := ls.map (·.2.1),
                         initOrder := nats order, sources := nats sources }
      let (out, s0) := initGraph net (ls.map (·.2.2.1)) (ls.map (·.2.2.2))
      let hasLoop := net.links.any fun e => e.1 == e.2
      let ok := structOkB net.n net.links s0.g && (hasLoop || (decide s0.Static && net.initOrder.isPerm (List.range net.links.length)))
      let ndxs := ",".intercalate (s0.ndx.map fun p => s!"{p.1}-{p.2}")
      let head := s!"init {showOutcome out} ok={if ok then 1 else 0} P={commaN s0.g.indptr} X={commaN s0.g.indices} " ++
        s!"N={commaN s0.g.nconn} D={commaI s0.g.data} M={showMulti s0.multi} NDX={ndxs}"
      let opl := ((ops.trimAscii.toString.splitOn " ").filter (!·.isEmpty)).map parseOp
      if opl.any Option.isNone then "bad-op"
      else
        let (_, segs) := (opl.filterMap id).foldl (fun (acc : Sim × List String) op =>
          let s' := step acc.1 op
          (s', acc.2 ++ [showAfter s' op])) (s0, [head])
        " | ".intercalate segs
  | _ => "bad-op"

def handle (line : String) : String :=
  let line := line.trimAscii.toString
  if line.startsWith "csr " then
    match ((line.drop 4).toString.splitOn "|") with
    | [src, ind, indptr, indices, data, nconn] =>
      let g : Csr := { indptr := nats indptr, indices := nats indices, data := ints data, nconn := nats nconn }
      commaI (checkIsolated g (nats src) (ints ind))
    | _ => "bad-op"
  else if line.startsWith "net " then handleNet ((line.drop 4).toString.splitOn "|")
  else "bad-op"

partial def loop (h : IO.FS.Stream) : IO Unit := do
  let line ← h.getLine
  if line.isEmpty then return ()
  IO.println (handle line)
  loop h

def main : IO Unit := do loop (← IO.getStdin)
