/- Line-protocol driver for M8 Isolation.
   csr <sources> | <indicator> | <indptr> | <indices> | <data> | <nconn>            -> final indicator (comma separated)
   net <n> | <a> <b> <kind 0 pipe 1 pump 2 valve> <user> <internal>, ... | <initOrder> | <sources> | <ops>
        ops: U<k>=<v> (user status action)  I<k>=<v> (internal status action)  u (update graph)  g (get isolated)  p (u then g)
             P / G (= p / g, printing also the previously-isolated sets the call started from)  R (run_sim starts again: seed + init)
             s (store_results_in_network: prints the flags)  r (save_results: prints statuses and flags)
        -> `init ...` segment then one segment per op, separated by " | "
   legs <n> | <links> | <initOrder> | <sources> | <leg> ; <leg> ...     leg = <pass> / <pass> ...   pass = <acts> > <acts> > <report01>
        -> the rows of Model/IsolationRun.lean `runLegs` from a flag-free network, separated by " | "
-/
import WntrModel.Model.Isolation
import WntrModel.Model.IsolationStatic
import WntrModel.Model.IsolationRun
open Wntr.Isolation

def nats (s : String) : List Nat :=
  (s.trimAscii.toString.splitOn " ").filterMap fun t => if t.isEmpty then none else t.toNat?

def ints (s : String) : List Int :=
  (s.trimAscii.toString.splitOn " ").filterMap fun t => if t.isEmpty then none else t.toInt?

def commaN (l : List Nat) : String := ",".intercalate (l.map toString)
def commaI (l : List Int) : String := ",".intercalate (l.map toString)
def bits (l : List Bool) : String := String.join (l.map fun b => if b then "1" else "0")

def parseOp (t : String) : Option Op :=
  if t == "u" then some .update
  else if t == "g" || t == "G" then some .isolated
  else if t == "p" || t == "P" then some .prepare
  else if t == "R" then some .restart
  else
    let body := (t.drop 1).toString
    match body.splitOn "=" with
    | [k, v] =>
      match k.toNat?, v.toNat? with
      | some k, some v =>
        if t.startsWith "U" then some (.act true k v)
        else if t.startsWith "I" then some (.act false k v) else none
      | _, _ => none
    | _ => none

def showOutcome : Outcome → String
  | .ok => "ok" | .runtimeError => "RuntimeError" | .indexError => "IndexError"

def showMulti (m : List ((Nat × Nat) × List Nat)) : String :=
  ";".intercalate (m.map fun e => s!"{e.1.1}-{e.1.2}:{commaN e.2}")

def showIso (s : Sim) : String :=
  s!"J={bits s.isoJ} L={bits s.isoL} PJ={commaN s.prevIsoJ} PL={commaN s.prevIsoL}"

def showInit (out : Outcome) (ok : Bool) (s0 : Sim) : String :=
  let ndxs := ",".intercalate (s0.ndx.map fun p => s!"{p.1}-{p.2}")
  s!"init {showOutcome out} ok={if ok then 1 else 0} P={commaN s0.g.indptr} X={commaN s0.g.indices} " ++
    s!"N={commaN s0.g.nconn} D={commaI s0.g.data} M={showMulti s0.multi} NDX={ndxs}"

def contractOk (net : Net) (s0 : Sim) : Bool :=
  let hasLoop := net.links.any fun e => e.1 == e.2
  structOkB net.n net.links s0.g && (hasLoop || (decide s0.Static && net.initOrder.isPerm (List.range net.links.length)))

def showAfter (before s : Sim) (tok : String) : Op → String
  | .act _ k _ => s!"C={commaN s.changed} V={s.user.getD k 1},{s.internal.getD k 2},{s.status k}"
  | .update => s!"D={commaI s.g.data} C={commaN s.changed}"
  | .isolated =>
    if tok == "G" then s!"{showIso s} QJ={commaN before.prevIsoJ} QL={commaN before.prevIsoL}" else showIso s
  | .prepare =>
    if tok == "P" then s!"D={commaI s.g.data} C={commaN s.changed} {showIso s} QJ={commaN before.prevIsoJ} QL={commaN before.prevIsoL}"
    else s!"D={commaI s.g.data} C={commaN s.changed} {showIso s}"
  | .restart => s!"{showInit (startRun before).1 (contractOk s.net s) s} {showIso s}"

def showObs (s : Sim) (tok : String) : String :=
  if tok == "s" then s!"J={bits s.isoJ} L={bits s.isoL}"
  else s!"S={commaN s.statuses} J={bits s.isoJ} L={bits s.isoL}"

def parseKind (v : Nat) : LinkKind := if v == 1 then .pump else if v == 2 then .valve else .pipe

def parseNet (n links order sources : String) : Option (Net × List Nat × List Nat) :=
  match n.trimAscii.toString.toNat? with
  | none => none
  | some n =>
    let ls := (links.splitOn ",").filterMap fun l =>
      match nats l with
      | [a, b, v, u, i] => some ((a, b), parseKind v, u, i)
      | _ => none
    some ({ n := n, links := ls.map (·.1), kind := ls.map (·.2.1), initOrder := nats order, sources := nats sources },
          ls.map (·.2.2.1), ls.map (·.2.2.2))

def parseAct (t : String) : Option ActRec :=
  match parseOp t with
  | some (.act u k v) => some (u, k, v)
  | _ => none

def parsePass (t : String) : Option Pass :=
  match t.splitOn ">" with
  | [a, b, c] =>
    let pa := ((a.trimAscii.toString.splitOn " ").filter (!·.isEmpty)).map parseAct
    let pb := ((b.trimAscii.toString.splitOn " ").filter (!·.isEmpty)).map parseAct
    if pa.any Option.isNone || pb.any Option.isNone then none
    else some { pre := pa.filterMap id, post := pb.filterMap id, report := c.trimAscii.toString == "1" }
  | _ => none

def handleLegs (parts : List String) : String :=
  match parts with
  | [n, links, order, sources, legs] =>
    match parseNet n links order sources with
    | none => "bad-op"
    | some (net, user, internal) =>
      let ls := (legs.splitOn ";").map fun l =>
        ((l.splitOn "/").filter (fun t => !t.trimAscii.toString.isEmpty)).map parsePass
      if ls.any (fun l => l.any Option.isNone) then "bad-op"
      else
        let rows := (runLegs (freshSim net user internal) (ls.map fun l => l.filterMap id)).2
        " | ".intercalate (rows.map fun r => s!"S={commaN r.status} J={bits r.isoJ} L={bits r.isoL}")
  | _ => "bad-op"

def handleNet (parts : List String) : String :=
  match parts with
  | [n, links, order, sources, ops] =>
    match parseNet n links order sources with
    | none => "bad-op"
    | some (net, user, internal) =>
      let (out, s0) := initGraph net user internal
      let head := showInit out (contractOk net s0) s0
      let toks := (ops.trimAscii.toString.splitOn " ").filter (!·.isEmpty)
      let isObs := fun (t : String) => t == "s" || t == "r"
      if toks.any (fun t => !isObs t && (parseOp t).isNone) then "bad-op"
      else
        let (_, segs) := toks.foldl (fun (acc : Sim × List String) t =>
          if isObs t then (acc.1, acc.2 ++ [showObs acc.1 t])
          else match parseOp t with
            | some op =>
              let s' := step acc.1 op
              (s', acc.2 ++ [showAfter acc.1 s' t op])
            | none => acc) (s0, [head])
        " | ".intercalate segs
  | _ => "bad-op"

def handle (line : String) : String :=
  let line := line.trimAscii.toString
  if line.startsWith "csr " then
    match ((line.drop 4).toString.splitOn "|") with
    | [src, ind, indptr, indices, data, nconn] =>
      let g : Csr := { indptr := nats indptr, indices := nats indices, data := ints data, nconn := nats nconn }
      commaI (checkIsolated g (nats src) (ints ind))
    | _ => "bad-op"
  else if line.startsWith "net " then handleNet ((line.drop 4).toString.splitOn "|")
  else if line.startsWith "legs " then handleLegs ((line.drop 5).toString.splitOn "|")
  else "bad-op"

partial def loop (h : IO.FS.Stream) : IO Unit := do
  let line ← h.getLine
  if line.isEmpty then return ()
  IO.println (handle line)
  loop h

def main : IO Unit := do loop (← IO.getStdin)
